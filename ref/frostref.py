#!/usr/bin/env python3
"""frostref - a from-scratch reference implementation of RFC 9591 (FROST) signing for the five
RFC ciphersuites, of plain single-signer Schnorr sign/verify for each, and of BIP-340 / BIP-341
plus the Taproot variant of FROST derived from those two BIPs.

Big-integer affine curve arithmetic and hashlib only; no code of ZcashFoundation/frost and none
of its dependencies.  Pinned: `selftest()` recomputes EVERY value of the frozen RFC 9591
appendix vectors (vectors/*.json, sha256 in vectors/SHA256SUMS) for the five RFC suites.
"""
import hashlib, json, os, sys

HERE = os.path.dirname(os.path.abspath(__file__))


def inv(x, p):
    return pow(x, -1, p)


# ----------------------------------------------------------------------------------------------
# twisted Edwards curves  a*x^2 + y^2 = 1 + d*x^2*y^2   (affine, complete addition law)
# ----------------------------------------------------------------------------------------------
class Edwards:
    def __init__(s, p, a, d, L, B):
        s.p, s.a, s.d, s.L, s.B = p, a, d, L, B
        s.O = (0, 1)

    def add(s, P, Q):
        p = s.p
        x1, y1 = P
        x2, y2 = Q
        t = s.d * x1 * x2 * y1 * y2 % p
        x3 = (x1 * y2 + y1 * x2) * inv(1 + t, p) % p
        y3 = (y1 * y2 - s.a * x1 * x2) * inv(1 - t, p) % p
        return (x3, y3)

    def neg(s, P):
        return ((-P[0]) % s.p, P[1])

    def padd(s, P, Q):
        """projective (X:Y:Z) addition, complete (a square, d non-square): add-2008-bbjlp"""
        p = s.p
        X1, Y1, Z1 = P
        X2, Y2, Z2 = Q
        A = Z1 * Z2 % p
        B = A * A % p
        C = X1 * X2 % p
        D = Y1 * Y2 % p
        E = s.d * C * D % p
        F = (B - E) % p
        G = (B + E) % p
        X3 = A * F * ((X1 + Y1) * (X2 + Y2) - C - D) % p
        Y3 = A * G * (D - s.a * C) % p
        return (X3, Y3, F * G % p)

    def mul_raw(s, k, P):
        """k*P without reducing k; projective double-and-add, one inversion at the end
        (pinned against the affine law in selftest and, through every vector, to the RFC)"""
        R = (0, 1, 1)
        Q = (P[0], P[1], 1)
        while k:
            if k & 1:
                R = s.padd(R, Q)
            Q = s.padd(Q, Q)
            k >>= 1
        zi = inv(R[2], s.p)
        return (R[0] * zi % s.p, R[1] * zi % s.p)

    def mul(s, k, P):
        return s.mul_raw(k % s.L, P)

    def mul_affine(s, k, P):
        R = s.O
        while k:
            if k & 1:
                R = s.add(R, P)
            P = s.add(P, P)
            k >>= 1
        return R

    def on_curve(s, P):
        x, y = P
        return (s.a * x * x + y * y - 1 - s.d * x * x * y * y) % s.p == 0


p25519 = 2**255 - 19
d25519 = (-121665 * inv(121666, p25519)) % p25519
L25519 = 2**252 + 27742317777372353535851937790883648493
SQRT_M1 = pow(2, (p25519 - 1) // 4, p25519)


def recover_x25519(y, sign):
    p = p25519
    if y >= p:
        return None
    x2 = (y * y - 1) * inv(d25519 * y * y + 1, p) % p
    if x2 == 0:
        return None if sign else 0
    x = pow(x2, (p + 3) // 8, p)
    if (x * x - x2) % p != 0:
        x = x * SQRT_M1 % p
    if (x * x - x2) % p != 0:
        return None
    if (x & 1) != sign:
        x = p - x
    return x


By25519 = 4 * inv(5, p25519) % p25519
ED25519 = Edwards(p25519, p25519 - 1, d25519, L25519, (recover_x25519(By25519, 0), By25519))


def ed25519_enc(P):
    return (P[1] | ((P[0] & 1) << 255)).to_bytes(32, "little")


def ed25519_dec(b):
    """strict: canonical y, on curve, prime order, not identity"""
    if len(b) != 32:
        return None
    v = int.from_bytes(b, "little")
    y, sign = v & ((1 << 255) - 1), v >> 255
    x = recover_x25519(y, sign)
    if x is None:
        return None
    P = (x, y)
    if P == ED25519.O or ED25519.mul_raw(L25519, P) != ED25519.O:
        return None
    return P


# ---- ristretto255 (RFC 9496) -----------------------------------------------------------------
def _isneg(x):
    return x & 1


def _cabs(x):
    return (p25519 - x) % p25519 if _isneg(x) else x


def sqrt_ratio_m1(u, v):
    p = p25519
    v3 = v * v * v % p
    v7 = v3 * v3 * v % p
    r = (u * v3) * pow(u * v7, (p - 5) // 8, p) % p
    check = v * r * r % p
    correct = check == u % p
    flipped = check == (-u) % p
    flipped_i = check == (-u * SQRT_M1) % p
    if flipped or flipped_i:
        r = SQRT_M1 * r % p
    return (correct or flipped, _cabs(r))


_, INVSQRT_A_MINUS_D = sqrt_ratio_m1(1, (-1 - d25519) % p25519)


def ristretto_enc(P):
    p = p25519
    x0, y0 = P
    z0 = 1
    t0 = x0 * y0 % p
    u1 = (z0 + y0) * (z0 - y0) % p
    u2 = x0 * y0 % p
    _, invsqrt = sqrt_ratio_m1(1, u1 * u2 * u2 % p)
    den1 = invsqrt * u1 % p
    den2 = invsqrt * u2 % p
    z_inv = den1 * den2 * t0 % p
    ix0 = x0 * SQRT_M1 % p
    iy0 = y0 * SQRT_M1 % p
    ench = den1 * INVSQRT_A_MINUS_D % p
    if _isneg(t0 * z_inv % p):
        x, y, den_inv = iy0, ix0, ench
    else:
        x, y, den_inv = x0, y0, den2
    if _isneg(x * z_inv % p):
        y = (-y) % p
    return _cabs(den_inv * (z0 - y) % p).to_bytes(32, "little")


def ristretto_dec(b):
    p = p25519
    if len(b) != 32:
        return None
    s = int.from_bytes(b, "little")
    if s >= p or _isneg(s):
        return None
    ss = s * s % p
    u1 = (1 - ss) % p
    u2 = (1 + ss) % p
    u2s = u2 * u2 % p
    v = (-(d25519 * u1 * u1) - u2s) % p
    ok, invsqrt = sqrt_ratio_m1(1, v * u2s % p)
    den_x = invsqrt * u2 % p
    den_y = invsqrt * den_x * v % p
    x = _cabs(2 * s * den_x % p)
    y = u1 * den_y % p
    t = x * y % p
    if (not ok) or _isneg(t) or y == 0:
        return None
    if s == 0:
        return None  # identity is refused by FROST
    return (x, y)


# ---- edwards448 --------------------------------------------------------------------------------
p448 = 2**448 - 2**224 - 1
d448 = (-39081) % p448
L448 = int("3fffffffffffffffffffffffffffffffffffffffffffffffffffffff7cca23e9c44edb49aed63690216cc2728dc58f552378c292ab5844f3", 16)
B448 = (
    224580040295924300187604334099896036246789641632564134246125461686950415467406032909029192869357953282578032075146446173674602635247710,
    298819210078481492676017930443930673437544040154080242095928241372331506189835876003536878655418784733982303233503462500531545062832660,
)
ED448 = Edwards(p448, 1, d448, L448, B448)


def ed448_enc(P):
    return P[1].to_bytes(56, "little") + bytes([(P[0] & 1) << 7])


def ed448_dec(b):
    if len(b) != 57 or b[56] & 0x7F:
        return None
    y = int.from_bytes(b[:56], "little")
    sign = b[56] >> 7
    p = p448
    if y >= p:
        return None
    u = (y * y - 1) % p
    v = (d448 * y * y - 1) % p
    x2 = u * inv(v, p) % p if v else None
    if x2 is None:
        return None
    x = pow(x2, (p + 1) // 4, p)
    if (x * x - x2) % p != 0:
        return None
    if x == 0 and sign:
        return None
    if (x & 1) != sign:
        x = p - x
    P = (x, y)
    if P == ED448.O or ED448.mul_raw(L448, P) != ED448.O:
        return None
    return P


# ----------------------------------------------------------------------------------------------
# short Weierstrass
# ----------------------------------------------------------------------------------------------
class Weier:
    def __init__(s, p, a, b, n, G):
        s.p, s.a, s.b, s.L, s.B = p, a, b, n, G
        s.O = None

    def add(s, P, Q):
        p = s.p
        if P is None:
            return Q
        if Q is None:
            return P
        if P[0] == Q[0]:
            if (P[1] + Q[1]) % p == 0:
                return None
            l = (3 * P[0] * P[0] + s.a) * inv(2 * P[1], p) % p
        else:
            l = (Q[1] - P[1]) * inv(Q[0] - P[0], p) % p
        x = (l * l - P[0] - Q[0]) % p
        return (x, (l * (P[0] - x) - P[1]) % p)

    def neg(s, P):
        return None if P is None else (P[0], (-P[1]) % s.p)

    def mul(s, k, P):
        k %= s.L
        R = None
        while k:
            if k & 1:
                R = s.add(R, P)
            P = s.add(P, P)
            k >>= 1
        return R

    def lift_x(s, x, odd):
        p = s.p
        if x >= p:
            return None
        y2 = (pow(x, 3, p) + s.a * x + s.b) % p
        y = pow(y2, (p + 1) // 4, p)
        if y * y % p != y2:
            return None
        if (y & 1) != odd:
            y = p - y
        return (x, y)


def sec1_enc(P):
    return bytes([2 + (P[1] & 1)]) + P[0].to_bytes(32, "big")


def sec1_dec(curve):
    def f(b):
        if len(b) != 33 or b[0] not in (2, 3):
            return None
        return curve.lift_x(int.from_bytes(b[1:], "big"), b[0] & 1)

    return f


P256 = Weier(
    2**256 - 2**224 + 2**192 + 2**96 - 1,
    -3,
    0x5AC635D8AA3A93E7B3EBBD55769886BC651D06B0CC53B0F63BCE3C3E27D2604B,
    0xFFFFFFFF00000000FFFFFFFFFFFFFFFFBCE6FAADA7179E84F3B9CAC2FC632551,
    (0x6B17D1F2E12C4247F8BCE6E563A440F277037D812DEB33A0F4A13945D898C296, 0x4FE342E2FE1A7F9B8EE7EB4A7C0F9E162BCE33576B315ECECBB6406837BF51F5),
)
K256 = Weier(
    2**256 - 2**32 - 977,
    0,
    7,
    0xFFFFFFFFFFFFFFFFFFFFFFFFFFFFFFFEBAAEDCE6AF48A03BBFD25E8CD0364141,
    (0x79BE667EF9DCBBAC55A06295CE870B07029BFCDB2DCE28D959F2815B16F81798, 0x483ADA7726A3C4655DA4FBFC0E1108A8FD17B448A68554199C47D08FFB10D4B8),
)


def xmd_sha256(msg, dst, n):
    ell = -(-n // 32)
    dstp = dst + bytes([len(dst)])
    b0 = hashlib.sha256(bytes(64) + msg + n.to_bytes(2, "big") + b"\0" + dstp).digest()
    b = [hashlib.sha256(b0 + b"\x01" + dstp).digest()]
    for i in range(2, ell + 1):
        b.append(hashlib.sha256(bytes(x ^ y for x, y in zip(b0, b[-1])) + bytes([i]) + dstp).digest())
    return b"".join(b)[:n]


def tagged_hash(tag, m):
    t = hashlib.sha256(tag.encode()).digest()
    return hashlib.sha256(t + t + m).digest()


# ----------------------------------------------------------------------------------------------
# ciphersuites
# ----------------------------------------------------------------------------------------------
class Suite:
    pass


sha512 = lambda m: hashlib.sha512(m).digest()
shake114 = lambda m: hashlib.shake_256(m).digest(114)
sha256 = lambda m: hashlib.sha256(m).digest()


def hs_25519(ctx, tag, m):
    return int.from_bytes(sha512(ctx + tag + m), "little") % L25519


def hs_448(ctx, tag, m):
    return int.from_bytes(shake114(ctx + tag + m), "little") % L448


def hs_xmd(curve):
    return lambda ctx, tag, m: int.from_bytes(xmd_sha256(m, ctx + tag, 48), "big") % curve.L


def mk(name, ctx, curve, enc_el, dec_el, ns, endian, hscalar, harr, h2, taproot=False):
    s = Suite()
    s.name, s.ctx, s.c, s.enc_el, s.dec_el, s.ns, s.endian, s.taproot = name, ctx, curve, enc_el, dec_el, ns, endian, taproot
    s.L = curve.L
    s.enc_sc = lambda x: (x % curve.L).to_bytes(ns, endian)
    s.H1 = lambda m: hscalar(ctx, b"rho", m)
    s.H3 = lambda m: hscalar(ctx, b"nonce", m)
    s.H2 = h2
    s.H4 = lambda m: harr(ctx + b"msg" + m)
    s.H5 = lambda m: harr(ctx + b"com" + m)

    def dec_sc(b):
        if len(b) != ns:
            return None
        v = int.from_bytes(b, endian)
        return v if v < curve.L else None

    s.dec_sc = dec_sc
    return s


CTX_TR = b"FROST-secp256k1-SHA256-TR-v1"
SUITES = {
    "ed25519": mk("ed25519", b"FROST-ED25519-SHA512-v1", ED25519, ed25519_enc, ed25519_dec, 32, "little", hs_25519, sha512, lambda m: int.from_bytes(sha512(m), "little") % L25519),
    "ristretto255": mk("ristretto255", b"FROST-RISTRETTO255-SHA512-v1", ED25519, ristretto_enc, ristretto_dec, 32, "little", hs_25519, sha512, lambda m: hs_25519(b"FROST-RISTRETTO255-SHA512-v1", b"chal", m)),
    "ed448": mk("ed448", b"FROST-ED448-SHAKE256-v1", ED448, ed448_enc, ed448_dec, 57, "little", hs_448, shake114, lambda m: int.from_bytes(shake114(b"SigEd448\0\0" + m), "little") % L448),
    "p256": mk("p256", b"FROST-P256-SHA256-v1", P256, sec1_enc, sec1_dec(P256), 32, "big", hs_xmd(P256), sha256, lambda m: hs_xmd(P256)(b"FROST-P256-SHA256-v1", b"chal", m)),
    "secp256k1": mk("secp256k1", b"FROST-secp256k1-SHA256-v1", K256, sec1_enc, sec1_dec(K256), 32, "big", hs_xmd(K256), sha256, lambda m: hs_xmd(K256)(b"FROST-secp256k1-SHA256-v1", b"chal", m)),
    "secp256k1-tr": mk("secp256k1-tr", CTX_TR, K256, sec1_enc, sec1_dec(K256), 32, "big", hs_xmd(K256), sha256, lambda m: int.from_bytes(tagged_hash("BIP0340/challenge", m), "big") % K256.L, taproot=True),
}


# ----------------------------------------------------------------------------------------------
# RFC 9591 signing flow (section 4 and 5), returning every intermediate
# ----------------------------------------------------------------------------------------------
def lagrange(L, ids, i):
    num = den = 1
    for j in ids:
        if j != i:
            num = num * j % L
            den = den * (j - i) % L
    return num * inv(den, L) % L


def frost_sign(S, PK, msg, shares, randomness):
    """shares: {id(int): share(int)}, randomness: {id: (hiding 32 bytes, binding 32 bytes)}.
    Returns a dict with every intermediate as bytes, keyed like the transcript of the harness."""
    c, L = S.c, S.L
    out = {"nonces": {}, "commitments": {}, "preimages": {}, "binding_factors": {}, "lambdas": {}, "sig_shares": {}}
    ids = sorted(shares)
    com = {}
    for i in ids:
        hr, br = randomness[i]
        d = S.H3(hr + S.enc_sc(shares[i]))
        e = S.H3(br + S.enc_sc(shares[i]))
        D, E = c.mul(d, c.B), c.mul(e, c.B)
        com[i] = (d, e, D, E)
        out["nonces"][i] = (S.enc_sc(d), S.enc_sc(e))
        out["commitments"][i] = (S.enc_el(D), S.enc_el(E))
    key_flip = False
    if S.taproot and PK[1] & 1:
        # BIP-340: the signers negate their shares so that the key has even Y
        key_flip = True
        PK = c.neg(PK)
    enc_list = b"".join(S.enc_sc(i) + S.enc_el(com[i][2]) + S.enc_el(com[i][3]) for i in ids)
    out["enc_list"] = enc_list
    prefix = S.enc_el(PK) + S.H4(msg) + S.H5(enc_list)
    rho = {}
    for i in ids:
        pre = prefix + S.enc_sc(i)
        out["preimages"][i] = pre
        rho[i] = S.H1(pre)
        out["binding_factors"][i] = S.enc_sc(rho[i])
    R = None
    for i in ids:
        T = c.add(com[i][2], c.mul(rho[i], com[i][3]))
        R = T if R is None else c.add(R, T)
    out["group_commitment"] = S.enc_el(R)
    nonce_flip = False
    if S.taproot:
        if R[1] & 1:
            nonce_flip = True
        chal = S.H2(R[0].to_bytes(32, "big") + PK[0].to_bytes(32, "big") + msg)
    else:
        chal = S.H2(S.enc_el(R) + S.enc_el(PK) + msg)
    out["challenge"] = S.enc_sc(chal)
    z = 0
    for i in ids:
        lam = lagrange(L, ids, i)
        out["lambdas"][i] = S.enc_sc(lam)
        d, e = com[i][0], com[i][1]
        if nonce_flip:
            d, e = -d, -e
        s = -shares[i] if key_flip else shares[i]
        zi = (d + e * rho[i] + lam * s * chal) % L
        out["sig_shares"][i] = S.enc_sc(zi)
        z = (z + zi) % L
    if S.taproot:
        out["signature"] = R[0].to_bytes(32, "big") + S.enc_sc(z)
    else:
        out["signature"] = S.enc_el(R) + S.enc_sc(z)
    return out


# ----------------------------------------------------------------------------------------------
# plain single-signer Schnorr of each suite
# ----------------------------------------------------------------------------------------------
def bip340_verify(px, msg, sig):
    if len(px) != 32 or len(sig) != 64:
        return False
    c = K256
    P = c.lift_x(int.from_bytes(px, "big"), 0)
    r = int.from_bytes(sig[:32], "big")
    s = int.from_bytes(sig[32:], "big")
    if P is None or r >= c.p or s >= c.L:
        return False
    e = int.from_bytes(tagged_hash("BIP0340/challenge", sig[:32] + px + msg), "big") % c.L
    R = c.add(c.mul(s, c.B), c.neg(c.mul(e, P)))
    return R is not None and R[1] & 1 == 0 and R[0] == r


def bip341_output_key(px, merkle_root):
    """x-only internal key -> (x-only output key, parity)"""
    c = K256
    P = c.lift_x(int.from_bytes(px, "big"), 0)
    t = int.from_bytes(tagged_hash("TapTweak", px + (merkle_root or b"")), "big")
    if P is None or t >= c.L:
        return None
    Q = c.add(P, c.mul(t, c.B))
    return Q[0].to_bytes(32, "big"), Q[1] & 1


def verify(S, vk_bytes, msg, sig):
    """Ordinary single-signer verification of the suite on wire bytes."""
    if S.taproot:
        if len(vk_bytes) != 33:
            return False
        return bip340_verify(vk_bytes[1:], msg, sig)
    PK = S.dec_el(vk_bytes)
    ne = len(S.enc_el(S.c.B))
    if PK is None or len(sig) != ne + S.ns:
        return False
    R = S.dec_el(sig[:ne])
    z = S.dec_sc(sig[ne:])
    if R is None or z is None:
        return False
    chal = S.H2(sig[:ne] + vk_bytes + msg)
    lhs = S.c.mul(z, S.c.B)
    rhs = S.c.add(R, S.c.mul(chal, PK))
    if lhs is None or rhs is None or lhs == S.c.O or rhs == S.c.O:
        return lhs == rhs
    # equality in the group (for ristretto255: of the encodings, i.e. modulo the torsion coset)
    return S.enc_el(lhs) == S.enc_el(rhs)


def sign(S, sk, msg, k):
    """Ordinary single-signer signature with nonce k (caller-chosen)."""
    c = S.c
    PK = c.mul(sk, c.B)
    if S.taproot:
        if PK[1] & 1:
            sk = -sk
            PK = c.neg(PK)
        R = c.mul(k, c.B)
        if R[1] & 1:
            k = -k
            R = c.neg(R)
        e = S.H2(R[0].to_bytes(32, "big") + PK[0].to_bytes(32, "big") + msg)
        return S.enc_el(PK), R[0].to_bytes(32, "big") + S.enc_sc(k + e * sk)
    R = c.mul(k, c.B)
    chal = S.H2(S.enc_el(R) + S.enc_el(PK) + msg)
    return S.enc_el(PK), S.enc_el(R) + S.enc_sc(k + chal * sk)


# ----------------------------------------------------------------------------------------------
# pin: the RFC 9591 appendix vectors
# ----------------------------------------------------------------------------------------------
def check_vector(suite, path):
    S = SUITES[suite]
    c, L = S.c, S.L
    v = json.load(open(path))
    hx = bytes.fromhex
    dec = lambda h: int.from_bytes(hx(h), S.endian)
    n = 0
    msg = hx(v["inputs"]["message"])
    sk = dec(v["inputs"]["group_secret_key"])
    PK = c.mul(sk, c.B)
    assert S.enc_el(PK).hex() == v["inputs"]["verifying_key_key"], "verifying key"
    shares_all = {p["identifier"]: dec(p["participant_share"]) for p in v["inputs"]["participant_shares"]}
    coef = [sk] + [dec(x) for x in v["inputs"]["share_polynomial_coefficients"]]
    for i, s in shares_all.items():
        assert s == sum(a * pow(i, k, L) for k, a in enumerate(coef)) % L, "share"
        n += 1
    outs = v["round_one_outputs"]["outputs"]
    signers = [o["identifier"] for o in outs]
    res = frost_sign(S, PK, msg, {i: shares_all[i] for i in signers}, {o["identifier"]: (hx(o["hiding_nonce_randomness"]), hx(o["binding_nonce_randomness"])) for o in outs})
    for o in outs:
        i = o["identifier"]
        assert res["nonces"][i][0].hex() == o["hiding_nonce"] and res["nonces"][i][1].hex() == o["binding_nonce"], "nonce"
        assert res["commitments"][i][0].hex() == o["hiding_nonce_commitment"] and res["commitments"][i][1].hex() == o["binding_nonce_commitment"], "commitment"
        assert res["preimages"][i].hex() == o["binding_factor_input"], "binding factor input"
        assert res["binding_factors"][i].hex() == o["binding_factor"], "binding factor"
        n += 6
    for o in v["round_two_outputs"]["outputs"]:
        assert res["sig_shares"][o["identifier"]].hex() == o["sig_share"], "sig share"
        n += 1
    assert res["signature"].hex() == v["final_output"]["sig"], "signature"
    assert verify(S, S.enc_el(PK), msg, res["signature"]), "verify"
    bad = bytearray(res["signature"])
    bad[-1] ^= 1
    assert not verify(S, S.enc_el(PK), msg, bytes(bad)), "negative control"
    return n + 3


def selftest(verbose=False):
    sums = {}
    for line in open(os.path.join(HERE, "vectors", "SHA256SUMS")):
        h, name = line.split()
        sums[os.path.basename(name)] = h
    total = 0
    for suite in ["ed25519", "ristretto255", "ed448", "p256", "secp256k1", "secp256k1-tr"]:
        for f in ["vectors.json", "vectors-big-identifier.json"]:
            name = f"{suite}.{f}"
            path = os.path.join(HERE, "vectors", name)
            if hashlib.sha256(open(path, "rb").read()).hexdigest() != sums.get(name):
                raise AssertionError(f"frozen vector {name} was modified")
            n = check_vector(suite, path)
            total += n
            if verbose:
                print(f"{suite:14} {f:30} {n} values reproduced")
    # projective scalar multiplication agrees with the affine addition law
    for E in (ED25519, ED448):
        for k in (1, 2, 3, 7, 0xDEADBEEFCAFE, E.L - 1, E.L, E.L + 5):
            assert E.mul_raw(k, E.B) == E.mul_affine(k, E.B), "projective vs affine"
            total += 1
    # decoders: round trips and rejections
    for name, S in SUITES.items():
        c = S.c
        for k in (1, 2, 3, S.L - 1, 0xDEADBEEF):
            P = c.mul(k, c.B)
            assert S.enc_el(S.dec_el(S.enc_el(P))) == S.enc_el(P), f"{name} decode(encode) k={k}"
            total += 1
        assert S.dec_sc(S.enc_sc(S.L - 1)) == S.L - 1 and S.dec_sc((S.L).to_bytes(S.ns, S.endian)) is None
    # BIP-340 test vector 0 (index 0 of the official CSV) and BIP-341 sanity
    sk0 = 3
    pk0 = bytes.fromhex("F9308A019258C31049344F85F89D5229B531C845836F99B08601F113BCE036F9")
    sig0 = bytes.fromhex("E907831F80848D1069A5371B402410364BDF1C5F8307B0084C55F1CE2DCA821525F66A4A85EA8B71E482A74F382D2CE5EBEEE8FDB2172F477DF4900D310536C0")
    assert bip340_verify(pk0, bytes(32), sig0), "BIP-340 vector 0"
    assert K256.mul(sk0, K256.B)[0].to_bytes(32, "big") == pk0
    total += 2
    return total


if __name__ == "__main__":
    n = selftest(verbose=True)
    print(f"frostref selftest ok: {n} values")
