#!/usr/bin/env python3
"""Transcript checker: reads a JSON list of requests (file path argv[1] or stdin), answers with a
JSON list of responses on stdout.  Request types:

  session : inputs of one FROST signing session plus every intermediate the library exposed;
            everything is recomputed from the inputs by frostref and compared byte for byte
  verify  : {suite, vk, msg, sig}            -> {"valid": bool}
  sign    : {suite, sk, msg, k}              -> {"vk": hex, "sig": hex}
  decode  : {suite, kind: scalar|element, bytes} -> {"accept": bool}
  selftest: {}                                -> {"ok": bool, "values": n}
"""
import json, sys
import frostref as fr

hx = bytes.fromhex


def do_session(r):
    S = fr.SUITES[r["suite"]]
    dec = lambda h: int.from_bytes(hx(h), S.endian)
    mism = []
    ids_hex = r["ids"]
    ids = {h: dec(h) for h in ids_hex}
    if len(set(ids.values())) != len(ids):
        return {"ok": False, "mismatches": ["duplicate identifiers"]}
    shares = {ids[h]: dec(r["shares"][h]) for h in ids_hex}
    rnd = {ids[h]: (hx(r["randomness"][h][0]), hx(r["randomness"][h][1])) for h in ids_hex}
    PK = S.dec_el(hx(r["vk"]))
    if PK is None:
        return {"ok": False, "mismatches": ["verifying key does not decode in the reference"]}
    msg = hx(r["msg"])
    ref = fr.frost_sign(S, PK, msg, shares, rnd)
    lib = r["lib"]

    def cmp(name, got_hex, want_bytes):
        if got_hex != want_bytes.hex():
            mism.append({"field": name, "library": got_hex[:160], "reference": want_bytes.hex()[:160]})

    # identifier order of the encoded list = ascending numeric order
    for h in ids_hex:
        i = ids[h]
        cmp(f"hiding_nonce[{h[:8]}]", lib["nonces"][h][0], ref["nonces"][i][0])
        cmp(f"binding_nonce[{h[:8]}]", lib["nonces"][h][1], ref["nonces"][i][1])
        cmp(f"hiding_commitment[{h[:8]}]", lib["commitments"][h][0], ref["commitments"][i][0])
        cmp(f"binding_commitment[{h[:8]}]", lib["commitments"][h][1], ref["commitments"][i][1])
        cmp(f"binding_factor_input[{h[:8]}]", lib["preimages"][h], ref["preimages"][i])
        cmp(f"binding_factor[{h[:8]}]", lib["binding_factors"][h], ref["binding_factors"][i])
        cmp(f"lambda[{h[:8]}]", lib["lambdas"][h], ref["lambdas"][i])
        cmp(f"sig_share[{h[:8]}]", lib["sig_shares"][h], ref["sig_shares"][i])
    cmp("encoded_commitment_list", lib["enc_list"], ref["enc_list"])
    cmp("group_commitment", lib["group_commitment"], ref["group_commitment"])
    cmp("challenge", lib["challenge"], ref["challenge"])
    cmp("signature", lib["signature"], ref["signature"])
    # the library's order of the preimage list must be ascending numeric identifier order
    order = [ids[h] for h in lib["preimage_order"]]
    if order != sorted(order):
        mism.append({"field": "preimage_order", "library": str(lib["preimage_order"]), "reference": "ascending numeric order"})
    valid = fr.verify(S, hx(r["vk"]), msg, hx(lib["signature"]))
    if not valid:
        mism.append({"field": "signature does not verify in the reference verifier", "library": lib["signature"][:160], "reference": ""})
    # simplify keys of mismatches for stable finding keys
    return {"ok": not mism, "mismatches": mism}


def main():
    data = json.load(open(sys.argv[1])) if len(sys.argv) > 1 else json.load(sys.stdin)
    out = []
    for r in data:
        t = r.get("type")
        try:
            if t == "session":
                out.append(do_session(r))
            elif t == "verify":
                S = fr.SUITES[r["suite"]]
                out.append({"valid": bool(fr.verify(S, hx(r["vk"]), hx(r["msg"]), hx(r["sig"])))})
            elif t == "sign":
                S = fr.SUITES[r["suite"]]
                vk, sig = fr.sign(S, int(r["sk"], 16), hx(r["msg"]), int(r["k"], 16))
                out.append({"vk": vk.hex(), "sig": sig.hex()})
            elif t == "decode":
                S = fr.SUITES[r["suite"]]
                b = hx(r["bytes"])
                ok = (S.dec_sc(b) is not None) if r["kind"] == "scalar" else (S.dec_el(b) is not None)
                out.append({"accept": bool(ok)})
            elif t == "taproot":
                # BIP-341: output key of (internal key, merkle root) and BIP-340 verification under it
                internal = hx(r["internal"])
                root = hx(r["root"]) if r.get("root") is not None else None
                q = fr.bip341_output_key(internal[1:] if len(internal) == 33 else internal, root)
                out.append({"valid": bool(q is not None and fr.bip340_verify(q[0], hx(r["msg"]), hx(r["sig"]))), "output_key": q[0].hex() if q else None})
            elif t == "selftest":
                out.append({"ok": True, "values": fr.selftest()})
            else:
                out.append({"error": f"unknown request type {t}"})
        except Exception as e:  # a crash of the reference is a machinery error, reported as such
            out.append({"error": f"{type(e).__name__}: {e}"})
    json.dump(out, sys.stdout)


if __name__ == "__main__":
    main()
