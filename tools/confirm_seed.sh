#!/bin/bash
# usage: tools/confirm_seed.sh <outdir-with-patch_k.diff-demo_k.rs-meta_k.json> <k> <seed-id>
# Confirms, in a scratch worktree of /repo (never in /repo itself), that a candidate change
#  (1) applies and compiles, (2) leaves the repository's own suite green,
#  (3) makes its demonstration fail, which passes without it.
# On success stores it as /verif/seeded/<seed-id>/{patch.diff,demo.rs,meta.json}.
set -u
SRC="$1"; K="$2"; SID="$3"
SLOT="${CONFIRM_SLOT:-}"   # optional: several confirmations in parallel, one scratch worktree per slot
WT=/tmp/wt/confirm$SLOT
export CARGO_TARGET_DIR=/tmp/wt/confirm_target$SLOT
export CARGO_NET_OFFLINE=true
exec 8>/tmp/wt/confirm$SLOT.lock; flock 8
if [ ! -d "$WT" ]; then git -C /repo worktree add --detach "$WT" HEAD -q; fi
git -C "$WT" checkout -q --detach "$(git -C /repo rev-parse HEAD)"; git -C "$WT" checkout -q -- .; git -C "$WT" clean -fdq
[ -d "$CARGO_TARGET_DIR" ] || cp -r /repo/target "$CARGO_TARGET_DIR"
PATCH="$SRC/patch_$K.diff"; DEMO="$SRC/demo_$K.rs"
PLACE=$(head -3 "$DEMO" | grep -ioE '(frost-[a-z0-9-]+/tests/[A-Za-z0-9_]+\.rs)' | head -1)
[ -n "$PLACE" ] || { echo "cannot find demo placement"; exit 2; }
CRATE=${PLACE%%/*}; TNAME=$(basename "$PLACE" .rs)
LOG=/tmp/wt/confirm_logs; mkdir -p $LOG
cp "$DEMO" "$WT/$PLACE"
( cd "$WT" && cargo test --offline -p "$CRATE" --test "$TNAME" > $LOG/${SID}_demo_without.log 2>&1 ); RC_WITHOUT=$?
git -C "$WT" apply "$PATCH" || { echo "patch does not apply on current /repo HEAD"; exit 2; }
( cd "$WT" && cargo test --offline -p "$CRATE" --test "$TNAME" > $LOG/${SID}_demo_with.log 2>&1 ); RC_WITH=$?
rm -f "$WT/$PLACE"
( cd "$WT" && cargo test --workspace --no-fail-fast --offline > $LOG/${SID}_suite.log 2>&1 ); RC_SUITE=$?
SUITE=$(grep -E "^test result" $LOG/${SID}_suite.log | awk '{p+=$4; f+=$6} END{print p" passed, "f" failed"}')
git -C "$WT" checkout -q -- .; git -C "$WT" clean -fdq
echo "$SID: demo_without rc=$RC_WITHOUT demo_with rc=$RC_WITH suite rc=$RC_SUITE ($SUITE)"
if [ $RC_WITHOUT -eq 0 ] && [ $RC_WITH -ne 0 ] && [ $RC_SUITE -eq 0 ]; then
  D=/verif/seeded/$SID; mkdir -p $D
  cp "$PATCH" $D/patch.diff; cp "$DEMO" $D/demo.rs
  python3 - "$SRC/meta_$K.json" "$D/meta.json" "$SID" "$PLACE" "$SUITE" <<'PY'
import json,sys,subprocess
src,dst,sid,place,suite=sys.argv[1:6]
m=json.load(open(src))
out={"id":sid,"breaks_property":m.get("property"),"summary":m.get("summary"),"needs_to_manifest":m.get("needs"),
 "demo_placement":place,
 "confirmed_by_me":{"base_commit":subprocess.check_output(['git','-C','/repo','rev-parse','--short','HEAD']).decode().strip(),
   "ran":["cargo test --offline -p <crate> --test <demo> on the unchanged tree: passes","same with patch.diff applied: fails","cargo test --workspace --no-fail-fast --offline with patch.diff applied (demo removed): "+suite],
   "scratch_worktree":"/tmp/wt/confirm (removed afterwards)"},
 "author":"independent sub-agent given only the property text"}
json.dump(out,open(dst,'w'),indent=1)
PY
  echo "$SID: CONFIRMED -> $D"
else
  echo "$SID: NOT confirmed (see $LOG/${SID}_*.log)"
fi
