#!/bin/bash
# usage: tools/run_seeded_subset.sh <glob-pattern-of-seed-ids>   e.g. 'C*-w6-*'
# Like run_seeded.sh for a subset; APPENDS rows to seeded/RESULTS.md.
set -u
cd "$(dirname "$0")/.."
OUT=seeded/RESULTS.md
PAT="$1"
echo >> $OUT
echo "Rows below: subset '$PAT' run on /repo $(git -C /repo rev-parse --short HEAD), /verif $(git rev-parse --short HEAD)." >> $OUT
echo >> $OUT
echo "| seeded change | breaks | check | exit | violations | first finding |" >> $OUT
echo "|---|---|---|---|---|---|" >> $OUT
for d in seeded/$PAT/; do
  id=$(basename $d)
  prop=$(python3 -c "import json;print(json.load(open('$d/meta.json'))['breaks_property'])")
  checks="$prop"
  [ -f $d/also ] && checks="$checks $(cat $d/also)"
  for c in $checks; do
    res=$(tools/try_patch.sh $d/patch.diff $c 2>&1)
    rc=$(echo "$res" | grep -oE "rc=[0-9]+" | head -1 | cut -d= -f2)
    nv=$(echo "$res" | grep -oE "violations=[0-9]+" | head -1 | cut -d= -f2)
    first=$(echo "$res" | grep -E "^\[C" | head -1 | cut -d' ' -f2 | cut -c1-90)
    echo "| $id | $prop | $c | $rc | $nv | \`$first\` |" >> $OUT
    echo "$id $c rc=$rc violations=$nv $first"
  done
done
git -C /repo status --short
