#!/usr/bin/env python3
"""Print a table of what the last run of every check covered (from /verif/evidence/*.json)."""
import json, glob, os
V = os.path.dirname(os.path.dirname(os.path.abspath(__file__)))
print("| id | tier | level | cases | evaluations | distinct non-trivial | outcome classes | states / transitions / traces | wall s |")
print("|---|---|---|---|---|---|---|---|---|")
for f in sorted(glob.glob(os.path.join(V, "evidence", "C*.json"))):
    e = json.load(open(f)); c = e["coverage"]
    st = f'{c.get("states","-")} / {c.get("transitions","-")} / {c.get("traces_validated_against_impl","-")}' if e["level"] == "model_checking" else "-"
    print(f'| {e["property_id"]} | {e["tier"]} | {e["level"]} | {c.get("cases_executed")} | {c["evaluations"]} | {c["distinct_nontrivial"]} | {len(c.get("outcome_classes",{}))} | {st} | {e["wall_s"]:.1f} |')
