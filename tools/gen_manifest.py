#!/usr/bin/env python3
"""Generate /verif/MANIFEST.json from the table below (single source of truth)."""
import json, os
V = os.path.dirname(os.path.dirname(os.path.abspath(__file__)))
BASE = json.load(open('/root/.vp/BASELINE.json')) if os.path.exists('/root/.vp/BASELINE.json') else {}

# id -> (category, technique, text, note, design_ref)
CHECKS = {
 "C01": ("exploration", "bounded-exhaustive shape enumeration on the real code + exhaustive tiny-field value enumeration",
         "Every signer subset of every (n,t) up to the bound, 5 identifier kinds, dealer/split/DKG keys, on all six ciphersuites, each session checked by an independent single-signer verifier; plus sessions in which every object crosses the wire (binary / JSON), sessions on refreshed / repaired key material, preprocessed nonce batches, legacy packages and the Taproot tweak wrappers; plus every key/coefficient/nonce value on GF(7)/GF(11) against a plain-u64 reference of the whole signing flow.",
         "Real-curve scalars are an alphabet, not all values (value-genericity argument, DESIGN 2); curve crates, sha2/sha3, ed25519-dalek and libsecp256k1 are trusted.", "DESIGN 4 C01"),
}
CHECKS.update({
 "C03": ("exploration", "bounded-exhaustive enumeration of every below-threshold signer subset on the real code + exhaustive tiny-field secrecy count",
         "Every subset of size 1..t-1 of every (n,t) up to the bound, with honest and lied thresholds in key packages and public key package, through sign / aggregate (3 modes; the refusal must be IncorrectNumberOfShares in each) / reconstruct / hand-assembled signatures, the same drive through the re-randomized entry points (sign_with_randomizer_seed, deprecated sign, aggregate, aggregate_custom) and on key material after dealer refresh / distributed refresh / repair among exactly t and t+1 holders (and after an attempted threshold-lowering refresh with a legacy package); exact Shamir secrecy (every secret equally often for every (t-1)-subset of shares) over ALL polynomials on GF(5), GF(7), GF(11).",
         "Unforgeability against arbitrary algorithms is a cryptographic assumption and is not decided; what is decided is the refusals, the honest-algorithm attack surface and exact secrecy on the tiny field.", "DESIGN 4 C03"),
 "C04": ("fault_enumeration", "exhaustive fault enumeration (every cheater subset x wrong-share kind x detection mode) with an exact reference predicate; every error vector on the tiny field",
         "Every non-empty cheater subset of every signer set, eight wrong-share kinds incl. cross-session, cancelling and nonce-sign-flipped ones, three detection modes plus stand-alone share verification, Taproot in all four (key parity, R parity) branches; the same oracle on key material after dealer refresh (unsorted list) / distributed refresh / repair, with transported and legacy public key packages, through the re-randomized aggregate and through the Taproot tweak wrappers with both key parities; oracle is exact (e_i computed by the harness, numeric identifier order computed independently). On GF(7)/GF(11)/GF(13) EVERY error vector is run.",
         "Wrong-share values on the real curves are structured kinds, not all values; all values only on the tiny field.", "DESIGN 4 C04"),
 "C06": ("exploration", "bounded-exhaustive shape enumeration + exhaustive single-coordinate tamper enumeration; exhaustive tiny-field polynomials",
         "Every (n,t) up to the bound x 5 identifier kinds x generate/split: every share checked by independent commitment evaluation and Lagrange interpolation, EVERY t-subset reconstructs, every (t-1)-subset does not, EVERY single-coordinate tampering (value, identifier, each commitment entry, truncation, extension) of every share is rejected; u16 boundary and duplicate/mis-sized identifier lists (incl. n + 65536 entries) refused; custom identifier lists whose members differ in ONE bit, for every bit position; n=65535 with default identifiers; all polynomials on GF(5)/GF(7)/GF(11).",
         "Coefficient values on the real curves are seeded streams; all values only on the tiny field.", "DESIGN 4 C06"),
 "C11": ("exploration", "bounded-exhaustive enumeration of (repaired identifier, helper set) on the real code; every blinding vector on the tiny field",
         "Every repaired identifier (each existing participant and three new ones) x every helper set t<=|H| of every (n,t) up to the bound through the three repair parts of each crate's wrappers; delta sums and the repaired share compared with independent Lagrange interpolation; the public key package reaches part 3 through its binary and JSON encodings; hundreds of helpers incl. a (260,256) group; repair after a refresh (refreshed package, legacy package upgraded by the distributed refresh, stale package); the refusals; every blinding vector on GF(7)/GF(11).",
         "Blinding values on the real curves are seeded streams.", "DESIGN 4 C11"),
})
CHECKS.update({
 "C10": ("model_checking", "explicit exploration of the refresh operation tree on the real code (every remaining set, both procedures, depth-bounded, no state merging) with invariants on every node",
         "Nodes are groups holding real key material, edges are the real dealer and distributed refresh procedures for EVERY remaining set R (|R|>=t); every path to the depth bound is executed. On every node: key unchanged, every package re-linked (verifying share = G*share = public entry), every t-subset signs (independent verifier), every strict old/new mix and every set with a removed member fails, and the threshold-change / unknown-identifier / non-zero-constant refusals refuse in both procedures (incl. each single member deviating as an attacker, participants holding a legacy public key package, and a refreshing polynomial of 65536 + t coefficients).",
         "Refresh polynomials are seeded streams; a full threshold of OLD shares still signs (documented, not asserted to fail).", "DESIGN 4 C10"),
})
CHECKS.update({
 "C12": ("exploration", "exhaustive single-deviation byte-space exploration of every valid encoding (E4) with a re-encode oracle, plus explicit must-reject strings and header enumeration",
         "For every primitive decoder x 3 decoding paths (own deserialize, serde+postcard, serde+JSON) x several base encodings: every single-byte substitution (hence every bit flip and every tag byte), every length 0..2L; accepted => re-encoding reproduces the input. Explicit negatives (zero where the type excludes it - and acceptance of zero where the type can hold it -, q, q+1, identity spellings, all 8 / 4 torsion points, mixed-order points, x>=p, off-curve x, every SEC1 tag), every version byte and multi-byte / wide-integer version spelling, every deviation of the 4-byte ciphersuite id, other suites' ids and encodings, JSON header variants; every primitive in another plausible format or framing (SEC1 uncompressed / hybrid / x-only, R with or without tag, a byte appended / prepended / dropped, encoded twice); value round trips of ~40 wire types x shapes x identifier kinds in postcard and JSON incl. the pre-3.0 public key package.",
         "Byte strings two or more deviations away from a valid encoding are outside the bound (thorough adds all 2-bit flips for <=33-byte primitives); postcard trailing bytes / non-minimal varints and JSON hex case are the serde back ends' framing and are not alarmed.", "DESIGN 4 C12"),
})
CHECKS.update({
 "C07": ("exploration", "bounded-exhaustive shape enumeration of complete honest DKG runs on the real code with independent algebraic oracles",
         "Every (n,t) up to the bound x 5 identifier kinds x seeds through each crate's three DKG parts (and the tiny field): all participants hold the identical public package; every key package is consistent; group key = sum of constant-term commitments (Taproot: BIP-341 key-path-only tweak recomputed with libsecp256k1 add_tweak); every entry = summed commitment polynomial evaluated independently; EVERY t-subset interpolates to the key and signs under an independent verifier; runs in which an honest polynomial has a root at a peer's identifier (zero round-two share); a 256-of-257 run with round-one packages over the wire.",
         "Per-participant polynomials are seeded streams.", "DESIGN 4 C07"),
 "C08": ("fault_enumeration", "exhaustive fault enumeration over every (receiver, sender) pair x fault kind x field, against two concurrent honest runs",
         "Every ordered (receiver, sender) pair x ~30 fault kinds on both DKG rounds (both proof components, proof for every other identifier / other run, every commitment coefficient, lengths t-1/t+1 with and without valid proof, own-identifier filing in three forms and as a surplus entry, missing/surplus, misrouted / cross-run / cross-sender shares, consistently restricted or extended maps, a proof for the negated nonce commitment, proofs valid for a challenge over other layouts of the same fields, a commitment of 65536 + t coefficients with a valid proof and shares on it). The first consuming step must be Err, earlier steps must equal the honest run, culprits must be a subset of {sender} and exactly {sender} for proof and share faults.",
         "'Attributable' is read as 'the error carries a culprit' (DESIGN 3.8 rule 4).", "DESIGN 4 C08"),
})
CHECKS.update({
 "C05": ("model_checking", "explicit-state exploration of two concurrent signing sessions on the real code against a reference acceptance predicate",
         "Two concurrent sessions A,B of the same signers: every A/B filling of every commitment slot x message (packages), every Sign(i,P,nonces_X), every VerifyShare(P,i,z) for z in the universe of all shares signer i can be made to produce, every Aggregate(P,zvec) over the full product of universes; acceptance must equal 'produced for exactly this package'. Plus every single-field substitution and the signer-side refusals incl. slot permutations and identity commitments in every slot.",
         "Two sessions, |S|<=3; a permutation of honest shares among the package's own slots leaves the sum valid and is not asserted to fail (C04 allows it); a share re-filed under an identifier OUTSIDE the package must be rejected in every mode, with the current and the legacy public key package.", "DESIGN 4 C05"),
 "C09": ("model_checking", "explicit exploration of all delivery histories of two concurrent honest DKG runs on the real part2/part3 against a reference predicate",
         "n in {3,4}, every (t_A,t_B): per participant and own run every {A,B,absent} assignment of every round-one slot and, for each accepted one, every ({A,B} x addressee | absent) assignment of every round-two slot; part2/part3 acceptance must equal the independently computed predicate, accepted histories must yield internally consistent key material, and whenever the ciphersuite crate's part2 / part3 and the frost-core generic both succeed on a delivery they must return identical outputs; for every common round-one set all participants complete with identical public packages and every t-subset signs.",
         "Honest senders only (malformed contributions are C08); the decomposition over participants is checked on the code in every run.", "DESIGN 4 C09"),
})
CHECKS.update({
 "C13": ("model_checking", "crash-point (save/drop/restore) mask enumeration over five protocols on the real code; byte-equality with the uninterrupted execution",
         "DKG, distributed refresh, dealer refresh, preprocessed signing and repair, each followed by a signing run: at every round boundary of every participant (secret packages, key/public packages, nonces, nonce batches) and for every message in transit the value may be encoded, dropped and decoded - through the types' own serialize/deserialize, JSON, or the component-wise custom-serialization route. Every mask with <= 2 crashes and the all-ones mask (thorough: every mask over the secret-state boundaries) must give byte-identical outputs at every later step; saved state must carry version 0 and the suite identifier computed independently; part two of 72-of-72 and 260-of-260 runs (secret packages of several / more than 16 kilobytes).",
         "Random sources are scripted per (participant, step) so both runs draw the same bytes.", "DESIGN 4 C13"),
 "C14": ("fault_enumeration", "exhaustive single-deviation byte sweeps of every decoder and full-product hostile-input menus of every protocol entry point under catch_unwind with overflow checks and debug assertions",
         "Decoders: every wire type x 3 paths x suite from a valid encoding: every truncation, extension, per-position substitutions and injected extreme length varints, degenerate inputs, every other suite's encodings into every decoder. Protocol steps: 14 entry-point groups with the full product of per-argument menus of well-typed hostile values (empty / huge / duplicated / inconsistent maps and lists, identity elements, zero scalars, empty and over-long commitments incl. u16-wrapping lengths, thresholds None/0/1/65535, 1 MiB messages). No call may unwind or hang.",
         "One byte-level deviation per input; an allocation abort kills the process and is then reported by the check script.", "DESIGN 4 C14"),
})
CHECKS.update({
 "C15": ("exploration", "environment-answer exploration: scripted random sources x commit/preprocess sequences, byte stream mapped to nonces by an independent H3",
         "Suites x share alphabet x 10 random sources (counter streams, constant, repeating 32- and 5-byte blocks, zero-then-good, A,A,B and A,B,A patterns) x call sequences (commit, repeated commit, preprocess(k) for k in {0,1,2,5,255}, mixed): the byte stream handed out must be 64 bytes per pair and hiding_j / binding_j must equal an independently written H3 of the j-th / next 32 bytes followed by the share encoding; commitments = G*nonce; k pairs; (bytes, share) -> nonce is injective over the case; no zero nonce / identity commitment.",
         "The independent H3 uses the curve crates' scalar reduction and sha2/shake, none of frost-*.", "DESIGN 4 C15"),
 "C16": ("exploration", "environment-answer exploration: every RNG-taking entry point under stream pairs and EVERY single-draw deviation",
         "10 entry points x suites x (n,t): same stream => identical output; other stream => every listed secret-derived value changes; values within a call pairwise distinct; >= 16 bytes per secret; every single-draw deviation (each draw j answered from another stream, all others unchanged) changes the output; zero answers to key / proof-nonce draws are rejected and re-drawn; batch verification draws one fresh blinder per item (also for adjacent items under one key and a repeated item; batches of up to 300 items); repair with a reordered helper list; source answers outside the scalar range (all ones, order+1) never become a zero scalar and leave every entry point usable with pairwise distinct values; outputs equal those of a separate process.",
         "'Nowhere else' is decided as determinism under a scripted source within one process; blinder values are decided exactly only on the tiny field (C19).", "DESIGN 4 C16"),
})
CHECKS.update({
 "C17": ("exploration", "bounded-exhaustive shape enumeration of re-randomized sessions with independent randomizer hash; exhaustive seed-byte / commitment tamper enumeration; C04 fault menu through the re-randomized aggregate",
         "Every signer subset of every (n,t) up to the bound x randomizer sources (seeded, constant seeds, raw seeds of 0/1/31/33/100 bytes, explicit 0/1/q-1): regenerated = coordinator parameters, signature valid under the randomized and (randomizer != 0) invalid under the original key, randomizer = independently computed hash(seed || independently encoded commitments); every single-byte seed change and every commitment replacement / set change changes the randomizer; a participant with tampered seed or package is exactly the culprit; every cheater subset x 4 kinds x 3 modes and every below-threshold subset through frost-rerandomized's aggregate_custom and its mode-less aggregate (exactly the lowest wrong signer); every session repeated with the legacy (threshold-less) public key package, packages after binary / JSON transport, cloned parameters and parameters rebuilt from the transported randomizer - identical signature required.",
         "Seeds are seeded streams plus constants.", "DESIGN 4 C17"),
 "C18": ("exploration", "branch-forcing enumeration: all 8 (internal, output, R) Y-parity combinations forced by seed search for every shape / subset / script-tree root, judged by libsecp256k1",
         "(n,t) x dealer/DKG x every signer subset x 6 root variants x messages, each in ALL parity combinations (reported per combination): libsecp256k1 verify_schnorr under the output key that libsecp256k1 add_tweak derives with an independently computed TapTweak hash; rejection under the untweaked key; absent root == empty root; honest shares verify; the C04 cheater menu (every cheater subset) in every parity combination; DKG key-path-only tweak; single-signer signing for both key parities; key material after dealer refresh / distributed refresh / repair (crate wrappers): group key unchanged and sessions still valid under the output key of the original internal key.",
         "libsecp256k1 is the trusted BIP-340/341 implementation.", "DESIGN 4 C18"),
})
CHECKS.update({
 "C19": ("exploration", "bounded-exhaustive enumeration of batch size x invalid position x kind and of every cancelling pair on the real code; EVERY blinder vector on the tiny field (exact acceptance count)",
         "Sizes 0..N x 3 key layouts (distinct, round-robin, adjacent same key): valid batch, one invalid item at every position x 6 kinds, every pair of positions with complementary / swapped errors; accept <=> every item verifies (library + independent verifier), verify_single <=> verify (Taproot: also signatures held in memory with odd-Y R); boundary blinder values and out-of-range source answers injected through the scripted source do not change the verdict. On GF(7)/GF(11)/GF(13) every blinder vector is fed through the scripted source: valid batches accepted by all, invalid ones (every error pattern over {0,1,-1,2}^k) by at most q^(k-1).",
         "The 2^-128 bound on real curves is inferred (generic code + fresh full-width draw per item, C16); exact only on the tiny field.", "DESIGN 4 C19"),
 "C20": ("exploration", "enumeration of secret-bearing types x shapes x operations with an allocator wrapper reading the freed storage, ManuallyDrop controls",
         "10 secret-bearing types (incl. the refresh form of the round-one secret package, t = n shapes, packages built with thresholds 0 / 1 / 65535 or commitments shorter than the coefficients, dealer shares with an empty / short / doubled commitment, nonce objects with one zero nonce, and packages decoded from bytes / JSON) x suites x seeds: on drop no freed block contains the in-memory image of any secret scalar (control without destructor must show it, and the box must have been observed); zeroize() leaves every secret getter zero and nothing secret re-encodable; the package's own coefficient block (identified by address) shows no coefficient when part two of the DKG / refresh consumes the package; Debug under 14 formatter-flag combinations contains no rendering (hex either case and order, decimal byte list, 16-digit prefix) of any secret scalar.",
         "Stack / register copies and library-internal temporaries are not 'the storage it occupied' and are only recorded.", "DESIGN 4 C20"),
})
CHECKS.update({
 "C02": ("exploration", "bounded-exhaustive shape enumeration with byte-for-byte differential comparison of every intermediate against an independent from-scratch reference pinned to the RFC 9591 vectors",
         "Suites x (n,t) x 5 identifier kinds x dealer/DKG x every signer subset x the message alphabet, nonces from commit() and from the k-th pair of preprocess batches: a transcript of inputs (shares, the 64 random bytes per signer, message) and every intermediate (nonces, commitments, encoded commitment list and order, binding-factor inputs, binding factors, group commitment, challenge, interpolation coefficients, shares, signature) is recomputed by /verif/ref/frostref.py (big-integer curves + hashlib; Taproot flow derived from BIP-340/341) which in the same run reproduces every value of the frozen RFC 9591 appendix vectors; all 65535 u16 identifier encodings and their order; single-signer signatures verified by the reference and reference signatures verified by the library; re-randomized signer entry points (seed-taking and deprecated) return exactly the plain share of the independently randomized key material; Taproot tweak sessions (4 root kinds x both key parities) verified by the reference's BIP-341 / BIP-340; aggregate_custom in all three modes returns the bytes of aggregate(); reference signatures also pass batch verification when queued twice.",
         "The Python reference is trusted after its pin; scalars are seeded streams (value-genericity, DESIGN 2).", "DESIGN 4 C02"),
})
NOT_APPLICABLE = {}

def main():
    checks = []
    for pid, (cat, tech, text, note, ref) in sorted(CHECKS.items()):
        checks.append({
            "property_id": pid,
            "quick_cmd": f"./check {pid} quick",
            "thorough_cmd": f"./check {pid} thorough",
            "evidence_file": f"/verif/evidence/{pid}.json",
            "replay_cmd_template": f"./check {pid} --replay {{path}}",
            "engine": "frostmc",
            "level_claimed": {"category": cat, "text": text, "design_ref": ref},
            "level_note": note,
            "technique": tech,
        })
    props = [json.loads(l)["id"] for l in open(os.path.join(V, "properties.jsonl"))]
    na = []
    for pid in props:
        if pid not in CHECKS:
            na.append({"property_id": pid, "reason": NOT_APPLICABLE.get(pid, "check not built yet in this round (planned; see DESIGN.md 9)")})
    m = {
        "version": 1,
        "setup_cmd": "./check --build",
        "hooks": {
            "guard": "none (no source hooks: frost-core's existing `internals` feature, already enabled workspace-wide by frost-rerandomized, exposes every seam the harness needs)",
            "enable": "the harness crate /verif/harness depends on /repo's crates by path with features internals+serialization; nothing in /repo is patched",
            "baseline_off_cmd": "cd /repo && cargo test --workspace --no-fail-fast --offline",
            "source_commits": [],
            "add_only": True,
        },
        "engines": [{
            "name": "frostmc", "path": "/verif/harness",
            "serves_properties": sorted(CHECKS.keys()),
            "kind_free_text": "bounded-exhaustive explorer driving the real frost crates: shape explorer (E1), tiny-field value explorer (E2), history/operation-tree explorer (E3), byte-deviation explorer (E4), scripted-RNG explorer (E5)",
        }],
        "checks": checks,
        "not_applicable": na,
        "notes": "Exit 0 held / 1 VIOLATION / 2 machinery error. known_findings.json lists recorded findings. See DESIGN.md.",
    }
    json.dump(m, open(os.path.join(V, "MANIFEST.json"), "w"), indent=1)
    print(f"MANIFEST.json: {len(checks)} checks, {len(na)} not_applicable")

if __name__ == "__main__":
    main()
