#!/bin/bash
# usage: tools/try_patch.sh <patch.diff> <ID> [<ID>...]
# Applies a patch to /repo, runs the quick checks of the given properties with output
# redirected to a scratch directory, reverts the patch. Prints one line per property.
set -u
cd "$(dirname "$0")/.."
P="$(realpath "$1")"; shift
OUT=/tmp/try_patch_out.$$
mkdir -p "$OUT"
git -C /repo apply --check "$P" || { echo "patch does not apply"; exit 2; }
git -C /repo apply "$P"
trap 'git -C /repo apply -R "$P"; rm -rf "$OUT"' EXIT
TIER="${TRY_TIER:-quick}"
for id in "$@"; do
  start=$(date +%s)
  VERIF_OUT_DIR="$OUT" ./check "$id" "$TIER" > "$OUT/$id.log" 2>&1; rc=$?
  echo "== $id rc=$rc violations=$(grep -c '^VIOLATION' "$OUT/$id.log") wall=$(( $(date +%s) - start ))s"
  grep -E '^\[C[0-9]+\] C[0-9]+/' "$OUT/$id.log" | cut -c1-260 | head -${TRY_LINES:-4}
  grep -E 'MACHINERY' "$OUT/$id.log" | head -3
done
