#!/bin/bash
# Replays the recorded cases of the repaired defects without the explorer: each must hold now
# (exit 0). On the pre-fix commits of /repo each reports its finding again (exit 1).
cd "$(dirname "$0")/.."
rc=0
for f in replays/fixed/*.json; do
  id=$(python3 -c "import json;print(json.load(open('$f'))['property'])")
  if ./check $id --replay $f > /tmp/replay.$$.log 2>&1; then echo "ok   $f"; else echo "FAIL $f"; cat /tmp/replay.$$.log; rc=1; fi
done
rm -f /tmp/replay.$$.log
exit $rc
