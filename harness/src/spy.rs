//! Allocator wrapper that copies every block freed while the calling thread's watch flag is
//! set: lets a check read "the storage a value occupied" at the moment it is released.

use std::alloc::{GlobalAlloc, Layout, System};
use std::cell::{Cell, RefCell};

pub struct Spy;

thread_local! {
    static WATCH: Cell<bool> = const { Cell::new(false) };
    static CAPTURED: RefCell<Vec<(usize, Vec<u8>)>> = const { RefCell::new(Vec::new()) };
    static TRACK: Cell<bool> = const { Cell::new(false) };
    static ALLOCS: RefCell<Vec<(usize, usize)>> = const { RefCell::new(Vec::new()) };
}

fn tracking() -> bool {
    TRACK.try_with(|w| w.get()).unwrap_or(false)
}
fn note_alloc(ptr: *mut u8, size: usize) {
    if !ptr.is_null() && tracking() {
        let _ = TRACK.try_with(|w| w.set(false));
        let _ = ALLOCS.try_with(|c| c.borrow_mut().push((ptr as usize, size)));
        let _ = TRACK.try_with(|w| w.set(true));
    }
}

fn watching() -> bool {
    WATCH.try_with(|w| w.get()).unwrap_or(false)
}

unsafe fn capture(ptr: *mut u8, size: usize) {
    // the copy itself allocates: switch the flag off meanwhile
    let _ = WATCH.try_with(|w| w.set(false));
    let bytes = unsafe { std::slice::from_raw_parts(ptr, size) }.to_vec();
    let _ = CAPTURED.try_with(|c| c.borrow_mut().push((ptr as usize, bytes)));
    let _ = WATCH.try_with(|w| w.set(true));
}

unsafe impl GlobalAlloc for Spy {
    unsafe fn alloc(&self, layout: Layout) -> *mut u8 {
        let p = unsafe { System.alloc(layout) };
        note_alloc(p, layout.size());
        p
    }
    unsafe fn dealloc(&self, ptr: *mut u8, layout: Layout) {
        if watching() {
            unsafe { capture(ptr, layout.size()) };
        }
        unsafe { System.dealloc(ptr, layout) }
    }
    unsafe fn alloc_zeroed(&self, layout: Layout) -> *mut u8 {
        let p = unsafe { System.alloc_zeroed(layout) };
        note_alloc(p, layout.size());
        p
    }
    unsafe fn realloc(&self, ptr: *mut u8, layout: Layout, new_size: usize) -> *mut u8 {
        if watching() {
            // the old block may be released by a move: record it
            unsafe { capture(ptr, layout.size()) };
        }
        let p = unsafe { System.realloc(ptr, layout, new_size) };
        note_alloc(p, new_size);
        p
    }
}

/// Run `f` with the watch flag set; returns every block freed (or reallocated) by this thread meanwhile.
pub fn watch<R>(f: impl FnOnce() -> R) -> (R, Vec<Vec<u8>>) {
    CAPTURED.with(|c| c.borrow_mut().clear());
    WATCH.with(|w| w.set(true));
    let r = f();
    WATCH.with(|w| w.set(false));
    let blocks = CAPTURED.with(|c| std::mem::take(&mut *c.borrow_mut()));
    (r, blocks.into_iter().map(|(_, b)| b).collect())
}

/// Like [`watch`], but every freed block comes with its address.
pub fn watch_addr<R>(f: impl FnOnce() -> R) -> (R, Vec<(usize, Vec<u8>)>) {
    CAPTURED.with(|c| c.borrow_mut().clear());
    WATCH.with(|w| w.set(true));
    let r = f();
    WATCH.with(|w| w.set(false));
    let blocks = CAPTURED.with(|c| std::mem::take(&mut *c.borrow_mut()));
    (r, blocks)
}

/// Run `f` recording (address, size) of every block this thread allocates meanwhile.
pub fn track_allocs<R>(f: impl FnOnce() -> R) -> (R, Vec<(usize, usize)>) {
    ALLOCS.with(|c| c.borrow_mut().clear());
    TRACK.with(|w| w.set(true));
    let r = f();
    TRACK.with(|w| w.set(false));
    let a = ALLOCS.with(|c| std::mem::take(&mut *c.borrow_mut()));
    (r, a)
}

/// Read a live block (the caller knows it is still allocated).
pub unsafe fn peek(addr: usize, size: usize) -> Vec<u8> {
    unsafe { std::slice::from_raw_parts(addr as *const u8, size) }.to_vec()
}

pub fn contains(hay: &[u8], needle: &[u8]) -> bool {
    !needle.is_empty() && hay.len() >= needle.len() && hay.windows(needle.len()).any(|w| w == needle)
}
