//! Allocator wrapper that copies every block freed while the calling thread's watch flag is
//! set: lets a check read "the storage a value occupied" at the moment it is released.

use std::alloc::{GlobalAlloc, Layout, System};
use std::cell::{Cell, RefCell};

pub struct Spy;

thread_local! {
    static WATCH: Cell<bool> = const { Cell::new(false) };
    static CAPTURED: RefCell<Vec<Vec<u8>>> = const { RefCell::new(Vec::new()) };
}

fn watching() -> bool {
    WATCH.try_with(|w| w.get()).unwrap_or(false)
}

unsafe fn capture(ptr: *mut u8, size: usize) {
    // the copy itself allocates: switch the flag off meanwhile
    let _ = WATCH.try_with(|w| w.set(false));
    let bytes = unsafe { std::slice::from_raw_parts(ptr, size) }.to_vec();
    let _ = CAPTURED.try_with(|c| c.borrow_mut().push(bytes));
    let _ = WATCH.try_with(|w| w.set(true));
}

unsafe impl GlobalAlloc for Spy {
    unsafe fn alloc(&self, layout: Layout) -> *mut u8 {
        unsafe { System.alloc(layout) }
    }
    unsafe fn dealloc(&self, ptr: *mut u8, layout: Layout) {
        if watching() {
            unsafe { capture(ptr, layout.size()) };
        }
        unsafe { System.dealloc(ptr, layout) }
    }
    unsafe fn alloc_zeroed(&self, layout: Layout) -> *mut u8 {
        unsafe { System.alloc_zeroed(layout) }
    }
    unsafe fn realloc(&self, ptr: *mut u8, layout: Layout, new_size: usize) -> *mut u8 {
        if watching() {
            // the old block may be released by a move: record it
            unsafe { capture(ptr, layout.size()) };
        }
        unsafe { System.realloc(ptr, layout, new_size) }
    }
}

/// Run `f` with the watch flag set; returns every block freed (or reallocated) by this thread meanwhile.
pub fn watch<R>(f: impl FnOnce() -> R) -> (R, Vec<Vec<u8>>) {
    CAPTURED.with(|c| c.borrow_mut().clear());
    WATCH.with(|w| w.set(true));
    let r = f();
    WATCH.with(|w| w.set(false));
    let blocks = CAPTURED.with(|c| std::mem::take(&mut *c.borrow_mut()));
    (r, blocks)
}

pub fn contains(hay: &[u8], needle: &[u8]) -> bool {
    !needle.is_empty() && hay.len() >= needle.len() && hay.windows(needle.len()).any(|w| w == needle)
}
