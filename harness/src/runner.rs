//! Generic case runner: enumerates the complete case list of a property,
//! executes every case on the real code (in parallel, cases are independent),
//! reduces findings, checks determinism, writes evidence and replay files.

use rayon::prelude::*;
use serde::{Deserialize, Serialize};
use serde_json::{Value, json};
use sha2::{Digest, Sha256};
use std::collections::{BTreeMap, BTreeSet, HashSet};
use std::panic::{AssertUnwindSafe, catch_unwind};
use std::sync::Mutex;
use std::sync::atomic::{AtomicBool, AtomicU64, Ordering};
use std::time::{Duration, Instant};

#[derive(Clone, Copy, PartialEq, Eq, Debug)]
pub enum Tier {
    Quick,
    Thorough,
}
impl Tier {
    pub fn name(&self) -> &'static str {
        match self {
            Tier::Quick => "quick",
            Tier::Thorough => "thorough",
        }
    }
    pub fn pick<T>(&self, q: T, t: T) -> T {
        match self {
            Tier::Quick => q,
            Tier::Thorough => t,
        }
    }
}

#[derive(Clone, Debug, Serialize, Deserialize, PartialEq, Eq)]
pub struct Finding {
    /// coarse, stable finding key
    pub key: String,
    /// human description incl. observed vs expected
    pub what: String,
}

#[derive(Clone, Debug, Default)]
pub struct Outcome {
    /// atomic evaluations done inside this case (>= 1)
    pub evals: u64,
    /// distinct non-trivial evaluations inside this case
    pub nontrivial: u64,
    /// outcome class label(s) observed
    pub classes: Vec<String>,
    pub findings: Vec<Finding>,
    /// named counters accumulated into the evidence
    pub counters: BTreeMap<String, u64>,
    /// oracle / environment failures: never a verdict (exit 2)
    pub machinery: Vec<String>,
}
impl Outcome {
    pub fn machinery_error(&mut self, msg: impl Into<String>) {
        self.machinery.push(msg.into());
    }
    pub fn new() -> Self {
        Outcome {
            evals: 0,
            nontrivial: 0,
            ..Default::default()
        }
    }
    pub fn fail(&mut self, key: impl Into<String>, what: impl Into<String>) {
        self.findings.push(Finding {
            key: key.into(),
            what: what.into(),
        });
    }
    pub fn count(&mut self, name: &str, by: u64) {
        *self.counters.entry(name.to_string()).or_insert(0) += by;
    }
    pub fn class(&mut self, c: impl Into<String>) {
        let c = c.into();
        if !self.classes.contains(&c) {
            self.classes.push(c);
        }
    }
    /// record one atomic evaluation
    pub fn eval(&mut self, nontrivial: bool) {
        self.evals += 1;
        if nontrivial {
            self.nontrivial += 1;
        }
    }
    pub fn digest(&self) -> String {
        let mut h = Sha256::new();
        h.update(self.evals.to_be_bytes());
        h.update(self.nontrivial.to_be_bytes());
        for c in &self.classes {
            h.update(c.as_bytes());
            h.update([0]);
        }
        for f in &self.findings {
            h.update(f.key.as_bytes());
            h.update([1]);
            h.update(f.what.as_bytes());
        }
        for (k, v) in &self.counters {
            h.update(k.as_bytes());
            h.update(v.to_be_bytes());
        }
        hex::encode(&h.finalize()[..8])
    }
}

pub trait Prop: Sync {
    fn id(&self) -> &'static str;
    /// evidence level
    fn level(&self) -> &'static str;
    fn rule(&self) -> String;
    fn assumptions(&self) -> Vec<String>;
    /// the complete, deterministic, simplest-first case list for the bound
    fn cases(&self, tier: Tier, seed: u64) -> Vec<Value>;
    fn run(&self, case: &Value) -> Outcome;
    /// description of the bound completed
    fn bound(&self, tier: Tier) -> String;
    /// counters that must be non-zero for the run not to be vacuous
    fn required_counters(&self) -> Vec<&'static str> {
        vec![]
    }
    /// minimum number of distinct outcome classes expected
    fn min_classes(&self) -> usize {
        1
    }
}

#[derive(Deserialize, Clone)]
pub struct KnownFinding {
    pub property: String,
    pub key: String,
    pub status: String,
    #[serde(default)]
    pub commit: String,
    pub what: String,
}

pub fn verif_dir() -> std::path::PathBuf {
    std::env::var("VERIF_DIR")
        .map(std::path::PathBuf::from)
        .unwrap_or_else(|_| std::path::PathBuf::from("/verif"))
}

/// where evidence and replay files go (default: the verif dir)
pub fn out_dir() -> std::path::PathBuf {
    std::env::var("VERIF_OUT_DIR")
        .map(std::path::PathBuf::from)
        .unwrap_or_else(|_| verif_dir())
}

pub fn load_known() -> Vec<KnownFinding> {
    let p = verif_dir().join("known_findings.json");
    match std::fs::read_to_string(&p) {
        Ok(s) => serde_json::from_str(&s).unwrap_or_else(|e| {
            eprintln!("MACHINERY-ERROR: cannot parse {}: {e}", p.display());
            std::process::exit(2)
        }),
        Err(_) => vec![],
    }
}

fn sanitize(s: &str) -> String {
    let mut o: String = s
        .chars()
        .map(|c| if c.is_ascii_alphanumeric() || c == '-' || c == '.' { c } else { '_' })
        .collect();
    if o.len() > 120 {
        let mut h = Sha256::new();
        h.update(s.as_bytes());
        o.truncate(100);
        o.push('_');
        o.push_str(&hex::encode(&h.finalize()[..6]));
    }
    o
}

pub fn run_case_caught(p: &dyn Prop, case: &Value) -> Outcome {
    match catch_unwind(AssertUnwindSafe(|| p.run(case))) {
        Ok(o) => o,
        Err(e) => {
            let msg = if let Some(s) = e.downcast_ref::<String>() {
                s.clone()
            } else if let Some(s) = e.downcast_ref::<&str>() {
                s.to_string()
            } else {
                "<non-string panic>".to_string()
            };
            let mut o = Outcome::new();
            o.evals = 1;
            let short: String = msg.chars().take(80).collect();
            o.fail(
                format!("{}/panic/{}", p.id(), sanitize(&short)),
                format!("the case panicked (unwound) instead of returning a value or an error: {msg}"),
            );
            o.class("panic");
            o
        }
    }
}

pub struct RunResult {
    pub exit: i32,
}

struct Watch {
    slots: Mutex<BTreeMap<usize, (Instant, usize)>>,
    done: AtomicBool,
}

pub fn run_property(p: &dyn Prop, tier: Tier, seed: u64) -> RunResult {
    let t0 = Instant::now();
    let id = p.id();
    install_quiet_panic_hook();
    let cases = p.cases(tier, seed);
    let total_cases = cases.len();
    eprintln!("[{id}] {} cases enumerated ({})", total_cases, tier.name());
    if total_cases == 0 {
        eprintln!("MACHINERY-ERROR: property {id} enumerated no cases");
        return RunResult { exit: 2 };
    }
    let wall_cap = Duration::from_secs(
        std::env::var("VERIF_WALL_CAP_S")
            .ok()
            .and_then(|s| s.parse().ok())
            .unwrap_or(tier.pick(1800, 14400)),
    );
    let capped = AtomicBool::new(false);
    let executed = AtomicU64::new(0);
    let watch = std::sync::Arc::new(Watch {
        slots: Mutex::new(BTreeMap::new()),
        done: AtomicBool::new(false),
    });
    // watchdog: a case running > CASE_TIMEOUT is a hang
    let case_timeout = Duration::from_secs(
        std::env::var("VERIF_CASE_TIMEOUT_S")
            .ok()
            .and_then(|s| s.parse().ok())
            .unwrap_or(tier.pick(600, 3600)),
    );
    let results: Vec<Option<Outcome>> = std::thread::scope(|scope| {
        let watch2 = watch.clone();
        let cases_ref = &cases;
        scope.spawn(move || {
            while !watch2.done.load(Ordering::Relaxed) {
                std::thread::sleep(Duration::from_millis(500));
                let hung: Option<usize> = {
                    let s = watch2.slots.lock().unwrap();
                    s.iter().find(|(_, (st, _))| st.elapsed() > case_timeout).map(|(_, (_, idx))| *idx)
                };
                if let Some(idx) = hung {
                    // a hang is a violation: the step did not return a value or an error.
                    // The stuck worker cannot be cancelled, so the process ends here.
                    let dir = out_dir().join("replays").join(id);
                    let _ = std::fs::create_dir_all(&dir);
                    let path = dir.join(format!("hang_case_{idx}.json"));
                    let _ = std::fs::write(
                        &path,
                        serde_json::to_string_pretty(&json!({"property": id, "key": format!("{id}/hang"), "case": cases_ref[idx],
                            "what": format!("case did not finish within {}s", case_timeout.as_secs())}))
                        .unwrap(),
                    );
                    write_evidence_min(p, tier, seed, t0, 1, "a case hung; run aborted");
                    println!("VIOLATION property={id} replay={}", path.display());
                    std::process::exit(1);
                }
            }
        });
        let r: Vec<Option<Outcome>> = cases
            .par_iter()
            .enumerate()
            .map(|(i, c)| {
                if capped.load(Ordering::Relaxed) {
                    return None;
                }
                if t0.elapsed() > wall_cap {
                    capped.store(true, Ordering::Relaxed);
                    return None;
                }
                let tid = rayon::current_thread_index().unwrap_or(0);
                watch.slots.lock().unwrap().insert(tid, (Instant::now(), i));
                let o = run_case_caught(p, c);
                watch.slots.lock().unwrap().remove(&tid);
                executed.fetch_add(1, Ordering::Relaxed);
                Some(o)
            })
            .collect();
        watch.done.store(true, Ordering::Relaxed);
        r
    });

    // accumulate
    let mut evals = 0u64;
    let mut nontrivial = 0u64;
    let mut classes: BTreeMap<String, u64> = BTreeMap::new();
    let mut counters: BTreeMap<String, u64> = BTreeMap::new();
    let mut seen_keys: HashSet<[u8; 16]> = HashSet::new();
    let mut dup_cases = 0u64;
    let mut run_digest = Sha256::new();
    // first case per finding key
    let mut first: BTreeMap<String, (usize, Finding)> = BTreeMap::new();
    let mut finding_counts: BTreeMap<String, u64> = BTreeMap::new();
    let mut n_exec = 0usize;
    let mut case_machinery: Vec<String> = vec![];
    for (i, r) in results.iter().enumerate() {
        let Some(o) = r else { continue };
        n_exec += 1;
        let mut h = Sha256::new();
        h.update(cases[i].to_string().as_bytes());
        let d = h.finalize();
        let mut k = [0u8; 16];
        k.copy_from_slice(&d[..16]);
        let fresh = seen_keys.insert(k);
        evals += o.evals;
        if fresh {
            nontrivial += o.nontrivial;
        } else {
            dup_cases += 1;
        }
        for c in &o.classes {
            *classes.entry(c.clone()).or_insert(0) += 1;
        }
        for (k, v) in &o.counters {
            *counters.entry(k.clone()).or_insert(0) += v;
        }
        run_digest.update(o.digest().as_bytes());
        for f in &o.findings {
            *finding_counts.entry(f.key.clone()).or_insert(0) += 1;
            first.entry(f.key.clone()).or_insert((i, f.clone()));
        }
        for m in &o.machinery {
            if case_machinery.len() < 5 {
                case_machinery.push(format!("case {i}: {m}"));
            }
        }
    }
    let exhaustive = !capped.load(Ordering::Relaxed) && n_exec == total_cases;

    // determinism slice: re-run every 64th (cheap) case and compare digests
    let mut rechecked = 0u64;
    let mut machinery_errors: Vec<String> = case_machinery.clone();
    let recheck_idx: Vec<usize> = (0..total_cases)
        .step_by(64)
        .filter(|i| results[*i].as_ref().map(|o| o.evals <= 2000).unwrap_or(false))
        .take(200)
        .collect();
    let re: Vec<(usize, String)> = recheck_idx
        .par_iter()
        .map(|i| (*i, run_case_caught(p, &cases[*i]).digest()))
        .collect();
    for (i, d) in re {
        rechecked += 1;
        if results[i].as_ref().unwrap().digest() != d {
            machinery_errors.push(format!("case {i} is not reproducible (digest differs on re-run)"));
        }
    }

    // violations: confirm each first case twice more
    let known = load_known();
    let mut violations = 0i64;
    let mut known_hits = 0u64;
    let mut lines: Vec<String> = vec![];
    for (key, (idx, f)) in &first {
        let a = run_case_caught(p, &cases[*idx]);
        let b = run_case_caught(p, &cases[*idx]);
        let rep = |o: &Outcome| o.findings.iter().any(|x| &x.key == key);
        if !(rep(&a) && rep(&b)) {
            machinery_errors.push(format!("finding {key} at case {idx} did not reproduce on re-run"));
            continue;
        }
        if let Some(k) = known
            .iter()
            .find(|k| k.property == id && &k.key == key && k.status == "open")
        {
            known_hits += 1;
            lines.push(format!(
                "KNOWN-FINDING: property={id} {} [{} case(s), key {key}]",
                k.what, finding_counts[key]
            ));
            continue;
        }
        violations += 1;
        let dir = out_dir().join("replays").join(id);
        let _ = std::fs::create_dir_all(&dir);
        let path = dir.join(format!("{}.json", sanitize(key)));
        let _ = std::fs::write(
            &path,
            serde_json::to_string_pretty(&json!({
                "property": id, "key": key, "case_index": idx, "case": cases[*idx],
                "what": f.what, "cases_with_this_key": finding_counts[key],
            }))
            .unwrap(),
        );
        lines.push(format!("VIOLATION property={id} replay={}", path.display()));
        eprintln!("[{id}] {key}: {}", f.what);
    }

    // vacuity guards
    for rc in p.required_counters() {
        if counters.get(rc).copied().unwrap_or(0) == 0 && exhaustive {
            machinery_errors.push(format!("vacuous run: required counter '{rc}' is zero"));
        }
    }
    if classes.len() < p.min_classes() && exhaustive && violations == 0 {
        machinery_errors.push(format!(
            "vacuous run: {} distinct outcome classes, expected at least {}",
            classes.len(),
            p.min_classes()
        ));
    }

    // samples: first, last, every N/5-th
    let mut sample_idx: BTreeSet<usize> = BTreeSet::new();
    sample_idx.insert(0);
    sample_idx.insert(total_cases - 1);
    for k in 1..5 {
        sample_idx.insert(k * total_cases / 5);
    }
    let samples: Vec<Value> = sample_idx
        .iter()
        .filter(|i| **i < total_cases)
        .map(|i| {
            json!({"case_index": i, "case": cases[*i],
                "outcome_classes": results[*i].as_ref().map(|o| o.classes.clone()).unwrap_or_default(),
                "evals": results[*i].as_ref().map(|o| o.evals).unwrap_or(0)})
        })
        .collect();

    let wall = t0.elapsed().as_secs_f64();
    let mut coverage = json!({
        "evaluations": evals,
        "distinct_nontrivial": nontrivial,
        "rule": p.rule(),
        "distinct_how": "cases are de-duplicated by the SHA-256 of their canonical record (duplicates are executed but not counted; see duplicate_cases); the evaluations inside one case come from a product / subset / position enumerator that yields no value twice, and each is counted non-trivial only if it reached the operation under test (see rule)",
        "samples": samples,
        "exhaustive": exhaustive,
        "bound_completed": if exhaustive { p.bound(tier) } else { format!("wall cap hit after {} of {} cases; bound NOT completed: {}", n_exec, total_cases, p.bound(tier)) },
        "cases_enumerated": total_cases,
        "cases_executed": n_exec,
        "duplicate_cases": dup_cases,
        "outcome_classes": classes,
        "counters": counters,
        "determinism_rechecks": rechecked,
        "run_digest": hex::encode(&run_digest.finalize()[..16]),
        "known_findings_hit": known_hits,
        "trusted_base": ["curve crates (curve25519-dalek, ed448-goldilocks, p256, k256)", "sha2/sha3", "postcard/serde", "rustc"],
    });
    if p.level() == "model_checking" {
        let c = coverage.as_object_mut().unwrap();
        c.insert("states".into(), json!(counters.get("states").copied().unwrap_or(0)));
        c.insert("transitions".into(), json!(counters.get("transitions").copied().unwrap_or(0)));
        c.insert(
            "traces_validated_against_impl".into(),
            json!(counters.get("traces").copied().unwrap_or(0)),
        );
        c.insert(
            "explanation".into(),
            json!("every state/transition is an execution of the real step functions; the reference predicate (model) is compared on every transition, so every explored trace is validated against the implementation"),
        );
    }
    let ev = json!({
        "property_id": id,
        "tier": tier.name(),
        "seed": seed,
        "level": p.level(),
        "coverage": coverage,
        "assumptions": p.assumptions(),
        "wall_s": wall,
        "violations": violations,
    });
    let evdir = out_dir().join("evidence");
    let _ = std::fs::create_dir_all(&evdir);
    if let Err(e) = std::fs::write(
        evdir.join(format!("{id}.json")),
        serde_json::to_string_pretty(&ev).unwrap(),
    ) {
        eprintln!("MACHINERY-ERROR: cannot write evidence: {e}");
        return RunResult { exit: 2 };
    }
    for l in &lines {
        if case_machinery.is_empty() {
            println!("{l}");
        } else {
            eprintln!("(not reported, the oracle was unreliable in this run) {l}");
        }
    }
    eprintln!(
        "[{id}] cases={n_exec}/{total_cases} evals={evals} nontrivial={nontrivial} classes={} violations={violations} known={known_hits} wall={wall:.1}s exhaustive={exhaustive}",
        classes.len()
    );
    if violations > 0 && case_machinery.is_empty() {
        return RunResult { exit: 1 };
    }
    if !machinery_errors.is_empty() {
        for m in machinery_errors {
            eprintln!("MACHINERY-ERROR: {m}");
        }
        return RunResult { exit: 2 };
    }
    RunResult { exit: 0 }
}

fn write_evidence_min(p: &dyn Prop, tier: Tier, seed: u64, t0: Instant, violations: i64, note: &str) {
    let ev = json!({
        "property_id": p.id(), "tier": tier.name(), "seed": seed, "level": "other",
        "coverage": {"explanation": note, "evaluations": 1, "distinct_nontrivial": 0, "exhaustive": false},
        "wall_s": t0.elapsed().as_secs_f64(), "violations": violations,
    });
    let evdir = out_dir().join("evidence");
    let _ = std::fs::create_dir_all(&evdir);
    let _ = std::fs::write(
        evdir.join(format!("{}.json", p.id())),
        serde_json::to_string_pretty(&ev).unwrap(),
    );
}

pub fn replay(p: &dyn Prop, path: &str) -> i32 {
    install_quiet_panic_hook();
    let s = match std::fs::read_to_string(path) {
        Ok(s) => s,
        Err(e) => {
            eprintln!("MACHINERY-ERROR: cannot read {path}: {e}");
            return 2;
        }
    };
    let v: Value = match serde_json::from_str(&s) {
        Ok(v) => v,
        Err(e) => {
            eprintln!("MACHINERY-ERROR: cannot parse {path}: {e}");
            return 2;
        }
    };
    let case = &v["case"];
    let o = run_case_caught(p, case);
    println!("replay of {}", path);
    println!("case: {}", case);
    println!("recorded: {}", v["what"]);
    if o.findings.is_empty() {
        println!("observed: no finding (property holds on this case now)");
        0
    } else {
        for f in &o.findings {
            println!("observed: [{}] {}", f.key, f.what);
        }
        let want = v["key"].as_str().unwrap_or("");
        if o.findings.iter().any(|f| f.key == want) || want.is_empty() {
            println!("VIOLATION property={} replay={}", p.id(), path);
        }
        1
    }
}

pub fn install_quiet_panic_hook() {
    static ONCE: std::sync::Once = std::sync::Once::new();
    ONCE.call_once(|| {
        if std::env::var("VERIF_LOUD_PANICS").is_err() {
            std::panic::set_hook(Box::new(|_| {}));
        }
    });
}
