//! C10 — refreshing shares keeps the group key, re-links all packages, retires old shares.
//! Operation-tree exploration (E3): nodes are groups holding real key material,
//! edges are real refresh procedures; every node is checked.

use crate::rng::ScriptedRng;
use crate::runner::{Outcome, Prop, Tier};
use crate::suites::{Id, REAL_SUITES, Suite};
use crate::util::*;
use crate::with_suite;
use frost_core as fc;
use frost_core::keys::dkg::{round1 as d1, round2 as d2};
use frost_core::keys::{
    IdentifierList, KeyPackage, PublicKeyPackage, SecretShare, VerifiableSecretSharingCommitment,
};
use frost_core::{Identifier, SigningKey, SigningPackage};
use serde::{Deserialize, Serialize};
use serde_json::Value;
use std::collections::BTreeMap;

pub struct C10;

#[derive(Serialize, Deserialize, Clone, Copy, Debug, PartialEq, Eq)]
pub enum RKind {
    Dealer,
    Dkg,
}

#[derive(Serialize, Deserialize, Clone, Debug)]
struct Case {
    suite: String,
    n: u16,
    t: u16,
    idkind: IdKind,
    root: KeySrc,
    /// sequence of refresh operations: (procedure, remaining set as bitmask over the ROOT id list)
    path: Vec<(RKind, u32)>,
    seed: String,
    /// tiny layer: run the single refresh of `path` under EVERY coefficient vector
    #[serde(default)]
    tiny_all: bool,
    /// large group: n participants, threshold t, one dealer refresh and one distributed refresh removing a few
    #[serde(default)]
    large: bool,
}

#[derive(Clone)]
pub struct Node<C: Suite> {
    pub t: u16,
    pub kps: BTreeMap<Id<C>, KeyPackage<C>>,
    pub pkp: PublicKeyPackage<C>,
    /// key packages of the previous generation (all previous members), if any
    pub prev: Option<BTreeMap<Id<C>, KeyPackage<C>>>,
}

thread_local! {
    /// tiny layer: explicit answers for the first draws of each participant's random source
    static FORCED: std::cell::RefCell<Vec<Vec<u32>>> = const { std::cell::RefCell::new(Vec::new()) };
}
fn forced(rng: ScriptedRng, who: usize) -> ScriptedRng {
    FORCED.with(|f| {
        let f = f.borrow();
        match f.get(who) {
            Some(v) => {
                let mut r = rng;
                for (k, x) in v.iter().enumerate() {
                    r = r.with_dev(k, crate::rng::Dev::Bytes(x.to_le_bytes().to_vec()));
                }
                r
            }
            None => rng,
        }
    })
}

pub fn refresh_dealer<C: Suite>(node: &Node<C>, members: &[Id<C>], seed: &str) -> Result<Node<C>, String> {
    let mut list = members.to_vec();
    list.rotate_left(1); // deliberately not sorted
    let mut rng = forced(ScriptedRng::ctr(format!("refresh-dealer:{seed}")), 0);
    let (shares, pkp) = C::w_compute_refreshing_shares(node.pkp.clone(), &list, &mut rng).map_err(e2s("compute_refreshing_shares"))?;
    if shares.len() != list.len() {
        return Err(format!("compute_refreshing_shares returned {} shares for {} identifiers", shares.len(), list.len()));
    }
    let mut kps = BTreeMap::new();
    for (id, sh) in list.iter().zip(shares) {
        if sh.identifier() != id {
            return Err("refreshing shares are not in the order of the identifier list".into());
        }
        let kp = C::w_refresh_share(sh, &node.kps[id]).map_err(e2s("refresh_share"))?;
        kps.insert(*id, kp);
    }
    Ok(Node { t: node.t, kps, pkp, prev: Some(node.kps.clone()) })
}

pub struct RefreshDkgRun<C: Suite> {
    pub sp1: BTreeMap<Id<C>, d1::SecretPackage<C>>,
    pub p1: BTreeMap<Id<C>, d1::Package<C>>,
}

pub fn refresh_dkg<C: Suite>(node: &Node<C>, members: &[Id<C>], seed: &str, t_used: u16) -> Result<Node<C>, String> {
    let n = members.len() as u16;
    let mut sp1 = BTreeMap::new();
    let mut p1 = BTreeMap::new();
    for (who, id) in members.iter().enumerate() {
        let mut rng = forced(ScriptedRng::ctr(format!("refresh-dkg:{seed}:{}", id_hex::<C>(id))), who);
        let (s, p) = C::w_refresh_dkg_part1(*id, n, t_used, &mut rng).map_err(e2s("refresh_dkg_part1"))?;
        sp1.insert(*id, s);
        p1.insert(*id, p);
    }
    let mut sp2 = BTreeMap::new();
    let mut p2: BTreeMap<Id<C>, BTreeMap<Id<C>, d2::Package<C>>> = BTreeMap::new();
    for id in members {
        let r1 = others::<C, _>(&p1, id);
        let (s, p) = C::w_refresh_dkg_part2(sp1[id].clone(), &r1).map_err(e2s("refresh_dkg_part2"))?;
        sp2.insert(*id, s);
        p2.insert(*id, p);
    }
    let mut kps = BTreeMap::new();
    let mut pkp0: Option<PublicKeyPackage<C>> = None;
    for id in members {
        let r1 = others::<C, _>(&p1, id);
        let mut r2 = BTreeMap::new();
        for (sender, m) in &p2 {
            if sender != id {
                r2.insert(*sender, m[id].clone());
            }
        }
        let (kp, pkp) = C::w_refresh_dkg_shares(&sp2[id], &r1, &r2, node.pkp.clone(), node.kps[id].clone()).map_err(e2s("refresh_dkg_shares"))?;
        kps.insert(*id, kp);
        match &pkp0 {
            None => pkp0 = Some(pkp),
            Some(p) => {
                if *p != pkp {
                    return Err("refresh_dkg_shares: participants obtained different public key packages".into());
                }
            }
        }
    }
    Ok(Node { t: node.t, kps, pkp: pkp0.unwrap(), prev: Some(node.kps.clone()) })
}

fn children_masks(members_mask: u32, n: usize, t: usize) -> Vec<u32> {
    subsets(n, std::cmp::max(t, 2), n).into_iter().filter(|m| m & !members_mask == 0).collect()
}

impl Prop for C10 {
    fn id(&self) -> &'static str {
        "C10"
    }
    fn level(&self) -> &'static str {
        "model_checking"
    }
    fn rule(&self) -> String {
        "explicit exploration of the refresh operation tree on the real code: roots = dealer and DKG groups; edges = Refresh(dealer|DKG, R) for EVERY remaining set R with |R|>=t; every path up to the depth bound is a case (no state merging); on every node: key fixed, packages re-linked, every t-subset signs, EVERY strict old/new mix and every set with a removed member fails, four refusals refuse (threshold change by all and by EACH single member acting as an attacker, unknown identifier, non-zero constant term); tiny field: EVERY refresh coefficient vector; one large group (40 participants). states = tree nodes, transitions = refresh operations + signing attempts + refusal attempts executed".into()
    }
    fn assumptions(&self) -> Vec<String> {
        vec![
            "a full threshold of OLD shares still signs under the unchanged group key (no refresh can prevent that; the book says so) and is not asserted to fail".into(),
            "refresh polynomials are seeded streams".into(),
        ]
    }
    fn bound(&self, tier: Tier) -> String {
        format!("shapes {:?}, both procedures, every remaining set, depth {}", shapes(tier), tier.pick(2, 3))
    }
    fn required_counters(&self) -> Vec<&'static str> {
        vec!["states", "transitions", "traces", "mixes_rejected", "refusals_refused", "removed_member_rejected"]
    }
    fn cases(&self, tier: Tier, seed: u64) -> Vec<Value> {
        let mut out = vec![];
        let depth = tier.pick(2usize, 3usize);
        for (n, t) in shapes(tier) {
            for suite in REAL_SUITES {
                if suite == "ed448" && (n > 4 || (tier == Tier::Quick && (n, t) != (3, 2))) {
                    continue;
                }
                if tier == Tier::Quick && (suite == "p256" || suite == "secp256k1") && (n, t) == (4, 2) {
                    continue;
                }
                for idkind in [IdKind::Seq, IdKind::U16x] {
                    if tier == Tier::Quick && idkind == IdKind::Seq && n == 4 {
                        continue;
                    }
                    for root in [KeySrc::Dealer, KeySrc::Dkg] {
                        // BFS over paths
                        let mut frontier: Vec<(Vec<(RKind, u32)>, u32)> = vec![(vec![], (1u32 << n) - 1)];
                        for d in 0..=depth {
                            let mut next = vec![];
                            for (path, mm) in &frontier {
                                out.push(
                                    serde_json::to_value(Case {
                                        suite: suite.to_string(),
                                        n,
                                        t,
                                        idkind,
                                        root,
                                        path: path.clone(),
                                        seed: format!("s{seed}"),
                                        tiny_all: false,
                                        large: false,
                                    })
                                    .unwrap(),
                                );
                                if d < depth {
                                    for cm in children_masks(*mm, n as usize, t as usize) {
                                        // depth 3 only for the two smallest shapes
                                        if d == 2 && n > 3 && !(n == 4 && t == 3) {
                                            continue;
                                        }
                                        for k in [RKind::Dealer, RKind::Dkg] {
                                            let mut p = path.clone();
                                            p.push((k, cm));
                                            next.push((p, cm));
                                        }
                                    }
                                }
                            }
                            frontier = next;
                        }
                    }
                }
            }
        }
        // tiny layer: every coefficient vector of one refresh
        for suite in ["tiny7", "tiny11"] {
            for (n, t) in [(3u16, 2u16), (4, 2), (4, 3)] {
                for cm in children_masks((1u32 << n) - 1, n as usize, t as usize) {
                    for k in [RKind::Dealer, RKind::Dkg] {
                        let draws = match k {
                            RKind::Dealer => t as u32 - 1,
                            RKind::Dkg => cm.count_ones() * (t as u32 - 1),
                        };
                        let q: u64 = if suite == "tiny7" { 7 } else { 11 };
                        if q.pow(draws) > tier.pick(400, 20000) {
                            continue;
                        }
                        out.push(serde_json::to_value(Case { suite: suite.to_string(), n, t, idkind: IdKind::Seq, root: KeySrc::Dealer, path: vec![(k, cm)], seed: format!("s{seed}"), tiny_all: true, large: false }).unwrap());
                    }
                }
            }
        }
        for suite in REAL_SUITES {
            let n = if suite == "ed448" { 16u16 } else { 40u16 };
            for root in [KeySrc::Dealer] {
                out.push(serde_json::to_value(Case { suite: suite.to_string(), n, t: 3, idkind: IdKind::U16x, root, path: vec![], seed: format!("s{seed}"), tiny_all: false, large: true }).unwrap());
            }
        }
        // simplest first
        out.sort_by_key(|c| c["path"].as_array().map(|a| a.len()).unwrap_or(0));
        out
    }
    fn run(&self, case: &Value) -> Outcome {
        let c: Case = serde_json::from_value(case.clone()).expect("case");
        with_suite!(c.suite.as_str(), run_case, &c)
    }
}

fn shapes(tier: Tier) -> Vec<(u16, u16)> {
    match tier {
        Tier::Quick => vec![(3, 2), (4, 2), (4, 3)],
        Tier::Thorough => vec![(3, 2), (3, 3), (4, 2), (4, 3), (5, 3)],
    }
}

fn run_tiny_all<C: Suite>(c: &Case) -> Outcome {
    let mut o = Outcome::new();
    let tag = format!("C10/{}", C::name());
    // a root without degenerate values
    let mut grp = None;
    for k in 0..50 {
        if let Ok(g) = cached_group::<C>(c.root, c.n, c.t, c.idkind, &format!("{}.{k}", c.seed)) {
            grp = Some(g);
            break;
        }
    }
    let Some(grp) = grp else {
        o.fail(format!("{tag}/setup"), "no root group".to_string());
        return o;
    };
    let vk0 = *grp.pkp.verifying_key();
    let root = Node::<C> { t: c.t, kps: grp.kps.clone(), pkp: grp.pkp.clone(), prev: None };
    let (kind, mask) = c.path[0];
    let members = pick::<C>(&grp.ids, mask);
    let parts = if kind == RKind::Dealer { 1 } else { members.len() };
    let per = c.t as usize - 1;
    let q = sc_bytes::<C>(&neg::<C>(one::<C>()));
    let qv = u16::from_be_bytes([q[0], q[1]]) as usize + 1;
    for vecs in product(qv, parts * per) {
        let f: Vec<Vec<u32>> = (0..parts).map(|p| vecs[p * per..(p + 1) * per].iter().map(|x| *x as u32).collect()).collect();
        FORCED.with(|x| *x.borrow_mut() = f);
        let r = match kind {
            RKind::Dealer => refresh_dealer::<C>(&root, &members, "tiny"),
            RKind::Dkg => refresh_dkg::<C>(&root, &members, "tiny", c.t),
        };
        FORCED.with(|x| x.borrow_mut().clear());
        o.eval(true);
        o.count("transitions", 1);
        o.count("tiny_refresh_vectors", 1);
        let ctx = format!("tiny n={} t={} {kind:?} R={mask:b} coefficients={vecs:?}", c.n, c.t);
        match r {
            Ok(node) => {
                o.count("states", 1);
                o.count("traces", 1);
                check_links::<C>(&mut o, &tag, if kind == RKind::Dealer { "dealer-refresh" } else { "dkg-refresh" }, &ctx, &node, &vk0, vecs.iter().all(|x| *x == 0));
            }
            Err(e) => {
                // a zero proof nonce / unencodable identity in the proof of knowledge is the only legitimate failure
                if kind == RKind::Dkg && e.contains("refresh_dkg_part1") {
                    o.count("tiny_degenerate", 1);
                } else {
                    o.fail(format!("{tag}/{kind:?}-refresh-failed"), format!("{ctx}: {e}"));
                }
            }
        }
        if o.findings.len() > 5 {
            break;
        }
    }
    o.class("tiny-all");
    o
}

fn run_large<C: Suite>(c: &Case) -> Outcome {
    let mut o = Outcome::new();
    let tag = format!("C10/{}/large", C::name());
    let grp = match make_group::<C>(c.root, c.n, c.t, c.idkind, &c.seed) {
        Ok(g) => g,
        Err(e) => {
            o.fail(format!("{tag}/setup"), e);
            return o;
        }
    };
    let vk0 = *grp.pkp.verifying_key();
    let root = Node::<C> { t: c.t, kps: grp.kps.clone(), pkp: grp.pkp.clone(), prev: None };
    // remove the 2nd, a middle and the last participant
    let keep: Vec<_> = grp.ids.iter().enumerate().filter(|(i, _)| *i != 1 && *i != grp.ids.len() / 2 && *i + 1 != grp.ids.len()).map(|(_, x)| *x).collect();
    for (kind, members) in [(RKind::Dealer, grp.ids.clone()), (RKind::Dealer, keep.clone()), (RKind::Dkg, keep.clone())] {
        let r = match kind {
            RKind::Dealer => refresh_dealer::<C>(&root, &members, "large"),
            RKind::Dkg => refresh_dkg::<C>(&root, &members, "large", c.t),
        };
        o.eval(true);
        o.count("transitions", 1);
        let ctx = format!("large n={} t={} {kind:?} |R|={}", c.n, c.t, members.len());
        match r {
            Ok(node) => {
                o.count("states", 1);
                o.count("traces", 1);
                check_links::<C>(&mut o, &tag, if kind == RKind::Dealer { "dealer-refresh" } else { "dkg-refresh" }, &ctx, &node, &vk0, false);
                // the last t members sign; a mix (first of them on its old share) fails
                let s: Vec<_> = members.iter().rev().take(c.t as usize).rev().copied().collect();
                super::c01::session_check::<C>(&mut o, &tag, &node.kps, &node.pkp, &s, &message(2), "large");
                let mut kps = node.kps.clone();
                kps.insert(s[0], root.kps[&s[0]].clone());
                match mixed_attempt::<C>(&kps, &node.pkp, &s, &message(2), "largemix") {
                    Ok(true) => o.fail(format!("{tag}/old-new-mix-signs"), ctx.clone()),
                    Ok(false) => o.count("mixes_rejected", 1),
                    Err(e) => o.fail(format!("{tag}/MACHINERY-mix"), e),
                }
            }
            Err(e) => o.fail(format!("{tag}/{kind:?}-refresh-failed"), format!("{ctx}: {e}")),
        }
    }
    // a dealer whose zero-constant refreshing polynomial has 65536 + t coefficients (its published commitment,
    // 65536 + t - 1 entries, re-completed by the participant, has a length that wraps to t in 16 bits): this
    // changes the threshold and must be refused like any other threshold change
    if c.root == KeySrc::Dealer && (C::name() == "ed25519" || C::name() == "secp256k1-tr") {
        let id = grp.ids[1];
        let long = 65536usize + c.t as usize;
        let mut coeffs: Vec<frost_core::Scalar<C>> = vec![zero::<C>()];
        for k in 1..c.t {
            coeffs.push(sc_seeded_nz::<C>(&format!("wrap-refresh:{k}")));
        }
        coeffs.resize(long, one::<C>());
        let mut elems: Vec<frost_core::Element<C>> = coeffs[1..c.t as usize].iter().map(|s| gen_mul::<C>(*s)).collect();
        elems.resize(long - 1, G::<C>::generator());
        let x = id_scalar::<C>(&id);
        let mut acc = zero::<C>();
        for cf in coeffs.iter().rev() {
            acc = acc * x + *cf;
        }
        let bad = SecretShare::<C>::new(id, fc::keys::SigningShare::new(acc), VerifiableSecretSharingCommitment::new(elems.iter().map(|e| fc::keys::CoefficientCommitment::new(*e)).collect()));
        o.count("transitions", 1);
        match C::w_refresh_share(bad, &grp.kps[&id]) {
            Ok(kp) => o.fail(
                format!("{tag}/dealer-threshold-change-accepted"),
                format!("large n={} t={}: a refreshing share on a zero-constant polynomial of {long} coefficients was accepted (recorded threshold {})", c.n, c.t, kp.min_signers()),
            ),
            Err(_) => o.count("refusals_refused", 1),
        }
    }
    o.class("large");
    o
}

fn run_case<C: Suite>(c: &Case) -> Outcome {
    if c.tiny_all {
        return run_tiny_all::<C>(c);
    }
    if c.large {
        return run_large::<C>(c);
    }
    let mut o = Outcome::new();
    let tag = format!("C10/{}", C::name());
    let grp = match cached_group::<C>(c.root, c.n, c.t, c.idkind, &c.seed) {
        Ok(g) => g,
        Err(e) => {
            o.eval(false);
            o.fail(format!("{tag}/setup"), e);
            return o;
        }
    };
    let root_ids = grp.ids.clone();
    let vk0 = *grp.pkp.verifying_key();
    let mut node = Node::<C> { t: c.t, kps: grp.kps.clone(), pkp: grp.pkp.clone(), prev: None };
    let mut last_kind = None;
    for (d, (kind, mask)) in c.path.iter().enumerate() {
        let members = pick::<C>(&root_ids, *mask);
        let sd = format!("{}:{d}:{mask}", c.seed);
        let r = match kind {
            RKind::Dealer => refresh_dealer::<C>(&node, &members, &sd),
            RKind::Dkg => refresh_dkg::<C>(&node, &members, &sd, c.t),
        };
        o.count("transitions", 1);
        match r {
            Ok(nn) => node = nn,
            Err(e) => {
                o.eval(true);
                o.fail(format!("{tag}/{kind:?}-refresh-failed"), format!("path={:?}: {e}", c.path));
                return o;
            }
        }
        last_kind = Some(*kind);
    }
    o.eval(true);
    o.count("states", 1);
    o.count("traces", 1);
    let ctx = format!("n={} t={} ids={:?} root={:?} path={:?}", c.n, c.t, c.idkind, c.root, c.path);
    let kindtag = match last_kind {
        Some(RKind::Dealer) => "dealer-refresh",
        Some(RKind::Dkg) => "dkg-refresh",
        None => "root",
    };
    check_node::<C>(&mut o, &tag, kindtag, &ctx, &node, &vk0);
    if o.findings.iter().any(|f| f.key.contains("setup")) {
        return o;
    }
    refusals::<C>(&mut o, &tag, &ctx, &node, &c.seed);
    o.class(kindtag);
    o
}

pub fn check_node<C: Suite>(o: &mut Outcome, tag: &str, kindtag: &str, ctx: &str, node: &Node<C>, vk0: &fc::VerifyingKey<C>) {
    check_links::<C>(o, tag, kindtag, ctx, node, vk0, false);
    check_signing::<C>(o, tag, kindtag, ctx, node);
}

/// invariants 1 and 2: key fixed, packages re-linked
pub fn check_links<C: Suite>(o: &mut Outcome, tag: &str, kindtag: &str, ctx: &str, node: &Node<C>, vk0: &fc::VerifyingKey<C>, zero_refresh: bool) {
    let t = node.t;
    let members: Vec<_> = node.kps.keys().copied().collect();
    // 1. group key unchanged
    if node.pkp.verifying_key() != vk0 {
        o.fail(format!("{tag}/{kindtag}/group-key-changed"), format!("{ctx}: public key package has another group key"));
    }
    // 2. packages re-linked
    if node.pkp.verifying_shares().keys().copied().collect::<Vec<_>>() != members {
        o.fail(format!("{tag}/{kindtag}/pkp-members"), format!("{ctx}: refreshed public key package does not list exactly the remaining participants"));
    }
    if node.pkp.min_signers() != Some(t) {
        o.fail(format!("{tag}/{kindtag}/pkp-threshold"), format!("{ctx}: refreshed public key package threshold {:?}", node.pkp.min_signers()));
    }
    for (id, kp) in &node.kps {
        if kp.identifier() != id || *kp.min_signers() != t {
            o.fail(format!("{tag}/{kindtag}/keypackage-id-or-threshold"), format!("{ctx}: member {}", id_short::<C>(id)));
        }
        if kp.verifying_key() != vk0 {
            o.fail(format!("{tag}/{kindtag}/keypackage-group-key"), format!("{ctx}: member {}", id_short::<C>(id)));
        }
        let gs = gen_mul::<C>(kp.signing_share().to_scalar());
        let entry = node.pkp.verifying_shares().get(id).map(|v| v.to_element());
        if entry != Some(gs) {
            o.fail(format!("{tag}/{kindtag}/pkp-entry!=G*share"), format!("{ctx}: member {}: public-package entry is not G*(new share)", id_short::<C>(id)));
        }
        if kp.verifying_share().to_element() != gs {
            o.fail(
                format!("{tag}/{kindtag}/keypackage.verifying_share!=G*share"),
                format!("{ctx}: member {}: key package verifying share is not G*(its signing share) (equals previous generation's: {})", id_short::<C>(id),
                    node.prev.as_ref().and_then(|p| p.get(id)).map(|p| p.verifying_share() == kp.verifying_share()).unwrap_or(false)),
            );
        }
        if let (Some(prev), false) = (&node.prev, zero_refresh || C::TINY) {
            if prev[id].signing_share() == kp.signing_share() {
                o.fail(format!("{tag}/{kindtag}/share-not-refreshed"), format!("{ctx}: member {} kept its old share", id_short::<C>(id)));
            }
        }
    }
}

/// invariants 3 and 4: new shares sign, mixes and removed members fail
pub fn check_signing<C: Suite>(o: &mut Outcome, tag: &str, kindtag: &str, ctx: &str, node: &Node<C>) {
    let t = node.t;
    let members: Vec<_> = node.kps.keys().copied().collect();
    // 3. every t-subset (and the whole set) signs
    let m = message(2);
    let k = members.len();
    let mut sets = subsets(k, t as usize, t as usize);
    if k > t as usize {
        sets.push((1u32 << k) - 1);
    }
    for sm in &sets {
        let s = pick::<C>(&members, *sm);
        let before = o.findings.len();
        super::c01::session_check::<C>(o, &format!("{tag}/{kindtag}"), &node.kps, &node.pkp, &s, &m, &format!("n{sm}"));
        o.count("transitions", 1);
        if o.findings.len() > before {
            return;
        }
    }
    // 4. mixes with the previous generation
    if let Some(prev) = &node.prev {
        for sm in subsets(k, t as usize, t as usize) {
            let s = pick::<C>(&members, sm);
            for mask in 1u32..((1u32 << t) - 1) {
                // mask bit set => that signer uses its OLD share; strict: at least one old, at least one new
                let mut kps = BTreeMap::new();
                for (i, id) in s.iter().enumerate() {
                    let kp = if mask & (1 << i) != 0 { prev[id].clone() } else { node.kps[id].clone() };
                    kps.insert(*id, kp);
                }
                o.count("transitions", 1);
                match mixed_attempt::<C>(&kps, &node.pkp, &s, &m, &format!("mix{sm}.{mask}")) {
                    Ok(true) => {
                        o.fail(format!("{tag}/{kindtag}/old-new-mix-signs"), format!("{ctx}: signer set {sm:b} with old-share mask {mask:b} produced a valid signature"));
                    }
                    Ok(false) => o.count("mixes_rejected", 1),
                    Err(e) => o.fail(format!("{tag}/{kindtag}/MACHINERY-mix"), e),
                }
            }
        }
        // sets including a removed participant (with its last share)
        let removed: Vec<_> = prev.keys().filter(|i| !node.kps.contains_key(i)).copied().collect();
        for r in &removed {
            for sm in subsets(k, t as usize - 1, t as usize - 1) {
                let mut s = pick::<C>(&members, sm);
                s.push(*r);
                s.sort();
                let mut kps = BTreeMap::new();
                for id in &s {
                    kps.insert(*id, if id == r { prev[r].clone() } else { node.kps[id].clone() });
                }
                o.count("transitions", 1);
                // against the new public package, and against the new package with the removed
                // member's old verifying share re-inserted by a sloppy coordinator
                match mixed_attempt::<C>(&kps, &node.pkp, &s, &m, &format!("rem{sm}")) {
                    Ok(true) => o.fail(format!("{tag}/{kindtag}/removed-member-signs"), format!("{ctx}: removed member {} signed with {sm:b}", id_short::<C>(r))),
                    Ok(false) => o.count("removed_member_rejected", 1),
                    Err(e) => o.fail(format!("{tag}/{kindtag}/MACHINERY-mix"), e),
                }
                let mut vs = node.pkp.verifying_shares().clone();
                vs.insert(*r, *prev[r].verifying_share());
                let sloppy = PublicKeyPackage::<C>::new(vs, *node.pkp.verifying_key(), node.pkp.min_signers());
                match mixed_attempt::<C>(&kps, &sloppy, &s, &m, &format!("rem{sm}")) {
                    Ok(true) => o.fail(format!("{tag}/{kindtag}/removed-member-signs"), format!("{ctx}: removed member {} signed with {sm:b} (old verifying share re-inserted)", id_short::<C>(r))),
                    Ok(false) => o.count("removed_member_rejected", 1),
                    Err(e) => o.fail(format!("{tag}/{kindtag}/MACHINERY-mix"), e),
                }
            }
        }
    }
}

/// Ok(true) if a signature that verifies under the group key came out.
fn mixed_attempt<C: Suite>(
    kps: &BTreeMap<Id<C>, KeyPackage<C>>,
    pkp: &PublicKeyPackage<C>,
    s: &[Id<C>],
    m: &[u8],
    seed: &str,
) -> Result<bool, String> {
    let sess = match run_session::<C>(kps, s, m, seed) {
        Ok(s) => s,
        Err(_) => return Ok(false),
    };
    for mode in 0..3 {
        let cd = match mode {
            0 => fc::CheaterDetection::Disabled,
            1 => fc::CheaterDetection::FirstCheater,
            _ => fc::CheaterDetection::AllCheaters,
        };
        if let Ok(sig) = C::w_aggregate_custom(&sess.pkg, &sess.shares, pkp, cd) {
            let _ = sig;
            return Ok(true);
        }
    }
    // hand-assembled must not verify either
    let bfl = fc::compute_binding_factor_list(&sess.pkg, pkp.verifying_key(), &[]).map_err(e2s("bfl"))?;
    let gc = fc::compute_group_commitment(&sess.pkg, &bfl).map_err(e2s("gc"))?;
    let mut z = zero::<C>();
    for sh in sess.shares.values() {
        z = z + share_scalar::<C>(sh);
    }
    let sig = fc::Signature::<C>::new(gc.to_element(), z);
    Ok(pkp.verifying_key().verify(m, &sig).is_ok())
}

fn refusals<C: Suite>(o: &mut Outcome, tag: &str, ctx: &str, node: &Node<C>, seed: &str) {
    let t = node.t;
    let members: Vec<_> = node.kps.keys().copied().collect();
    let n = members.len() as u16;
    let stranger = Identifier::<C>::try_from(4242u16).unwrap();
    // ---- dealer variant ----
    // (a) threshold changed in the public key package handed to the dealer
    for tt in [t - 1, t + 1] {
        let lp = PublicKeyPackage::<C>::new(node.pkp.verifying_shares().clone(), *node.pkp.verifying_key(), Some(tt));
        let mut rng = ScriptedRng::ctr(format!("refusal:{seed}"));
        o.count("transitions", 1);
        match C::w_compute_refreshing_shares(lp, &members, &mut rng) {
            Err(_) => o.count("refusals_refused", 1),
            Ok((shares, _)) => {
                let mut any_ok = false;
                for (id, sh) in members.iter().zip(shares) {
                    if C::w_refresh_share(sh, &node.kps[id]).is_ok() {
                        any_ok = true;
                    }
                }
                if any_ok {
                    o.fail(format!("{tag}/dealer-threshold-change-accepted"), format!("{ctx}: refresh with threshold {tt} instead of {t} accepted by a participant"));
                } else {
                    o.count("refusals_refused", 1);
                }
            }
        }
    }
    {
        let lp = PublicKeyPackage::<C>::new(node.pkp.verifying_shares().clone(), *node.pkp.verifying_key(), None);
        let mut rng = ScriptedRng::ctr(format!("refusal:{seed}"));
        o.count("transitions", 1);
        if C::w_compute_refreshing_shares(lp, &members, &mut rng).is_ok() {
            o.fail(format!("{tag}/dealer-missing-threshold-accepted"), format!("{ctx}: compute_refreshing_shares accepted a package without threshold"));
        } else {
            o.count("refusals_refused", 1);
        }
    }
    // (b) unknown identifier in the list (each position)
    for pos in 0..members.len() {
        let mut l = members.clone();
        l[pos] = stranger;
        let mut rng = ScriptedRng::ctr(format!("refusal:{seed}"));
        o.count("transitions", 1);
        if C::w_compute_refreshing_shares(node.pkp.clone(), &l, &mut rng).is_ok() {
            o.fail(format!("{tag}/dealer-unknown-identifier-accepted"), format!("{ctx}: unknown identifier at position {pos} accepted"));
        } else {
            o.count("refusals_refused", 1);
        }
    }
    {
        let mut l = members.clone();
        l.push(stranger);
        let mut rng = ScriptedRng::ctr(format!("refusal:{seed}"));
        o.count("transitions", 1);
        if C::w_compute_refreshing_shares(node.pkp.clone(), &l, &mut rng).is_ok() {
            o.fail(format!("{tag}/dealer-unknown-identifier-accepted"), format!("{ctx}: extra unknown identifier accepted"));
        } else {
            o.count("refusals_refused", 1);
        }
    }
    // too few participants
    if t >= 3 || n > 2 {
        let l: Vec<_> = members.iter().take(t as usize - 1).copied().collect();
        if l.len() >= 1 {
            let mut rng = ScriptedRng::ctr(format!("refusal:{seed}"));
            o.count("transitions", 1);
            if C::w_compute_refreshing_shares(node.pkp.clone(), &l, &mut rng).is_ok() {
                o.fail(format!("{tag}/dealer-too-few-accepted"), format!("{ctx}: refresh with {} < t participants accepted", l.len()));
            } else {
                o.count("refusals_refused", 1);
            }
        }
    }
    // (c) refreshing contribution with non-zero constant term (dealer)
    {
        let key = SigningKey::<C>::from_scalar(sc_u64::<C>(7)).unwrap();
        let mut rng = ScriptedRng::ctr(format!("refusal-nz:{seed}"));
        let (shares, _) = fc::keys::split(&key, n, t, IdentifierList::Custom(&members), &mut rng).expect("split");
        for id in &members {
            let sh = &shares[id];
            // published without its first entry, exactly like an honest refreshing share
            let mut cm: Vec<_> = sh.commitment().coefficients().to_vec();
            cm.remove(0);
            let bad = SecretShare::<C>::new(*id, *sh.signing_share(), VerifiableSecretSharingCommitment::new(cm));
            o.count("transitions", 1);
            match C::w_refresh_share(bad, &node.kps[id]) {
                Ok(_) => o.fail(format!("{tag}/dealer-nonzero-constant-accepted"), format!("{ctx}: refreshing share with non-zero constant term accepted by {}", id_short::<C>(id))),
                Err(_) => o.count("refusals_refused", 1),
            }
        }
    }
    // ---- DKG variant ----
    // (a) everyone uses another threshold
    for tt in [t - 1, t + 1] {
        if tt < 2 || tt > n {
            // validate_num_of_signers refuses these outright; still must not succeed
        }
        o.count("transitions", 1);
        match refresh_dkg::<C>(node, &members, &format!("refusal-t:{seed}"), tt) {
            Ok(_) => o.fail(format!("{tag}/dkg-threshold-change-accepted"), format!("{ctx}: distributed refresh with threshold {tt} instead of {t} completed")),
            Err(_) => o.count("refusals_refused", 1),
        }
        // the same when the participants hold the pre-3.0 public key package (no threshold recorded in it:
        // the key packages still record it)
        let legacy = Node::<C> { t, kps: node.kps.clone(), pkp: PublicKeyPackage::<C>::new(node.pkp.verifying_shares().clone(), *node.pkp.verifying_key(), None), prev: None };
        o.count("transitions", 1);
        match refresh_dkg::<C>(&legacy, &members, &format!("refusal-tl:{seed}"), tt) {
            Ok(_) => o.fail(format!("{tag}/dkg-threshold-change-accepted"), format!("{ctx}: distributed refresh with threshold {tt} instead of {t} completed for participants holding a legacy public key package")),
            Err(_) => o.count("refusals_refused", 1),
        }
    }
    // an honest distributed refresh starting from the legacy public key package works and re-links everything
    {
        let legacy = Node::<C> { t, kps: node.kps.clone(), pkp: PublicKeyPackage::<C>::new(node.pkp.verifying_shares().clone(), *node.pkp.verifying_key(), None), prev: None };
        o.count("transitions", 1);
        match refresh_dkg::<C>(&legacy, &members, &format!("legacy:{seed}"), t) {
            Ok(nd) => {
                o.count("legacy_refreshes", 1);
                if nd.pkp.min_signers() != Some(t) {
                    o.fail(format!("{tag}/refreshed-public-package-threshold"), format!("{ctx}: the public key package refreshed from a legacy package records threshold {:?}, the key packages {t}", nd.pkp.min_signers()));
                }
                let vk0 = *node.pkp.verifying_key();
                check_links::<C>(o, tag, "dkg-refresh-from-legacy-package", ctx, &nd, &vk0, false);
            }
            Err(e) => o.fail(format!("{tag}/Dkg-refresh-failed"), format!("{ctx}: from a legacy public key package: {e}")),
        }
    }
    // (b) a stranger takes part in place of one member: every honest member must fail
    if n >= 3 || t == 2 {
        let victim = members[members.len() - 1];
        let mut parts: Vec<_> = members.iter().filter(|i| **i != victim).copied().collect();
        parts.push(stranger);
        let r = dkg_refresh_with_intruder::<C>(node, &parts, stranger, &format!("refusal-x:{seed}"), false);
        o.count("transitions", 1);
        match r {
            Ok(true) => o.fail(format!("{tag}/dkg-unknown-participant-accepted"), format!("{ctx}: a member completed a distributed refresh that includes an unknown participant")),
            Ok(false) => o.count("refusals_refused", 1),
            Err(e) => o.fail(format!("{tag}/MACHINERY-dkg-intruder"), e),
        }
    }
    // (a') exactly one member (each position) runs part one with t+1 / t-1: every honest member must fail
    for (pos, dev) in members.iter().enumerate() {
        for tt in [t + 1, t - 1] {
            if tt < 2 {
                continue;
            }
            o.count("transitions", 1);
            match dkg_refresh_one_deviating_threshold::<C>(node, &members, *dev, tt, &format!("refusal-1t:{seed}")) {
                Ok(true) => o.fail(format!("{tag}/dkg-one-peer-threshold-change-accepted"), format!("{ctx}: member at position {pos} used threshold {tt} instead of {t} and an honest member completed the refresh")),
                Ok(false) => o.count("refusals_refused", 1),
                Err(e) => o.fail(format!("{tag}/MACHINERY-dkg-1t"), e),
            }
        }
    }
    // (c) a member contributes a polynomial with non-zero constant term
    {
        let cheat = members[0];
        let r = dkg_refresh_with_intruder::<C>(node, &members, cheat, &format!("refusal-nzd:{seed}"), true);
        o.count("transitions", 1);
        match r {
            Ok(true) => o.fail(format!("{tag}/dkg-nonzero-constant-accepted"), format!("{ctx}: a member accepted a distributed refreshing contribution with non-zero constant term")),
            Ok(false) => o.count("refusals_refused", 1),
            Err(e) => o.fail(format!("{tag}/MACHINERY-dkg-nz"), e),
        }
    }
}

/// Distributed refresh in which `dev` alone uses threshold `tt`. Ok(true) if an honest member completed.
fn dkg_refresh_one_deviating_threshold<C: Suite>(node: &Node<C>, parts: &[Id<C>], dev: Id<C>, tt: u16, seed: &str) -> Result<bool, String> {
    let n = parts.len() as u16;
    let t = node.t;
    let mut sp1 = BTreeMap::new();
    let mut p1 = BTreeMap::new();
    for id in parts {
        let mut rng = ScriptedRng::ctr(format!("{seed}:{}", id_hex::<C>(id)));
        let used = if *id == dev { tt } else { t };
        match C::w_refresh_dkg_part1(*id, std::cmp::max(n, used), used, &mut rng) {
            Ok((s, p)) => {
                sp1.insert(*id, s);
                p1.insert(*id, p);
            }
            Err(_) => return Ok(false), // the deviating parameters are refused outright
        }
    }
    let mut sp2 = BTreeMap::new();
    let mut p2: BTreeMap<Id<C>, BTreeMap<Id<C>, d2::Package<C>>> = BTreeMap::new();
    for id in parts {
        let r1 = others::<C, _>(&p1, id);
        if let Ok((s, p)) = C::w_refresh_dkg_part2(sp1[id].clone(), &r1) {
            sp2.insert(*id, s);
            p2.insert(*id, p);
        } else if *id == dev {
            // the deviating peer does not stop at its own part2: it evaluates its polynomial for everyone
            let coeffs = sp1[id].coefficients();
            let m: BTreeMap<Id<C>, d2::Package<C>> = parts
                .iter()
                .filter(|x| *x != id)
                .map(|x| (*x, d2::Package::new(fc::keys::SigningShare::<C>::from_coefficients(&coeffs, *x))))
                .collect();
            p2.insert(*id, m);
        }
    }
    let mut any = false;
    for id in parts {
        if *id == dev || !sp2.contains_key(id) {
            continue;
        }
        let r1 = others::<C, _>(&p1, id);
        let mut r2 = BTreeMap::new();
        for (sender, m) in &p2 {
            if sender != id {
                if let Some(p) = m.get(id) {
                    r2.insert(*sender, p.clone());
                }
            }
        }
        if C::w_refresh_dkg_shares(&sp2[id], &r1, &r2, node.pkp.clone(), node.kps[id].clone()).is_ok() {
            any = true;
        }
    }
    Ok(any)
}

/// Distributed refresh in which `odd` behaves specially: if `nonzero` it is a member using a
/// polynomial with non-zero constant term (ordinary DKG part1, first commitment entry stripped);
/// otherwise it is a stranger (no old key package) following the protocol.
/// Returns Ok(true) if any *honest member* completed.
fn dkg_refresh_with_intruder<C: Suite>(node: &Node<C>, parts: &[Id<C>], odd: Id<C>, seed: &str, nonzero: bool) -> Result<bool, String> {
    let n = parts.len() as u16;
    let t = node.t;
    let mut sp1 = BTreeMap::new();
    let mut p1 = BTreeMap::new();
    for id in parts {
        let mut rng = ScriptedRng::ctr(format!("{seed}:{}", id_hex::<C>(id)));
        if *id == odd && nonzero {
            let (s, p) = C::w_part1(*id, n, t, &mut rng).map_err(e2s("part1"))?;
            // strip the constant-term commitment so the package looks like a refreshing one
            let mut cm: Vec<_> = p.commitment().coefficients().to_vec();
            cm.remove(0);
            let cmt = VerifiableSecretSharingCommitment::<C>::new(cm);
            let p = d1::Package::<C>::new(cmt.clone(), *p.proof_of_knowledge());
            let s = d1::SecretPackage::<C>::new(*id, s.coefficients(), cmt, t, n);
            sp1.insert(*id, s);
            p1.insert(*id, p);
        } else {
            let (s, p) = C::w_refresh_dkg_part1(*id, n, t, &mut rng).map_err(e2s("refresh_dkg_part1"))?;
            sp1.insert(*id, s);
            p1.insert(*id, p);
        }
    }
    let mut sp2 = BTreeMap::new();
    let mut p2: BTreeMap<Id<C>, BTreeMap<Id<C>, d2::Package<C>>> = BTreeMap::new();
    for id in parts {
        let r1 = others::<C, _>(&p1, id);
        match C::w_refresh_dkg_part2(sp1[id].clone(), &r1) {
            Ok((s, p)) => {
                sp2.insert(*id, s);
                p2.insert(*id, p);
            }
            Err(_) => {
                if *id == odd {
                    return Err("intruder could not run part2".into());
                }
            }
        }
    }
    let mut any = false;
    for id in parts {
        if *id == odd || !sp2.contains_key(id) {
            continue;
        }
        let r1 = others::<C, _>(&p1, id);
        let mut r2 = BTreeMap::new();
        for (sender, m) in &p2 {
            if sender != id {
                if let Some(p) = m.get(id) {
                    r2.insert(*sender, p.clone());
                }
            }
        }
        if C::w_refresh_dkg_shares(&sp2[id], &r1, &r2, node.pkp.clone(), node.kps[id].clone()).is_ok() {
            any = true;
        }
    }
    Ok(any)
}
