//! C15 — signing nonces are fresh, hedged, and derived exactly as the RFC prescribes.
//! E5: scripted random sources x commit / preprocess sequences; the byte stream handed out is
//! mapped to nonces by an independent H3.

use crate::rng::{Dev, Script, ScriptedRng, stream_bytes};
use crate::runner::{Outcome, Prop, Tier};
use crate::suites::{REAL_SUITES, Suite};
use crate::util::*;
use crate::with_suite;
use frost_core as fc;
use frost_core::keys::SigningShare;
use frost_core::round1::{SigningCommitments, SigningNonces};
use serde::{Deserialize, Serialize};
use serde_json::Value;
use std::collections::BTreeMap;

pub struct C15;

#[derive(Serialize, Deserialize, Clone, Debug, PartialEq, Eq)]
pub enum Src {
    Ctr(String),
    Const(u8),
    /// a 32-byte block repeated by every call
    Repeat32,
    /// a 5-byte block repeated
    Repeat5,
    /// first call answered with zeros, then a counter stream
    ZeroThenCtr,
    /// the same 32-byte block for the first two calls (A, A), then a counter stream (B, ...)
    AAThenCtr,
    /// A, B, A, B... : calls 0 and 2 get the same block
    ABAThenCtr,
}

#[derive(Serialize, Deserialize, Clone, Debug, PartialEq, Eq)]
pub enum Seq {
    Commit,
    CommitCommit,
    Preprocess(u8),
    PreprocessThenCommit(u8),
    CommitThenPreprocess(u8),
}

#[derive(Serialize, Deserialize, Clone, Debug)]
struct Case {
    suite: String,
    src: Src,
    seq: Seq,
}

fn make_rng(src: &Src) -> ScriptedRng {
    match src {
        Src::Ctr(l) => ScriptedRng::ctr(l.clone()),
        Src::Const(c) => ScriptedRng::new(Script::Const(*c)),
        Src::Repeat32 => ScriptedRng::new(Script::Repeat(stream_bytes("block32", 32))),
        Src::Repeat5 => ScriptedRng::new(Script::Repeat(vec![1, 2, 3, 4, 5])),
        Src::ZeroThenCtr => ScriptedRng::ctr("ztc").with_dev(0, Dev::Zero),
        Src::AAThenCtr => {
            let a = stream_bytes("blockA", 64);
            ScriptedRng::ctr("aab").with_dev(0, Dev::Bytes(a.clone())).with_dev(1, Dev::Bytes(a))
        }
        Src::ABAThenCtr => {
            let a = stream_bytes("blockA", 64);
            ScriptedRng::ctr("aba").with_dev(0, Dev::Bytes(a.clone())).with_dev(2, Dev::Bytes(a))
        }
    }
}

impl Prop for C15 {
    fn id(&self) -> &'static str {
        "C15"
    }
    fn level(&self) -> &'static str {
        "exploration"
    }
    fn rule(&self) -> String {
        "E5 environment-answer exploration: suites x share alphabet {1, q-1, 0, seeded x3} x random sources {3 counter streams, constant 0x00 / 0xAB, repeating 32-byte and 5-byte blocks, zero-then-good, A,A,B and A,B,A block patterns} x call sequences {commit; commit,commit; preprocess(k) k in {0,1,2,5,255}; mixed}. Oracle on the recorded byte stream S (not the call pattern): |S| = 64 per pair, hiding_j = H3(S[64j..+32] || enc(share)), binding_j = H3(S[64j+32..+64] || enc(share)) with an independent H3, commitments = G*nonce, k pairs for preprocess(k), injectivity of (bytes, share) -> nonce over the whole case, no zero nonce / identity commitment. Non-trivial = at least one pair produced".into()
    }
    fn assumptions(&self) -> Vec<String> {
        vec!["the independent H3 is written from RFC 9591 section 6 on the curve crates' scalar types and sha2/shake (not on frost-*)".into()]
    }
    fn bound(&self, tier: Tier) -> String {
        format!("11 sources x {} sequences x 6 shares per suite", tier.pick(9, 12))
    }
    fn required_counters(&self) -> Vec<&'static str> {
        vec!["pairs_checked", "constant_source_pairs", "distinctness_pairs_checked"]
    }
    fn cases(&self, tier: Tier, seed: u64) -> Vec<Value> {
        let mut out = vec![];
        let srcs = vec![
            Src::Ctr(format!("a{seed}")),
            Src::Ctr(format!("b{seed}")),
            Src::Ctr(format!("c{seed}")),
            Src::Const(0),
            Src::Const(0xab),
            Src::Repeat32,
            Src::Repeat5,
            Src::ZeroThenCtr,
            Src::AAThenCtr,
            Src::ABAThenCtr,
        ];
        let mut seqs = vec![Seq::Commit, Seq::CommitCommit, Seq::Preprocess(0), Seq::Preprocess(1), Seq::Preprocess(2), Seq::Preprocess(5), Seq::PreprocessThenCommit(2), Seq::CommitThenPreprocess(3), Seq::Preprocess(255)];
        if tier == Tier::Thorough {
            seqs.extend([Seq::Preprocess(3), Seq::Preprocess(64), Seq::PreprocessThenCommit(7)]);
        }
        for suite in REAL_SUITES.iter().copied().chain(["tiny251"]) {
            for src in &srcs {
                for seq in &seqs {
                    if *seq == Seq::Preprocess(255) && suite == "ed448" && tier == Tier::Quick && *src != srcs[0] {
                        continue;
                    }
                    out.push(serde_json::to_value(Case { suite: suite.to_string(), src: src.clone(), seq: seq.clone() }).unwrap());
                }
            }
        }
        out
    }
    fn run(&self, case: &Value) -> Outcome {
        let c: Case = serde_json::from_value(case.clone()).expect("case");
        with_suite!(c.suite.as_str(), run_case, &c)
    }
}

fn run_case<C: Suite>(c: &Case) -> Outcome {
    let mut o = Outcome::new();
    let tag = format!("C15/{}", C::name());
    let shares: Vec<(&str, frost_core::Scalar<C>)> = vec![
        ("1", one::<C>()),
        ("q-1", neg::<C>(one::<C>())),
        ("0", zero::<C>()),
        ("seeded0", sc_seeded::<C>("c15.0")),
        ("seeded1", sc_seeded::<C>("c15.1")),
        ("seeded2", sc_seeded::<C>("c15.2")),
    ];
    // injectivity map over the whole case: (32 bytes, share encoding) -> nonce encoding
    let mut seen: BTreeMap<(Vec<u8>, Vec<u8>), Vec<u8>> = BTreeMap::new();
    let mut by_nonce: BTreeMap<Vec<u8>, (Vec<u8>, Vec<u8>)> = BTreeMap::new();
    for (sname, sc) in &shares {
        let share = SigningShare::<C>::new(*sc);
        let share_enc = sc_bytes::<C>(sc);
        let ctx = format!("source={:?} sequence={:?} share={sname}", c.src, c.seq);
        let mut rng = make_rng(&c.src);
        let mut pairs: Vec<(SigningNonces<C>, SigningCommitments<C>)> = vec![];
        let mut expect_pairs = 0usize;
        let mut do_commit = |rng: &mut ScriptedRng, pairs: &mut Vec<(SigningNonces<C>, SigningCommitments<C>)>| {
            let (n, cm) = C::w_commit(&share, rng);
            pairs.push((n, cm));
        };
        let mut do_pre = |o: &mut Outcome, k: u8, rng: &mut ScriptedRng, pairs: &mut Vec<(SigningNonces<C>, SigningCommitments<C>)>| {
            let (ns, cs) = fc::round1::preprocess::<C, _>(k, &share, rng);
            if ns.len() != k as usize || cs.len() != k as usize {
                o.fail(format!("{tag}/preprocess-count"), format!("{ctx}: preprocess({k}) returned {} nonce pairs and {} commitment pairs", ns.len(), cs.len()));
            }
            for (n, cm) in ns.into_iter().zip(cs) {
                pairs.push((n, cm));
            }
        };
        match &c.seq {
            Seq::Commit => {
                do_commit(&mut rng, &mut pairs);
                expect_pairs = 1;
            }
            Seq::CommitCommit => {
                do_commit(&mut rng, &mut pairs);
                do_commit(&mut rng, &mut pairs);
                expect_pairs = 2;
            }
            Seq::Preprocess(k) => {
                do_pre(&mut o, *k, &mut rng, &mut pairs);
                expect_pairs = *k as usize;
            }
            Seq::PreprocessThenCommit(k) => {
                do_pre(&mut o, *k, &mut rng, &mut pairs);
                do_commit(&mut rng, &mut pairs);
                expect_pairs = *k as usize + 1;
            }
            Seq::CommitThenPreprocess(k) => {
                do_commit(&mut rng, &mut pairs);
                do_pre(&mut o, *k, &mut rng, &mut pairs);
                expect_pairs = *k as usize + 1;
            }
        }
        o.eval(expect_pairs > 0);
        if pairs.len() != expect_pairs {
            o.fail(format!("{tag}/pair-count"), format!("{ctx}: {} pairs, expected {expect_pairs}", pairs.len()));
            continue;
        }
        // the byte stream handed out, independent of how it was requested
        let stream: Vec<u8> = rng.calls.iter().flat_map(|c| c.bytes.clone()).collect();
        if stream.len() != 64 * expect_pairs {
            o.fail(
                format!("{tag}/bytes-consumed"),
                format!("{ctx}: {} bytes drawn from the random source for {expect_pairs} pair(s), expected {} (32 for each hiding and 32 further for each binding nonce)", stream.len(), 64 * expect_pairs),
            );
            continue;
        }
        for (j, (n, cm)) in pairs.iter().enumerate() {
            let hb = n.hiding().serialize();
            let bb = n.binding().serialize();
            let want_h = C::ext_h3(&[&stream[64 * j..64 * j + 32], &share_enc[..]].concat());
            let want_b = C::ext_h3(&[&stream[64 * j + 32..64 * j + 64], &share_enc[..]].concat());
            o.count("pairs_checked", 1);
            if matches!(c.src, Src::Const(_) | Src::Repeat32) {
                o.count("constant_source_pairs", 1);
            }
            if hb != want_h {
                o.fail(format!("{tag}/hiding-nonce-not-H3"), format!("{ctx}: pair {j}: hiding nonce {} != H3(bytes[{}..{}] || share) = {}", hex::encode(&hb), 64 * j, 64 * j + 32, hex::encode(&want_h)));
            }
            if bb != want_b {
                o.fail(format!("{tag}/binding-nonce-not-H3"), format!("{ctx}: pair {j}: binding nonce {} != H3(bytes[{}..{}] || share) = {}", hex::encode(&bb), 64 * j + 32, 64 * j + 64, hex::encode(&want_b)));
            }
            // commitments are the generator times the nonces
            let hs = sc_from_bytes::<C>(&hb);
            let bs = sc_from_bytes::<C>(&bb);
            match (hs, bs) {
                (Some(hs), Some(bs)) => {
                    if cm.hiding().value() != gen_mul::<C>(hs) || cm.binding().value() != gen_mul::<C>(bs) {
                        o.fail(format!("{tag}/commitment-not-G-times-nonce"), format!("{ctx}: pair {j}"));
                    }
                    if n.commitments() != cm {
                        o.fail(format!("{tag}/stored-commitments-differ"), format!("{ctx}: pair {j}: commitments stored with the nonces differ from the published ones"));
                    }
                    // never zero / identity (on the tiny field a hash value of zero is legitimate: 1/q)
                    if !C::TINY && (hs == zero::<C>() || bs == zero::<C>() || cm.hiding().value() == G::<C>::identity() || cm.binding().value() == G::<C>::identity()) {
                        o.fail(format!("{tag}/zero-nonce-or-identity-commitment"), format!("{ctx}: pair {j}"));
                    }
                }
                _ => o.fail(format!("{tag}/nonce-encoding"), format!("{ctx}: pair {j}: nonce does not decode")),
            }
            // injectivity
            for (piece, nb) in [(&stream[64 * j..64 * j + 32], &hb), (&stream[64 * j + 32..64 * j + 64], &bb)] {
                let key = (piece.to_vec(), share_enc.clone());
                if let Some(prev) = seen.get(&key) {
                    if prev != nb {
                        o.fail(format!("{tag}/same-input-different-nonce"), format!("{ctx}: pair {j}"));
                    }
                } else {
                    seen.insert(key.clone(), nb.clone());
                }
                o.count("distinctness_pairs_checked", 1);
                if let Some(prev_key) = by_nonce.get(nb) {
                    if *prev_key != key && !C::TINY {
                        o.fail(format!("{tag}/nonce-reused-for-different-input"), format!("{ctx}: pair {j}: nonce {} also produced from other bytes / another share", hex::encode(nb)));
                    }
                } else {
                    by_nonce.insert(nb.clone(), key);
                }
            }
        }
    }
    o.class(format!("{:?}", c.seq).split('(').next().unwrap().to_string());
    o
}
