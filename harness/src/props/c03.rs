//! C03 — fewer than the threshold of key holders can neither sign nor recover the key.

use crate::runner::{Outcome, Prop, Tier};
use crate::suites::{Id, REAL_SUITES, Suite};
use crate::tiny::{Sc, Tiny};
use crate::util::*;
use crate::with_suite;
use frost_core as fc;
use frost_core::keys::{IdentifierList, KeyPackage, PublicKeyPackage};
use frost_core::{CheaterDetection, Identifier, SigningKey, SigningPackage};
use serde::{Deserialize, Serialize};
use serde_json::Value;
use std::collections::BTreeMap;

pub struct C03;

#[derive(Serialize, Deserialize, Clone, Debug)]
#[serde(tag = "layer")]
enum Case {
    Real {
        suite: String,
        n: u16,
        t: u16,
        idkind: IdKind,
        src: KeySrc,
        /// subset below the threshold (or == t for the positive control)
        signers: u32,
        msg: usize,
        seed: String,
    },
    /// exact Shamir secrecy count over all polynomials
    TinySecrecy { q: u64, n: u16, t: u16 },
}

impl Prop for C03 {
    fn id(&self) -> &'static str {
        "C03"
    }
    fn level(&self) -> &'static str {
        "exploration"
    }
    fn rule(&self) -> String {
        "complete enumeration: suites x (n,t) x id kinds x EVERY subset of size 1..t-1 (plus |S|=t positive controls) x {honest, lowered key-package threshold} x public-package threshold {honest, lowered, absent} x 3 detection modes; tiny field: ALL polynomials grouped by every (t-1)-subset of shares (exact secrecy count). Non-trivial = a below-threshold subset was driven through sign/aggregate/reconstruct".into()
    }
    fn assumptions(&self) -> Vec<String> {
        vec!["unforgeability against arbitrary algorithms is a cryptographic assumption; decided here: the refusals, the honest-algorithm attack with lied thresholds, exact Shamir secrecy on GF(q)".into()]
    }
    fn bound(&self, tier: Tier) -> String {
        format!("n<={}, every subset below t; tiny q in {{5,7,11}} t<={}", tier.pick(6, 8), tier.pick(3, 4))
    }
    fn required_counters(&self) -> Vec<&'static str> {
        vec!["below_threshold_sets", "lying_signs_ok", "positive_controls", "secrecy_classes"]
    }
    fn cases(&self, tier: Tier, seed: u64) -> Vec<Value> {
        let mut out = vec![];
        let nmax = tier.pick(6u16, 8u16);
        for (n, t) in super::c01::shapes(nmax) {
            for suite in REAL_SUITES {
                if suite == "ed448" && n > tier.pick(4, 5) {
                    continue;
                }
                for idkind in [IdKind::Seq, IdKind::U16x] {
                    for src in [KeySrc::Dealer, KeySrc::Dkg] {
                        if src == KeySrc::Dkg && n > tier.pick(3, 5) {
                            continue;
                        }
                        let mut k = 0;
                        for s in subsets(n as usize, 1, t as usize) {
                            // positive controls: a few |S| = t sets
                            if s.count_ones() as u16 == t {
                                k += 1;
                                if k > 2 {
                                    continue;
                                }
                            }
                            for msg in [0usize, 2] {
                                out.push(
                                    serde_json::to_value(Case::Real {
                                        suite: suite.to_string(),
                                        n,
                                        t,
                                        idkind,
                                        src,
                                        signers: s,
                                        msg,
                                        seed: format!("s{seed}"),
                                    })
                                    .unwrap(),
                                );
                            }
                        }
                    }
                }
            }
        }
        for q in [5u64, 7, 11] {
            for t in 2..=tier.pick(3u16, 4u16) {
                for n in t..=std::cmp::min(t + 1, q as u16 - 1) {
                    if (q as u64).pow(t as u32) > 20000 {
                        continue;
                    }
                    out.push(serde_json::to_value(Case::TinySecrecy { q, n, t }).unwrap());
                }
            }
        }
        out
    }
    fn run(&self, case: &Value) -> Outcome {
        let c: Case = serde_json::from_value(case.clone()).expect("case");
        match &c {
            Case::Real { suite, .. } => with_suite!(suite.as_str(), run_real, &c),
            Case::TinySecrecy { q, .. } => match q {
                5 => run_tiny::<5>(&c),
                7 => run_tiny::<7>(&c),
                11 => run_tiny::<11>(&c),
                _ => panic!("q"),
            },
        }
    }
}

fn with_min<C: Suite>(kp: &KeyPackage<C>, m: u16) -> KeyPackage<C> {
    KeyPackage::new(*kp.identifier(), *kp.signing_share(), *kp.verifying_share(), *kp.verifying_key(), m)
}

fn err_sig<C: Suite>(r: &Result<fc::Signature<C>, fc::Error<C>>) -> String {
    match r {
        Ok(_) => "Ok".into(),
        Err(e) => format!("{e:?}"),
    }
}

fn run_real<C: Suite>(c: &Case) -> Outcome {
    let mut o = Outcome::new();
    let Case::Real { n, t, idkind, src, signers, msg, seed, .. } = c else { unreachable!() };
    let tag = format!("C03/{}", C::name());
    let grp = match cached_group::<C>(*src, *n, *t, *idkind, seed) {
        Ok(g) => g,
        Err(e) => {
            o.eval(false);
            o.fail(format!("{tag}/setup"), e);
            return o;
        }
    };
    let s = pick::<C>(&grp.ids, *signers);
    let k = s.len() as u16;
    let m = message(*msg);
    let ctx = format!("n={n} t={t} src={src:?} S={:?}", s.iter().map(|i| id_short::<C>(i)).collect::<Vec<_>>());
    let sseed = format!("{seed}:{signers}:{msg}");
    if k == *t {
        // positive control: exactly t sign, aggregate, reconstruct
        o.eval(true);
        o.count("positive_controls", 1);
        super::c01::session_check::<C>(&mut o, &tag, &grp.kps, &grp.pkp, &s, &m, &sseed);
        let kps: Vec<_> = s.iter().map(|i| grp.kps[i].clone()).collect();
        match C::w_reconstruct(&kps) {
            Ok(key) => {
                if gen_mul::<C>(key.to_scalar()) != grp.pkp.verifying_key().to_element() {
                    o.fail(format!("{tag}/reconstruct-t-wrong"), format!("{ctx}: t shares reconstruct a key that does not match the group key"));
                }
            }
            Err(e) => o.fail(format!("{tag}/reconstruct-t-failed"), format!("{ctx}: {e:?}")),
        }
        return o;
    }
    o.eval(true);
    o.count("below_threshold_sets", 1);
    let (nonces, comms) = commit_all::<C>(&grp.kps, &s, &sseed);
    let pkg = SigningPackage::<C>::new(comms, &m);
    // (a) honest signers refuse
    for id in &s {
        if let Ok(_) = C::w_sign(&pkg, &nonces[id], &grp.kps[id]) {
            o.fail(format!("{tag}/signer-did-not-refuse"), format!("{ctx}: honest signer {} signed a package with {k} < {t} participants", id_short::<C>(id)));
        }
    }
    // lying signers: min_signers lowered to |S| (if |S| = 1 the library's own minimum is irrelevant here)
    let mut shares = BTreeMap::new();
    let mut lying_kps = vec![];
    for id in &s {
        let lk = with_min::<C>(&grp.kps[id], k);
        match C::w_sign(&pkg, &nonces[id], &lk) {
            Ok(sh) => {
                shares.insert(*id, sh);
            }
            Err(e) => {
                o.fail(format!("{tag}/MACHINERY-lying-signer-failed"), format!("{ctx}: {e:?}"));
                return o;
            }
        }
        lying_kps.push(lk);
    }
    o.count("lying_signs_ok", 1);
    // (a') coordinator with the honest public key package refuses, naming nobody, identically
    // whether the shares are "correct" or one is corrupted
    let mut corrupted = shares.clone();
    let first = s[0];
    corrupted.insert(first, share_from_scalar::<C>(share_scalar::<C>(&shares[&first]) + one::<C>()));
    for (mn, mode) in [("Disabled", 0), ("FirstCheater", 1), ("AllCheaters", 2)] {
        let md = || match mode {
            0 => CheaterDetection::Disabled,
            1 => CheaterDetection::FirstCheater,
            _ => CheaterDetection::AllCheaters,
        };
        let r1 = C::w_aggregate_custom(&pkg, &shares, &grp.pkp, md());
        let r2 = C::w_aggregate_custom(&pkg, &corrupted, &grp.pkp, md());
        match (&r1, &r2) {
            (Err(e1), Err(e2)) => {
                if !e1.culprits().is_empty() || !e2.culprits().is_empty() || e1 != e2 {
                    o.fail(
                        format!("{tag}/coordinator-did-not-refuse-upfront"),
                        format!("{ctx} mode={mn}: with {k} < {t} shares the coordinator must refuse outright (same culprit-free error with and without a corrupted share); got {e1:?} / {e2:?}"),
                    );
                }
                o.class("refused");
            }
            _ => {
                o.fail(format!("{tag}/aggregated-below-threshold"), format!("{ctx} mode={mn}: aggregate with honest public key package returned {} / {}", err_sig(&r1), err_sig(&r2)));
            }
        }
        // plain aggregate too
        if mode == 1 {
            if let Ok(_) = C::w_aggregate(&pkg, &shares, &grp.pkp) {
                o.fail(format!("{tag}/aggregated-below-threshold"), format!("{ctx}: aggregate() returned Ok"));
            }
        }
        // (b) lying coordinator: lowered / absent threshold in the public key package: never Ok
        for (pn, pm) in [("lowered", Some(k)), ("absent", None)] {
            let lp = PublicKeyPackage::<C>::new(grp.pkp.verifying_shares().clone(), *grp.pkp.verifying_key(), pm);
            let r = C::w_aggregate_custom(&pkg, &shares, &lp, md());
            if let Ok(sig) = &r {
                let v = grp.pkp.verifying_key().verify(&m, sig).is_ok();
                o.fail(
                    format!("{tag}/below-threshold-signature-released"),
                    format!("{ctx} mode={mn} pkp-threshold={pn}: aggregate returned Ok (verifies under group key: {v})"),
                );
            } else {
                o.class("lying-rejected");
            }
        }
    }
    // hand-assembled (R, sum z) must not verify
    if let Ok(bfl) = fc::compute_binding_factor_list(&pkg, grp.pkp.verifying_key(), &[]) {
        if let Ok(gc) = fc::compute_group_commitment(&pkg, &bfl) {
            let mut z = zero::<C>();
            for sh in shares.values() {
                z = z + share_scalar::<C>(sh);
            }
            let r_el = gc.to_element();
            for r_try in [r_el, G::<C>::identity() - r_el] {
                let sig = fc::Signature::<C>::new(r_try, z);
                let lib = grp.pkp.verifying_key().verify(&m, &sig).is_ok();
                let ext = match (sig.serialize(), grp.pkp.verifying_key().serialize()) {
                    (Ok(sb), Ok(vkb)) => C::ext_verify(&vkb, &m, &sb),
                    _ => false,
                };
                if lib || ext {
                    o.fail(format!("{tag}/below-threshold-forgery-verifies"), format!("{ctx}: hand-assembled signature verifies (lib={lib} ext={ext})"));
                }
            }
            o.count("hand_assembled_rejected", 1);
        }
    }
    // (c) reconstruct: honest packages refuse; lying packages yield another key
    let hk: Vec<_> = s.iter().map(|i| grp.kps[i].clone()).collect();
    if let Ok(_) = C::w_reconstruct(&hk) {
        o.fail(format!("{tag}/reconstruct-did-not-refuse"), format!("{ctx}: reconstruct accepted {k} < {t} honest packages"));
    }
    match C::w_reconstruct(&lying_kps) {
        Ok(key) => {
            if gen_mul::<C>(key.clone().to_scalar()) == grp.pkp.verifying_key().to_element() {
                o.fail(format!("{tag}/below-threshold-reconstructs-key"), format!("{ctx}: {k} < {t} shares reconstruct the group key"));
            }
        }
        Err(_) => {}
    }
    o
}

fn run_tiny<const Q: u64>(c: &Case) -> Outcome {
    let mut o = Outcome::new();
    let Case::TinySecrecy { n, t, .. } = c else { unreachable!() };
    type T<const Q: u64> = Tiny<Q>;
    let tag = format!("C03/tiny{Q}");
    let ids: Vec<Identifier<T<Q>>> = (1..=*n).map(|i| Identifier::<T<Q>>::try_from(i).unwrap()).collect();
    // counts[(subset mask, share vector)][secret] = number of polynomials
    let mut counts: BTreeMap<(u32, Vec<u64>), BTreeMap<u64, u64>> = BTreeMap::new();
    let subs = subsets(*n as usize, *t as usize - 1, *t as usize - 1);
    for poly in product(Q as usize, *t as usize) {
        if poly[0] == 0 {
            continue;
        }
        let key = SigningKey::<T<Q>>::from_scalar(Sc::<Q>(poly[0] as u64)).unwrap();
        let mut rng = crate::rng::ScriptedRng::ctr("unused");
        for (k, cf) in poly.iter().skip(1).enumerate() {
            rng = rng.with_dev(k, crate::rng::Dev::Bytes((*cf as u32).to_le_bytes().to_vec()));
        }
        let (shares, _pkp) = match fc::keys::split(&key, *n, *t, IdentifierList::Default, &mut rng) {
            Ok(x) => x,
            Err(e) => {
                o.fail(format!("{tag}/split-failed"), format!("{e:?}"));
                continue;
            }
        };
        o.eval(true);
        let vals: Vec<u64> = ids.iter().map(|i| shares[i].signing_share().to_scalar().0).collect();
        for sm in &subs {
            let v: Vec<u64> = mask_indices(*sm).iter().map(|i| vals[*i]).collect();
            *counts.entry((*sm, v)).or_default().entry(poly[0] as u64).or_insert(0) += 1;
        }
    }
    // every (t-1)-subset share vector must be compatible with every non-zero secret exactly once
    let expected_vectors = (Q as u64).pow(*t as u32 - 1);
    for sm in &subs {
        let nv = counts.keys().filter(|(m, _)| m == sm).count() as u64;
        if nv != expected_vectors {
            o.fail(
                format!("{tag}/secrecy-share-vectors-missing"),
                format!("n={n} t={t} subset={sm:b}: {nv} distinct share vectors, expected {expected_vectors} (polynomial has fewer free coefficients than t-1)"),
            );
        }
    }
    for ((sm, v), per_secret) in &counts {
        o.count("secrecy_classes", 1);
        let ok = per_secret.len() as u64 == Q - 1 && per_secret.values().all(|c| *c == 1);
        if !ok {
            o.fail(
                format!("{tag}/secrecy-count-uneven"),
                format!("n={n} t={t} subset={sm:b} shares={v:?}: secrets occur {per_secret:?}, expected every non-zero secret exactly once"),
            );
            break;
        }
    }
    o.class("secrecy");
    o
}
