//! C03 — fewer than the threshold of key holders can neither sign nor recover the key.

use crate::runner::{Outcome, Prop, Tier};
use crate::suites::{Id, REAL_SUITES, Suite};
use crate::tiny::{Sc, Tiny};
use crate::util::*;
use crate::with_suite;
use frost_core as fc;
use frost_core::keys::{IdentifierList, KeyPackage, PublicKeyPackage};
use frost_core::{CheaterDetection, Identifier, SigningKey, SigningPackage};
use serde::{Deserialize, Serialize};
use serde_json::Value;
use std::collections::BTreeMap;

pub struct C03;

#[derive(Serialize, Deserialize, Clone, Debug)]
#[serde(tag = "layer")]
enum Case {
    Real {
        suite: String,
        n: u16,
        t: u16,
        idkind: IdKind,
        src: KeySrc,
        /// subset below the threshold (or == t for the positive control)
        signers: u32,
        msg: usize,
        seed: String,
    },
    /// key material that has been through share maintenance among `t + extra` holders
    /// (kind: refresh-dealer | refresh-dkg | repair), then the same below-threshold drive
    Maintained {
        suite: String,
        n: u16,
        t: u16,
        kind: String,
        extra: u16,
        signers: u32,
        seed: String,
    },
    /// exact Shamir secrecy count over all polynomials
    TinySecrecy { q: u64, n: u16, t: u16 },
}

impl Prop for C03 {
    fn id(&self) -> &'static str {
        "C03"
    }
    fn level(&self) -> &'static str {
        "exploration"
    }
    fn rule(&self) -> String {
        "complete enumeration: suites x (n,t) x id kinds x EVERY subset of size 1..t-1 (plus |S|=t positive controls) x {honest, lowered key-package threshold} x public-package threshold {honest, lowered, absent} x 3 detection modes; the same drive through the re-randomized entry points (sign_with_randomizer_seed, deprecated sign, aggregate, aggregate_custom) and on key material after dealer refresh / distributed refresh / repair among exactly t and t+1 holders; tiny field: ALL polynomials grouped by every (t-1)-subset of shares (exact secrecy count). Non-trivial = a below-threshold subset was driven through sign/aggregate/reconstruct".into()
    }
    fn assumptions(&self) -> Vec<String> {
        vec!["unforgeability against arbitrary algorithms is a cryptographic assumption; decided here: the refusals, the honest-algorithm attack with lied thresholds, exact Shamir secrecy on GF(q)".into()]
    }
    fn bound(&self, tier: Tier) -> String {
        format!("n<={}, every subset below t; tiny q in {{5,7,11}} t<={}", tier.pick(6, 8), tier.pick(3, 4))
    }
    fn required_counters(&self) -> Vec<&'static str> {
        vec!["below_threshold_sets", "lying_signs_ok", "positive_controls", "secrecy_classes", "maintained_groups", "rr_below_threshold_sets"]
    }
    fn cases(&self, tier: Tier, seed: u64) -> Vec<Value> {
        let mut out = vec![];
        let nmax = tier.pick(6u16, 8u16);
        for (n, t) in super::c01::shapes(nmax) {
            for suite in REAL_SUITES {
                if suite == "ed448" && n > tier.pick(4, 5) {
                    continue;
                }
                for idkind in [IdKind::Seq, IdKind::U16x] {
                    for src in [KeySrc::Dealer, KeySrc::Dkg] {
                        if src == KeySrc::Dkg && n > tier.pick(3, 5) {
                            continue;
                        }
                        let mut k = 0;
                        for s in subsets(n as usize, 1, t as usize) {
                            // positive controls: a few |S| = t sets
                            if s.count_ones() as u16 == t {
                                k += 1;
                                if k > 2 {
                                    continue;
                                }
                            }
                            for msg in [0usize, 2] {
                                out.push(
                                    serde_json::to_value(Case::Real {
                                        suite: suite.to_string(),
                                        n,
                                        t,
                                        idkind,
                                        src,
                                        signers: s,
                                        msg,
                                        seed: format!("s{seed}"),
                                    })
                                    .unwrap(),
                                );
                            }
                        }
                    }
                }
            }
        }
        // maintained key material: the thresholds recorded after refresh / repair are the ones signers rely on
        for (n, t) in super::c01::shapes(tier.pick(5u16, 6u16)) {
            for suite in REAL_SUITES {
                if suite == "ed448" && n > 4 {
                    continue;
                }
                for kind in ["refresh-dealer", "refresh-dkg", "repair", "refresh-dkg-lowered-legacy", "refresh-dkg-from-legacy"] {
                    for extra in [0u16, 1] {
                        if kind == "refresh-dkg-lowered-legacy" && t < 3 {
                            continue;
                        }
                        let r = t + extra;
                        if r > n || (kind == "repair" && extra == 1) || (kind == "repair" && t + 1 > n) {
                            continue;
                        }
                        let members = if kind == "repair" { n } else { r };
                        for sgn in subsets(members as usize, 1, t as usize) {
                            if sgn.count_ones() as u16 == t && sgn != (1u32 << t) - 1 {
                                continue;
                            }
                            out.push(
                                serde_json::to_value(Case::Maintained { suite: suite.to_string(), n, t, kind: kind.to_string(), extra, signers: sgn, seed: format!("s{seed}") }).unwrap(),
                            );
                        }
                    }
                }
            }
        }
        for q in [5u64, 7, 11] {
            for t in 2..=tier.pick(3u16, 4u16) {
                for n in t..=std::cmp::min(t + 1, q as u16 - 1) {
                    if (q as u64).pow(t as u32) > 20000 {
                        continue;
                    }
                    out.push(serde_json::to_value(Case::TinySecrecy { q, n, t }).unwrap());
                }
            }
        }
        out
    }
    fn run(&self, case: &Value) -> Outcome {
        let c: Case = serde_json::from_value(case.clone()).expect("case");
        match &c {
            Case::Real { suite, .. } => with_suite!(suite.as_str(), run_real, &c),
            Case::Maintained { suite, .. } => with_suite!(suite.as_str(), run_maintained, &c),
            Case::TinySecrecy { q, .. } => match q {
                5 => run_tiny::<5>(&c),
                7 => run_tiny::<7>(&c),
                11 => run_tiny::<11>(&c),
                _ => panic!("q"),
            },
        }
    }
}

fn with_min<C: Suite>(kp: &KeyPackage<C>, m: u16) -> KeyPackage<C> {
    KeyPackage::new(*kp.identifier(), *kp.signing_share(), *kp.verifying_share(), *kp.verifying_key(), m)
}

fn err_sig<C: Suite>(r: &Result<fc::Signature<C>, fc::Error<C>>) -> String {
    match r {
        Ok(_) => "Ok".into(),
        Err(e) => format!("{e:?}"),
    }
}

fn run_real<C: Suite>(c: &Case) -> Outcome {
    let mut o = Outcome::new();
    let Case::Real { n, t, idkind, src, signers, msg, seed, .. } = c else { unreachable!() };
    let tag = format!("C03/{}", C::name());
    let grp = match cached_group::<C>(*src, *n, *t, *idkind, seed) {
        Ok(g) => g,
        Err(e) => {
            o.eval(false);
            o.fail(format!("{tag}/setup"), e);
            return o;
        }
    };
    let s = pick::<C>(&grp.ids, *signers);
    let m = message(*msg);
    let ctx = format!("n={n} t={t} src={src:?} S={:?}", s.iter().map(|i| id_short::<C>(i)).collect::<Vec<_>>());
    let sseed = format!("{seed}:{signers}:{msg}");
    drive::<C>(&mut o, &tag, &ctx, &grp.kps, &grp.pkp, &s, *t, &m, &sseed);
    o
}

/// key material after share maintenance: dealer refresh / distributed refresh among the LAST t + extra
/// holders, or repair of the last participant by the first t. Returns (key packages, public package, members).
#[allow(clippy::type_complexity)]
pub fn maintained<C: Suite>(grp: &Grp<C>, kind: &str, extra: u16, seed: &str) -> Result<(BTreeMap<Id<C>, KeyPackage<C>>, PublicKeyPackage<C>, Vec<Id<C>>), String> {
    use super::c10::{Node, refresh_dealer, refresh_dkg};
    let t = &grp.t;
    let root = Node { t: *t, kps: grp.kps.clone(), pkp: grp.pkp.clone(), prev: None };
    // the holders that remain are the LAST t + extra (identifiers above 1)
    let r = (*t + extra) as usize;
    let members: Vec<Id<C>> = grp.ids[grp.ids.len() - r..].to_vec();
    match kind {
        "refresh-dealer" => refresh_dealer::<C>(&root, &members, seed).map(|nd| (nd.kps, nd.pkp, members.clone())),
        "refresh-dkg" => refresh_dkg::<C>(&root, &members, seed, *t).map(|nd| (nd.kps, nd.pkp, members.clone())),
        // an ATTEMPT to lower the threshold by running the distributed refresh with t - 1 while holding the
        // pre-3.0 public key package (no threshold in it); Err is the expected (correct) outcome
        // an honest distributed refresh (same threshold) by participants holding the pre-3.0 public key package
        "refresh-dkg-from-legacy" => {
            let legacy = Node { t: *t, kps: grp.kps.clone(), pkp: PublicKeyPackage::<C>::new(grp.pkp.verifying_shares().clone(), *grp.pkp.verifying_key(), None), prev: None };
            refresh_dkg::<C>(&legacy, &members, seed, *t).map(|nd| (nd.kps, nd.pkp, members.clone()))
        }
        "refresh-dkg-lowered-legacy" => {
            let legacy = Node { t: *t, kps: grp.kps.clone(), pkp: PublicKeyPackage::<C>::new(grp.pkp.verifying_shares().clone(), *grp.pkp.verifying_key(), None), prev: None };
            refresh_dkg::<C>(&legacy, &members, seed, *t - 1).map(|nd| (nd.kps, nd.pkp, members.clone()))
        }
        _ => {
            // the last participant loses its package; exactly t helpers (the first t) repair it
            let target = *grp.ids.last().unwrap();
            let helpers: Vec<Id<C>> = grp.ids[..*t as usize].to_vec();
            let mut per_helper: BTreeMap<Id<C>, Vec<_>> = BTreeMap::new();
            let mut err = None;
            for h in &helpers {
                let mut rng = crate::rng::ScriptedRng::ctr(format!("c03-repair:{seed}:{}", id_hex::<C>(h)));
                match C::w_repair1(&helpers, &grp.kps[h], &mut rng, target) {
                    Ok(d) => {
                        for (to, delta) in d {
                            per_helper.entry(to).or_default().push(delta);
                        }
                    }
                    Err(e) => err = Some(format!("repair_share_part1: {e:?}")),
                }
            }
            match err {
                Some(e) => Err(e),
                None => {
                    let sigmas: Vec<_> = helpers.iter().map(|h| C::w_repair2(&per_helper[h])).collect();
                    C::w_repair3(&sigmas, target, &grp.pkp).map_err(|e| format!("repair_share_part3: {e:?}")).map(|kp| {
                        let mut kps = grp.kps.clone();
                        kps.insert(target, kp);
                        (kps, grp.pkp.clone(), grp.ids.clone())
                    })
                }
            }
        }
    }
}

/// refresh / repair among t + extra holders, then the same drive on the maintained packages
fn run_maintained<C: Suite>(c: &Case) -> Outcome {
    let mut o = Outcome::new();
    let Case::Maintained { n, t, kind, extra, signers, seed, .. } = c else { unreachable!() };
    let tag = format!("C03/{}", C::name());
    let grp = match cached_group::<C>(KeySrc::Dealer, *n, *t, IdKind::Seq, seed) {
        Ok(g) => g,
        Err(e) => {
            o.eval(false);
            o.fail(format!("{tag}/setup"), e);
            return o;
        }
    };
    let r = (*t + *extra) as usize;
    let made = maintained::<C>(&grp, kind, *extra, seed);
    let (kps, pkp, ids) = match made {
        Ok(x) => x,
        Err(_) if kind == "refresh-dkg-lowered-legacy" => {
            // refused, as it must be: nothing to drive
            o.eval(true);
            o.count("lowered_refresh_refused", 1);
            return o;
        }
        Err(e) => {
            o.eval(false);
            o.fail(format!("{tag}/{kind}-failed"), format!("n={n} t={t} holders={r}: {e}"));
            return o;
        }
    };
    o.count("maintained_groups", 1);
    // with repair, the signer sets always include the repaired participant (the last identifier)
    let mut s = pick::<C>(&ids, *signers);
    if kind == "repair" {
        let target = *ids.last().unwrap();
        if !s.contains(&target) {
            s.pop();
            s.push(target);
            s.sort();
            s.dedup();
        }
    }
    let ctx = format!("n={n} t={t} after {kind} among {r} S={:?}", s.iter().map(|i| id_short::<C>(i)).collect::<Vec<_>>());
    let sseed = format!("{seed}:{kind}:{extra}:{signers}");
    drive::<C>(&mut o, &tag, &ctx, &kps, &pkp, &s, *t, &message(2), &sseed);
    o
}

#[allow(clippy::too_many_arguments)]
fn drive<C: Suite>(o: &mut Outcome, tag: &str, ctx: &str, kps_all: &BTreeMap<Id<C>, KeyPackage<C>>, pkp_all: &PublicKeyPackage<C>, s: &[Id<C>], t: u16, m: &[u8], sseed: &str) {
    struct G2<'a, C: Suite> {
        kps: &'a BTreeMap<Id<C>, KeyPackage<C>>,
        pkp: &'a PublicKeyPackage<C>,
    }
    let grp = G2::<C> { kps: kps_all, pkp: pkp_all };
    let t = &t;
    let s = s.to_vec();
    let m = m.to_vec();
    let k = s.len() as u16;
    if k == *t {
        // positive control: exactly t sign, aggregate, reconstruct
        o.eval(true);
        o.count("positive_controls", 1);
        super::c01::session_check::<C>(o, &tag, &grp.kps, &grp.pkp, &s, &m, &sseed);
        let kps: Vec<_> = s.iter().map(|i| grp.kps[i].clone()).collect();
        match C::w_reconstruct(&kps) {
            Ok(key) => {
                if gen_mul::<C>(key.to_scalar()) != grp.pkp.verifying_key().to_element() {
                    o.fail(format!("{tag}/reconstruct-t-wrong"), format!("{ctx}: t shares reconstruct a key that does not match the group key"));
                }
            }
            Err(e) => o.fail(format!("{tag}/reconstruct-t-failed"), format!("{ctx}: {e:?}")),
        }
        return;
    }
    o.eval(true);
    o.count("below_threshold_sets", 1);
    let (nonces, comms) = commit_all::<C>(&grp.kps, &s, &sseed);
    let pkg = SigningPackage::<C>::new(comms, &m);
    // (a) honest signers refuse
    for id in &s {
        if let Ok(_) = C::w_sign(&pkg, &nonces[id], &grp.kps[id]) {
            o.fail(format!("{tag}/signer-did-not-refuse"), format!("{ctx}: honest signer {} signed a package with {k} < {t} participants", id_short::<C>(id)));
        }
    }
    // lying signers: min_signers lowered to |S| (if |S| = 1 the library's own minimum is irrelevant here)
    let mut shares = BTreeMap::new();
    let mut lying_kps = vec![];
    for id in &s {
        let lk = with_min::<C>(&grp.kps[id], k);
        match C::w_sign(&pkg, &nonces[id], &lk) {
            Ok(sh) => {
                shares.insert(*id, sh);
            }
            Err(e) => {
                o.fail(format!("{tag}/MACHINERY-lying-signer-failed"), format!("{ctx}: {e:?}"));
                return;
            }
        }
        lying_kps.push(lk);
    }
    o.count("lying_signs_ok", 1);
    // (a') coordinator with the honest public key package refuses, naming nobody, identically
    // whether the shares are "correct" or one is corrupted
    let mut corrupted = shares.clone();
    let first = s[0];
    corrupted.insert(first, share_from_scalar::<C>(share_scalar::<C>(&shares[&first]) + one::<C>()));
    for (mn, mode) in [("Disabled", 0), ("FirstCheater", 1), ("AllCheaters", 2)] {
        let md = || match mode {
            0 => CheaterDetection::Disabled,
            1 => CheaterDetection::FirstCheater,
            _ => CheaterDetection::AllCheaters,
        };
        let r1 = C::w_aggregate_custom(&pkg, &shares, &grp.pkp, md());
        let r2 = C::w_aggregate_custom(&pkg, &corrupted, &grp.pkp, md());
        match (&r1, &r2) {
            (Err(e1), Err(e2)) => {
                // a refusal, not a failed verification: the error says so, in every mode
                if !matches!(e1, fc::Error::IncorrectNumberOfShares) {
                    o.fail(
                        format!("{tag}/coordinator-did-not-refuse-upfront"),
                        format!("{ctx} mode={mn}: with {k} < {t} shares the coordinator must refuse with IncorrectNumberOfShares; got {e1:?}"),
                    );
                }
                if !e1.culprits().is_empty() || !e2.culprits().is_empty() || e1 != e2 {
                    o.fail(
                        format!("{tag}/coordinator-did-not-refuse-upfront"),
                        format!("{ctx} mode={mn}: with {k} < {t} shares the coordinator must refuse outright (same culprit-free error with and without a corrupted share); got {e1:?} / {e2:?}"),
                    );
                }
                o.class("refused");
            }
            _ => {
                o.fail(format!("{tag}/aggregated-below-threshold"), format!("{ctx} mode={mn}: aggregate with honest public key package returned {} / {}", err_sig(&r1), err_sig(&r2)));
            }
        }
        // plain aggregate too
        if mode == 1 {
            if let Ok(_) = C::w_aggregate(&pkg, &shares, &grp.pkp) {
                o.fail(format!("{tag}/aggregated-below-threshold"), format!("{ctx}: aggregate() returned Ok"));
            }
        }
        // (b) lying coordinator: lowered / absent threshold in the public key package: never Ok
        for (pn, pm) in [("lowered", Some(k)), ("absent", None)] {
            let lp = PublicKeyPackage::<C>::new(grp.pkp.verifying_shares().clone(), *grp.pkp.verifying_key(), pm);
            let r = C::w_aggregate_custom(&pkg, &shares, &lp, md());
            if let Ok(sig) = &r {
                let v = grp.pkp.verifying_key().verify(&m, sig).is_ok();
                o.fail(
                    format!("{tag}/below-threshold-signature-released"),
                    format!("{ctx} mode={mn} pkp-threshold={pn}: aggregate returned Ok (verifies under group key: {v})"),
                );
            } else {
                o.class("lying-rejected");
            }
        }
    }
    // hand-assembled (R, sum z) must not verify
    if let Ok(bfl) = fc::compute_binding_factor_list(&pkg, grp.pkp.verifying_key(), &[]) {
        if let Ok(gc) = fc::compute_group_commitment(&pkg, &bfl) {
            let mut z = zero::<C>();
            for sh in shares.values() {
                z = z + share_scalar::<C>(sh);
            }
            let r_el = gc.to_element();
            for r_try in [r_el, G::<C>::identity() - r_el] {
                let sig = fc::Signature::<C>::new(r_try, z);
                let lib = grp.pkp.verifying_key().verify(&m, &sig).is_ok();
                let ext = match (sig.serialize(), grp.pkp.verifying_key().serialize()) {
                    (Ok(sb), Ok(vkb)) => C::ext_verify(&vkb, &m, &sb),
                    _ => false,
                };
                if lib || ext {
                    o.fail(format!("{tag}/below-threshold-forgery-verifies"), format!("{ctx}: hand-assembled signature verifies (lib={lib} ext={ext})"));
                }
            }
            o.count("hand_assembled_rejected", 1);
        }
    }
    // (c) reconstruct: honest packages refuse; lying packages yield another key
    let hk: Vec<_> = s.iter().map(|i| grp.kps[i].clone()).collect();
    if let Ok(_) = C::w_reconstruct(&hk) {
        o.fail(format!("{tag}/reconstruct-did-not-refuse"), format!("{ctx}: reconstruct accepted {k} < {t} honest packages"));
    }
    match C::w_reconstruct(&lying_kps) {
        Ok(key) => {
            if gen_mul::<C>(key.clone().to_scalar()) == grp.pkp.verifying_key().to_element() {
                o.fail(format!("{tag}/below-threshold-reconstructs-key"), format!("{ctx}: {k} < {t} shares reconstruct the group key"));
            }
        }
        Err(_) => {}
    }
    rr_drive::<C>(o, tag, ctx, kps_all, pkp_all, &s, *t, &m, sseed, &pkg, &nonces);
}

/// the re-randomized entry points must refuse exactly like the plain ones
#[allow(clippy::too_many_arguments)]
fn rr_drive<C: Suite>(
    o: &mut Outcome,
    tag: &str,
    ctx: &str,
    kps: &BTreeMap<Id<C>, KeyPackage<C>>,
    pkp: &PublicKeyPackage<C>,
    s: &[Id<C>],
    t: u16,
    m: &[u8],
    sseed: &str,
    pkg: &SigningPackage<C>,
    nonces: &BTreeMap<Id<C>, fc::round1::SigningNonces<C>>,
) {
    use frost_rerandomized::RandomizedParams;
    let k = s.len() as u16;
    let mut rng = crate::rng::ScriptedRng::ctr(format!("c03-rr:{sseed}"));
    let Ok((params, seed)) = RandomizedParams::<C>::new_from_commitments(pkp.verifying_key(), pkg.signing_commitments(), &mut rng) else {
        o.fail(format!("{tag}/rr-params-failed"), ctx.to_string());
        return;
    };
    o.count("rr_below_threshold_sets", 1);
    for id in s {
        if C::w_rr_sign(pkg, &nonces[id], &kps[id], &seed).is_ok() {
            o.fail(format!("{tag}/rr-signer-did-not-refuse"), format!("{ctx}: sign_with_randomizer_seed signed a package with {k} < {t} participants for {}", id_short::<C>(id)));
        }
        #[allow(deprecated)]
        if frost_rerandomized::sign(pkg, &nonces[id], &kps[id], *params.randomizer()).is_ok() {
            o.fail(format!("{tag}/rr-signer-did-not-refuse"), format!("{ctx}: rerandomized sign() signed a package with {k} < {t} participants for {}", id_short::<C>(id)));
        }
    }
    // lying signers, honest coordinator (and lying coordinator): nothing that verifies under the randomized key
    let mut shares = BTreeMap::new();
    for id in s {
        match C::w_rr_sign(pkg, &nonces[id], &with_min::<C>(&kps[id], k), &seed) {
            Ok(sh) => {
                shares.insert(*id, sh);
            }
            Err(e) => {
                o.fail(format!("{tag}/MACHINERY-lying-rr-signer-failed"), format!("{ctx}: {e:?}"));
                return;
            }
        }
    }
    if let Ok(_) = C::w_rr_aggregate(pkg, &shares, pkp, &params) {
        o.fail(format!("{tag}/rr-aggregated-below-threshold"), format!("{ctx}: rerandomized aggregate() returned Ok for {k} < {t} shares"));
    }
    for pm in [Some(k), None] {
        let lp = PublicKeyPackage::<C>::new(pkp.verifying_shares().clone(), *pkp.verifying_key(), pm);
        for cd in [CheaterDetection::Disabled, CheaterDetection::FirstCheater] {
            if let Ok(sig) = C::w_rr_aggregate_custom(pkg, &shares, &lp, cd, &params) {
                let v = params.randomized_verifying_key().verify(m, &sig).is_ok();
                o.fail(format!("{tag}/rr-below-threshold-signature-released"), format!("{ctx} pkp-threshold={pm:?}: rerandomized aggregate returned Ok (verifies under randomized key: {v})"));
            }
        }
    }
}

fn run_tiny<const Q: u64>(c: &Case) -> Outcome {
    let mut o = Outcome::new();
    let Case::TinySecrecy { n, t, .. } = c else { unreachable!() };
    type T<const Q: u64> = Tiny<Q>;
    let tag = format!("C03/tiny{Q}");
    let ids: Vec<Identifier<T<Q>>> = (1..=*n).map(|i| Identifier::<T<Q>>::try_from(i).unwrap()).collect();
    // counts[(subset mask, share vector)][secret] = number of polynomials
    let mut counts: BTreeMap<(u32, Vec<u64>), BTreeMap<u64, u64>> = BTreeMap::new();
    let subs = subsets(*n as usize, *t as usize - 1, *t as usize - 1);
    for poly in product(Q as usize, *t as usize) {
        if poly[0] == 0 {
            continue;
        }
        let key = SigningKey::<T<Q>>::from_scalar(Sc::<Q>(poly[0] as u64)).unwrap();
        let mut rng = crate::rng::ScriptedRng::ctr("unused");
        for (k, cf) in poly.iter().skip(1).enumerate() {
            rng = rng.with_dev(k, crate::rng::Dev::Bytes((*cf as u32).to_le_bytes().to_vec()));
        }
        let (shares, _pkp) = match fc::keys::split(&key, *n, *t, IdentifierList::Default, &mut rng) {
            Ok(x) => x,
            Err(e) => {
                o.fail(format!("{tag}/split-failed"), format!("{e:?}"));
                continue;
            }
        };
        o.eval(true);
        let vals: Vec<u64> = ids.iter().map(|i| shares[i].signing_share().to_scalar().0).collect();
        for sm in &subs {
            let v: Vec<u64> = mask_indices(*sm).iter().map(|i| vals[*i]).collect();
            *counts.entry((*sm, v)).or_default().entry(poly[0] as u64).or_insert(0) += 1;
        }
    }
    // every (t-1)-subset share vector must be compatible with every non-zero secret exactly once
    let expected_vectors = (Q as u64).pow(*t as u32 - 1);
    for sm in &subs {
        let nv = counts.keys().filter(|(m, _)| m == sm).count() as u64;
        if nv != expected_vectors {
            o.fail(
                format!("{tag}/secrecy-share-vectors-missing"),
                format!("n={n} t={t} subset={sm:b}: {nv} distinct share vectors, expected {expected_vectors} (polynomial has fewer free coefficients than t-1)"),
            );
        }
    }
    for ((sm, v), per_secret) in &counts {
        o.count("secrecy_classes", 1);
        let ok = per_secret.len() as u64 == Q - 1 && per_secret.values().all(|c| *c == 1);
        if !ok {
            o.fail(
                format!("{tag}/secrecy-count-uneven"),
                format!("n={n} t={t} subset={sm:b} shares={v:?}: secrets occur {per_secret:?}, expected every non-zero secret exactly once"),
            );
            break;
        }
    }
    o.class("secrecy");
    o
}
