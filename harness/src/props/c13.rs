//! C13 — protocol state saved between rounds resumes to the identical outcome.
//! E3 crash-mask enumeration: at every round boundary of every participant the state may be
//! encoded, dropped and decoded ("crash + restart"); every later output must be byte-identical
//! to the uninterrupted run.

use crate::rng::ScriptedRng;
use crate::runner::{Outcome, Prop, Tier};
use crate::suites::{Id, REAL_SUITES, Suite};
use crate::util::*;
use crate::with_suite;
use frost_core as fc;
use frost_core::keys::dkg::{round1 as d1, round2 as d2};
use frost_core::keys::repairable::{Delta, Sigma};
use frost_core::keys::{KeyPackage, PublicKeyPackage, SecretShare};
use frost_core::round1::{SigningCommitments, SigningNonces};
use frost_core::round2::SignatureShare;
use frost_core::{Identifier, SigningPackage};
use serde::de::DeserializeOwned;
use serde::{Deserialize, Serialize};
use serde_json::Value;
use std::collections::BTreeMap;

pub struct C13;

#[derive(Serialize, Deserialize, Clone, Copy, Debug, PartialEq, Eq)]
pub enum Proto {
    DkgThenSign,
    RefreshDkgThenSign,
    DealerRefreshThenSign,
    PreprocessedSign,
    RepairThenSign,
    /// large threshold (t = n = 72): the round-one secret package is several kilobytes; only the
    /// first participant's part two is run
    LargeDkgPart2,
    LargeRefreshPart2,
    /// the restart is a REAL one: every stored type, written by this (long-lived, multi-suite) process, is
    /// loaded by a freshly started process that has only ever seen this suite, and the other way round
    CrossProcess,
}
#[derive(Serialize, Deserialize, Clone, Copy, Debug, PartialEq, Eq)]
pub enum Fmt {
    /// the type's own serialize()/deserialize() (postcard)
    Postcard,
    /// serde_json
    Json,
    /// component-wise through getters, the primitives' own encodings, serialize_whole /
    /// deserialize_whole for commitments and the public `new` constructors (the documented
    /// "custom serialization" route)
    Fields,
}

#[derive(Serialize, Deserialize, Clone, Debug)]
struct Case {
    suite: String,
    proto: Proto,
    n: u16,
    t: u16,
    fmt: Fmt,
    /// indices of the boundaries (in execution order) at which the state is saved, dropped and restored
    crashes: Vec<usize>,
    seed: String,
}

/// The checkpointing environment.
struct Env {
    fmt: Fmt,
    crash_at: Vec<usize>,
    labels: Vec<String>,
    transcript: Vec<(String, Vec<u8>)>,
    errors: Vec<String>,
    restored: u64,
}
impl Env {
    fn new(fmt: Fmt, crash_at: &[usize]) -> Self {
        Env { fmt, crash_at: crash_at.to_vec(), labels: vec![], transcript: vec![], errors: vec![], restored: 0 }
    }
    /// A round boundary: the value may be persisted and restored here.
    fn pass<T: Persist>(&mut self, label: String, v: T) -> T {
        let idx = self.labels.len();
        self.labels.push(label.clone());
        if !self.crash_at.contains(&idx) {
            return v;
        }
        let restored: Result<T, String> = v.save(self.fmt).map_err(|e| format!("encode: {e}")).and_then(|b| {
            drop(v);
            T::check_header(&b, self.fmt).map_err(|e| format!("header: {e}"))?;
            T::load(&b, self.fmt).map_err(|e| format!("decode: {e}"))
        });
        match restored {
            Ok(x) => {
                self.restored += 1;
                x
            }
            Err(e) => {
                self.errors.push(format!("state '{label}' cannot be saved and restored: {e}"));
                panic!("C13-restore-failed: {label}: {e}");
            }
        }
    }
    fn out<T: Serialize>(&mut self, label: String, v: &T) {
        match postcard::to_allocvec(v) {
            Ok(b) => self.transcript.push((label, b)),
            Err(e) => self.transcript.push((label, format!("<unencodable: {e}>").into_bytes())),
        }
    }
}

/// How a value is written to and read back from storage in each format.
pub trait Persist: Sized {
    fn save(&self, fmt: Fmt) -> Result<Vec<u8>, String>;
    fn load(b: &[u8], fmt: Fmt) -> Result<Self, String>;
    /// What was written must be readable by ANOTHER process of this ciphersuite (the one that resumes):
    /// types with a serialization header must carry version 0 and this suite's identifier, computed here
    /// independently (CRC-32 of the ID in the binary form, the ID string in JSON).
    fn check_header(_b: &[u8], _fmt: Fmt) -> Result<(), String> {
        Ok(())
    }
}
fn hdr_check<C: Suite>(b: &[u8], fmt: Fmt) -> Result<(), String> {
    match fmt {
        Fmt::Postcard => {
            let own = crate::corpus::crc32(C::ID.as_bytes()).to_be_bytes();
            if b.len() < 5 || b[0] != 0 || b[1..5] != own {
                return Err(format!("binary state starts with {} instead of version 0 + CRC-32 of '{}' ({}): a restarted process of this ciphersuite cannot read it", hex::encode(&b[..std::cmp::min(5, b.len())]), C::ID, hex::encode(own)));
            }
            Ok(())
        }
        Fmt::Json => {
            let v: serde_json::Value = serde_json::from_slice(b).map_err(es)?;
            let h = &v["header"];
            if h["version"] != serde_json::json!(0) || h["ciphersuite"] != serde_json::json!(C::ID) {
                return Err(format!("JSON state carries header {h} instead of version 0 / '{}'", C::ID));
            }
            Ok(())
        }
        Fmt::Fields => Ok(()),
    }
}
fn es<E: std::fmt::Debug>(e: E) -> String {
    format!("{e:?}")
}
/// A stored JSON document is read back three ways - from memory, through a reader (a file) and
/// through a parsed `Value` - all must succeed (and they decode the same bytes).
fn json_load<T: DeserializeOwned>(b: &[u8]) -> Result<T, String> {
    let a: T = serde_json::from_slice(b).map_err(|e| format!("from_slice: {e}"))?;
    let _r: T = serde_json::from_reader(std::io::Cursor::new(b.to_vec())).map_err(|e| format!("from_reader (state read back from a file): {e}"))?;
    let v: serde_json::Value = serde_json::from_slice(b).map_err(es)?;
    let _v: T = serde_json::from_value(v).map_err(|e| format!("from_value: {e}"))?;
    Ok(a)
}
fn fields_enc(v: &Vec<Vec<u8>>) -> Result<Vec<u8>, String> {
    postcard::to_allocvec(v).map_err(es)
}
fn fields_dec(b: &[u8], n: usize) -> Result<Vec<Vec<u8>>, String> {
    let v: Vec<Vec<u8>> = postcard::from_bytes(b).map_err(es)?;
    if v.len() != n { Err(format!("{} fields, expected {n}", v.len())) } else { Ok(v) }
}
fn u16f(b: &[u8]) -> Result<u16, String> {
    Ok(u16::from_be_bytes(b.try_into().map_err(|_| "u16".to_string())?))
}
/// types with their own serialize()/deserialize() and serde: Postcard uses the former
macro_rules! persist_own {
    ($ty:ty) => {
        impl<C: Suite> Persist for $ty {
            fn check_header(b: &[u8], fmt: Fmt) -> Result<(), String> {
                // own serialize() is used for Postcard AND Fields here
                hdr_check::<C>(b, if fmt == Fmt::Fields { Fmt::Postcard } else { fmt })
            }
            fn save(&self, fmt: Fmt) -> Result<Vec<u8>, String> {
                match fmt {
                    Fmt::Json => serde_json::to_vec(self).map_err(es),
                    _ => self.serialize().map_err(es),
                }
            }
            fn load(b: &[u8], fmt: Fmt) -> Result<Self, String> {
                match fmt {
                    Fmt::Json => json_load(b),
                    _ => <$ty>::deserialize(b).map_err(es),
                }
            }
        }
    };
}
persist_own!(d1::Package<C>);
persist_own!(d2::Package<C>);
persist_own!(SigningCommitments<C>);
persist_own!(SigningPackage<C>);

impl<C: Suite> Persist for d1::SecretPackage<C> {
    // (the DKG secret packages are stored without a serialization header)
    fn save(&self, fmt: Fmt) -> Result<Vec<u8>, String> {
        match fmt {
            Fmt::Json => serde_json::to_vec(self).map_err(es),
            Fmt::Postcard => self.serialize().map_err(es),
            Fmt::Fields => {
                let coeffs: Vec<u8> = self.coefficients().iter().flat_map(|c| sc_bytes::<C>(c)).collect();
                fields_enc(&vec![self.identifier().serialize(), coeffs, self.commitment().serialize_whole().map_err(es)?, self.min_signers().to_be_bytes().to_vec(), self.max_signers().to_be_bytes().to_vec()])
            }
        }
    }
    fn load(b: &[u8], fmt: Fmt) -> Result<Self, String> {
        match fmt {
            Fmt::Json => json_load(b),
            Fmt::Postcard => Self::deserialize(b).map_err(es),
            Fmt::Fields => {
                let f = fields_dec(b, 5)?;
                let l = sc_bytes::<C>(&zero::<C>()).len();
                let coeffs: Option<Vec<_>> = f[1].chunks(l).map(|c| sc_from_bytes::<C>(c)).collect();
                Ok(d1::SecretPackage::new(
                    Identifier::<C>::deserialize(&f[0]).map_err(es)?,
                    coeffs.ok_or("coefficient")?,
                    fc::keys::VerifiableSecretSharingCommitment::<C>::deserialize_whole(&f[2]).map_err(es)?,
                    u16f(&f[3])?,
                    u16f(&f[4])?,
                ))
            }
        }
    }
}
impl<C: Suite> Persist for d2::SecretPackage<C> {
    // (the DKG secret packages are stored without a serialization header)
    fn save(&self, fmt: Fmt) -> Result<Vec<u8>, String> {
        match fmt {
            Fmt::Json => serde_json::to_vec(self).map_err(es),
            Fmt::Postcard => self.serialize().map_err(es),
            Fmt::Fields => fields_enc(&vec![self.identifier().serialize(), self.commitment().serialize_whole().map_err(es)?, sc_bytes::<C>(&self.secret_share()), self.min_signers().to_be_bytes().to_vec(), self.max_signers().to_be_bytes().to_vec()]),
        }
    }
    fn load(b: &[u8], fmt: Fmt) -> Result<Self, String> {
        match fmt {
            Fmt::Json => json_load(b),
            Fmt::Postcard => Self::deserialize(b).map_err(es),
            Fmt::Fields => {
                let f = fields_dec(b, 5)?;
                Ok(d2::SecretPackage::new(
                    Identifier::<C>::deserialize(&f[0]).map_err(es)?,
                    fc::keys::VerifiableSecretSharingCommitment::<C>::deserialize_whole(&f[1]).map_err(es)?,
                    sc_from_bytes::<C>(&f[2]).ok_or("share")?,
                    u16f(&f[3])?,
                    u16f(&f[4])?,
                ))
            }
        }
    }
}
impl<C: Suite> Persist for SecretShare<C> {
    fn check_header(b: &[u8], fmt: Fmt) -> Result<(), String> {
        hdr_check::<C>(b, fmt)
    }
    fn save(&self, fmt: Fmt) -> Result<Vec<u8>, String> {
        match fmt {
            Fmt::Json => serde_json::to_vec(self).map_err(es),
            Fmt::Postcard => self.serialize().map_err(es),
            Fmt::Fields => fields_enc(&vec![self.identifier().serialize(), self.signing_share().serialize(), self.commitment().serialize_whole().map_err(es)?]),
        }
    }
    fn load(b: &[u8], fmt: Fmt) -> Result<Self, String> {
        match fmt {
            Fmt::Json => json_load(b),
            Fmt::Postcard => Self::deserialize(b).map_err(es),
            Fmt::Fields => {
                let f = fields_dec(b, 3)?;
                Ok(SecretShare::new(
                    Identifier::<C>::deserialize(&f[0]).map_err(es)?,
                    fc::keys::SigningShare::<C>::deserialize(&f[1]).map_err(es)?,
                    fc::keys::VerifiableSecretSharingCommitment::<C>::deserialize_whole(&f[2]).map_err(es)?,
                ))
            }
        }
    }
}
impl<C: Suite> Persist for KeyPackage<C> {
    fn check_header(b: &[u8], fmt: Fmt) -> Result<(), String> {
        hdr_check::<C>(b, fmt)
    }
    fn save(&self, fmt: Fmt) -> Result<Vec<u8>, String> {
        match fmt {
            Fmt::Json => serde_json::to_vec(self).map_err(es),
            Fmt::Postcard => self.serialize().map_err(es),
            Fmt::Fields => fields_enc(&vec![self.identifier().serialize(), self.signing_share().serialize(), self.verifying_share().serialize().map_err(es)?, self.verifying_key().serialize().map_err(es)?, self.min_signers().to_be_bytes().to_vec()]),
        }
    }
    fn load(b: &[u8], fmt: Fmt) -> Result<Self, String> {
        match fmt {
            Fmt::Json => json_load(b),
            Fmt::Postcard => Self::deserialize(b).map_err(es),
            Fmt::Fields => {
                let f = fields_dec(b, 5)?;
                Ok(KeyPackage::new(
                    Identifier::<C>::deserialize(&f[0]).map_err(es)?,
                    fc::keys::SigningShare::<C>::deserialize(&f[1]).map_err(es)?,
                    fc::keys::VerifyingShare::<C>::deserialize(&f[2]).map_err(es)?,
                    fc::VerifyingKey::<C>::deserialize(&f[3]).map_err(es)?,
                    u16f(&f[4])?,
                ))
            }
        }
    }
}
impl<C: Suite> Persist for PublicKeyPackage<C> {
    fn check_header(b: &[u8], fmt: Fmt) -> Result<(), String> {
        hdr_check::<C>(b, fmt)
    }
    fn save(&self, fmt: Fmt) -> Result<Vec<u8>, String> {
        match fmt {
            Fmt::Json => serde_json::to_vec(self).map_err(es),
            Fmt::Postcard => self.serialize().map_err(es),
            Fmt::Fields => {
                let mut v = vec![self.verifying_key().serialize().map_err(es)?, match self.min_signers() {
                    Some(m) => m.to_be_bytes().to_vec(),
                    None => vec![],
                }];
                for (id, vs) in self.verifying_shares() {
                    v.push(id.serialize());
                    v.push(vs.serialize().map_err(es)?);
                }
                fields_enc(&v)
            }
        }
    }
    fn load(b: &[u8], fmt: Fmt) -> Result<Self, String> {
        match fmt {
            Fmt::Json => json_load(b),
            Fmt::Postcard => Self::deserialize(b).map_err(es),
            Fmt::Fields => {
                let f: Vec<Vec<u8>> = postcard::from_bytes(b).map_err(es)?;
                let mut m = BTreeMap::new();
                for p in f[2..].chunks(2) {
                    m.insert(Identifier::<C>::deserialize(&p[0]).map_err(es)?, fc::keys::VerifyingShare::<C>::deserialize(&p[1]).map_err(es)?);
                }
                Ok(PublicKeyPackage::new(m, fc::VerifyingKey::<C>::deserialize(&f[0]).map_err(es)?, if f[1].is_empty() { None } else { Some(u16f(&f[1])?) }))
            }
        }
    }
}
impl<C: Suite> Persist for SigningNonces<C> {
    fn check_header(b: &[u8], fmt: Fmt) -> Result<(), String> {
        hdr_check::<C>(b, fmt)
    }
    fn save(&self, fmt: Fmt) -> Result<Vec<u8>, String> {
        match fmt {
            Fmt::Json => serde_json::to_vec(self).map_err(es),
            Fmt::Postcard => self.serialize().map_err(es),
            Fmt::Fields => fields_enc(&vec![self.hiding().serialize(), self.binding().serialize()]),
        }
    }
    fn load(b: &[u8], fmt: Fmt) -> Result<Self, String> {
        match fmt {
            Fmt::Json => json_load(b),
            Fmt::Postcard => Self::deserialize(b).map_err(es),
            Fmt::Fields => {
                let f = fields_dec(b, 2)?;
                Ok(SigningNonces::from_nonces(fc::round1::Nonce::<C>::deserialize(&f[0]).map_err(es)?, fc::round1::Nonce::<C>::deserialize(&f[1]).map_err(es)?))
            }
        }
    }
}
/// raw-scalar types: own serialize() (postcard/fields), serde for JSON
macro_rules! persist_scalar {
    ($ty:ty) => {
        impl<C: Suite> Persist for $ty {
            fn save(&self, fmt: Fmt) -> Result<Vec<u8>, String> {
                match fmt {
                    Fmt::Json => serde_json::to_vec(self).map_err(es),
                    _ => Ok(self.serialize()),
                }
            }
            fn load(b: &[u8], fmt: Fmt) -> Result<Self, String> {
                match fmt {
                    Fmt::Json => json_load(b),
                    _ => <$ty>::deserialize(b).map_err(es),
                }
            }
        }
    };
}
persist_scalar!(Delta<C>);
persist_scalar!(Sigma<C>);
impl<C: Suite> Persist for SignatureShare<C> {
    fn check_header(b: &[u8], fmt: Fmt) -> Result<(), String> {
        hdr_check::<C>(b, fmt)
    }
    fn save(&self, fmt: Fmt) -> Result<Vec<u8>, String> {
        match fmt {
            Fmt::Json => serde_json::to_vec(self).map_err(es),
            Fmt::Postcard => postcard::to_allocvec(self).map_err(es),
            Fmt::Fields => Ok(self.serialize()),
        }
    }
    fn load(b: &[u8], fmt: Fmt) -> Result<Self, String> {
        match fmt {
            Fmt::Json => json_load(b),
            Fmt::Postcard => postcard::from_bytes(b).map_err(es),
            Fmt::Fields => SignatureShare::<C>::deserialize(b).map_err(es),
        }
    }
}
impl<T: Persist> Persist for Vec<T> {
    fn save(&self, fmt: Fmt) -> Result<Vec<u8>, String> {
        let v: Result<Vec<Vec<u8>>, String> = self.iter().map(|x| x.save(fmt)).collect();
        fields_enc(&v?)
    }
    fn load(b: &[u8], fmt: Fmt) -> Result<Self, String> {
        let v: Vec<Vec<u8>> = postcard::from_bytes(b).map_err(es)?;
        v.iter().map(|x| T::load(x, fmt)).collect()
    }
}
impl<C: Suite, T: Persist> Persist for BTreeMap<Id<C>, T> {
    fn save(&self, fmt: Fmt) -> Result<Vec<u8>, String> {
        let mut v = vec![];
        for (k, x) in self {
            v.push(k.serialize());
            v.push(x.save(fmt)?);
        }
        fields_enc(&v)
    }
    fn load(b: &[u8], fmt: Fmt) -> Result<Self, String> {
        let v: Vec<Vec<u8>> = postcard::from_bytes(b).map_err(es)?;
        let mut m = BTreeMap::new();
        for p in v.chunks(2) {
            m.insert(Identifier::<C>::deserialize(&p[0]).map_err(es)?, T::load(&p[1], fmt)?);
        }
        Ok(m)
    }
}

fn ids_for<C: Suite>(n: u16) -> Vec<Id<C>> {
    make_ids::<C>(IdKind::U16x, n as usize)
}

fn sign_phase<C: Suite>(env: &mut Env, kps: &BTreeMap<Id<C>, KeyPackage<C>>, pkp: &PublicKeyPackage<C>, t: u16, seed: &str) -> Result<(), String> {
    let signers: Vec<_> = kps.keys().rev().take(t as usize).rev().copied().collect();
    let mut nonces = BTreeMap::new();
    let mut comms = BTreeMap::new();
    for id in &signers {
        let mut rng = ScriptedRng::ctr(format!("c13commit:{seed}:{}", id_hex::<C>(id)));
        let (n, c) = C::w_commit(kps[id].signing_share(), &mut rng);
        let n = env.pass(format!("sign.nonces.{}", id_short::<C>(id)), n);
        let c = env.pass(format!("sign.commitments-in-transit.{}", id_short::<C>(id)), c);
        env.out(format!("commitments.{}", id_short::<C>(id)), &c);
        nonces.insert(*id, n);
        comms.insert(*id, c);
    }
    let pkg = SigningPackage::<C>::new(comms, b"resume me");
    let pkg = env.pass("sign.package-in-transit".to_string(), pkg);
    let mut shares = BTreeMap::new();
    for id in &signers {
        // the key package may be reloaded right before signing
        let kp = env.pass(format!("sign.keypackage.{}", id_short::<C>(id)), kps[id].clone());
        let s = C::w_sign(&pkg, &nonces[id], &kp).map_err(e2s("sign"))?;
        let s = env.pass(format!("sign.share-in-transit.{}", id_short::<C>(id)), s);
        env.out(format!("share.{}", id_short::<C>(id)), &s);
        shares.insert(*id, s);
    }
    let pkp = env.pass("sign.publickeypackage".to_string(), pkp.clone());
    let sig = C::w_aggregate(&pkg, &shares, &pkp).map_err(e2s("aggregate"))?;
    env.out("signature".to_string(), &sig);
    pkp.verifying_key().verify(b"resume me", &sig).map_err(e2s("verify"))?;
    Ok(())
}

fn dkg_like<C: Suite>(env: &mut Env, n: u16, t: u16, seed: &str, refresh: Option<&Grp<C>>) -> Result<(BTreeMap<Id<C>, KeyPackage<C>>, PublicKeyPackage<C>), String> {
    let ids = match refresh {
        Some(g) => g.ids.clone(),
        None => ids_for::<C>(n),
    };
    let pfx = if refresh.is_some() { "refresh" } else { "dkg" };
    let mut sp1 = BTreeMap::new();
    let mut p1 = BTreeMap::new();
    for id in &ids {
        let mut rng = ScriptedRng::ctr(format!("c13dkg:{seed}:{}", id_hex::<C>(id)));
        let (s, p) = match refresh {
            None => C::w_part1(*id, n, t, &mut rng),
            Some(_) => C::w_refresh_dkg_part1(*id, n, t, &mut rng),
        }
        .map_err(e2s("part1"))?;
        let s = env.pass(format!("{pfx}.round1-secret.{}", id_short::<C>(id)), s);
        let p = env.pass(format!("{pfx}.round1-package-in-transit.{}", id_short::<C>(id)), p);
        env.out(format!("{pfx}.round1-package.{}", id_short::<C>(id)), &p);
        sp1.insert(*id, s);
        p1.insert(*id, p);
    }
    let mut sp2 = BTreeMap::new();
    let mut p2: BTreeMap<Id<C>, BTreeMap<Id<C>, d2::Package<C>>> = BTreeMap::new();
    for id in &ids {
        let r1 = others::<C, _>(&p1, id);
        let (s, p) = match refresh {
            None => C::w_part2(sp1[id].clone(), &r1),
            Some(_) => C::w_refresh_dkg_part2(sp1[id].clone(), &r1),
        }
        .map_err(e2s("part2"))?;
        let s = env.pass(format!("{pfx}.round2-secret.{}", id_short::<C>(id)), s);
        let p = env.pass(format!("{pfx}.round2-packages-in-transit.{}", id_short::<C>(id)), p);
        env.out(format!("{pfx}.round2-packages.{}", id_short::<C>(id)), &p);
        sp2.insert(*id, s);
        p2.insert(*id, p);
    }
    let mut kps = BTreeMap::new();
    let mut pkp0 = None;
    for id in &ids {
        let r1 = others::<C, _>(&p1, id);
        let mut r2 = BTreeMap::new();
        for (s, m) in &p2 {
            if s != id {
                r2.insert(*s, m[id].clone());
            }
        }
        let (kp, pkp) = match refresh {
            None => C::w_part3(&sp2[id], &r1, &r2),
            Some(g) => {
                let okp = env.pass(format!("{pfx}.old-keypackage.{}", id_short::<C>(id)), g.kps[id].clone());
                let opkp = env.pass(format!("{pfx}.old-publickeypackage.{}", id_short::<C>(id)), g.pkp.clone());
                C::w_refresh_dkg_shares(&sp2[id], &r1, &r2, opkp, okp)
            }
        }
        .map_err(e2s("part3"))?;
        let kp = env.pass(format!("{pfx}.keypackage.{}", id_short::<C>(id)), kp);
        let pkp = env.pass(format!("{pfx}.publickeypackage.{}", id_short::<C>(id)), pkp);
        env.out(format!("{pfx}.keypackage.{}", id_short::<C>(id)), &kp);
        env.out(format!("{pfx}.publickeypackage.{}", id_short::<C>(id)), &pkp);
        kps.insert(*id, kp);
        pkp0 = Some(pkp);
    }
    Ok((kps, pkp0.unwrap()))
}

fn run_proto<C: Suite>(env: &mut Env, proto: Proto, n: u16, t: u16, seed: &str) -> Result<(), String> {
    match proto {
        Proto::DkgThenSign => {
            let (kps, pkp) = dkg_like::<C>(env, n, t, seed, None)?;
            sign_phase::<C>(env, &kps, &pkp, t, seed)
        }
        Proto::RefreshDkgThenSign => {
            let g = make_group::<C>(KeySrc::Dealer, n, t, IdKind::U16x, seed)?;
            let (kps, pkp) = dkg_like::<C>(env, n, t, seed, Some(&g))?;
            sign_phase::<C>(env, &kps, &pkp, t, seed)
        }
        Proto::DealerRefreshThenSign => {
            let g = make_group::<C>(KeySrc::Dealer, n, t, IdKind::U16x, seed)?;
            let mut rng = ScriptedRng::ctr(format!("c13refresh:{seed}"));
            let opkp = env.pass("refresh.dealer-publickeypackage".to_string(), g.pkp.clone());
            let (shares, npkp) = C::w_compute_refreshing_shares(opkp, &g.ids, &mut rng).map_err(e2s("refreshing shares"))?;
            let npkp = env.pass("refresh.new-publickeypackage".to_string(), npkp);
            env.out("refresh.new-publickeypackage".to_string(), &npkp);
            let mut kps = BTreeMap::new();
            for (id, sh) in g.ids.iter().zip(shares) {
                let sh = env.pass(format!("refresh.share-in-transit.{}", id_short::<C>(id)), sh);
                env.out(format!("refresh.share.{}", id_short::<C>(id)), &sh);
                let okp = env.pass(format!("refresh.old-keypackage.{}", id_short::<C>(id)), g.kps[id].clone());
                let kp = C::w_refresh_share(sh, &okp).map_err(e2s("refresh_share"))?;
                let kp = env.pass(format!("refresh.keypackage.{}", id_short::<C>(id)), kp);
                env.out(format!("refresh.keypackage.{}", id_short::<C>(id)), &kp);
                kps.insert(*id, kp);
            }
            sign_phase::<C>(env, &kps, &npkp, t, seed)
        }
        Proto::PreprocessedSign => {
            let g = make_group::<C>(KeySrc::Dealer, n, t, IdKind::U16x, seed)?;
            let signers: Vec<_> = g.ids.iter().take(t as usize).copied().collect();
            let mut nonces = BTreeMap::new();
            let mut comms = BTreeMap::new();
            for id in &signers {
                let mut rng = ScriptedRng::ctr(format!("c13pre:{seed}:{}", id_hex::<C>(id)));
                let (ns, cs) = fc::round1::preprocess::<C, _>(3, g.kps[id].signing_share(), &mut rng);
                // the whole batch is stored, the second pair is used
                let ns = env.pass(format!("preprocess.nonce-batch.{}", id_short::<C>(id)), ns);
                let cs = env.pass(format!("preprocess.commitment-batch-in-transit.{}", id_short::<C>(id)), cs);
                env.out(format!("preprocess.commitments.{}", id_short::<C>(id)), &cs);
                nonces.insert(*id, ns[1].clone());
                comms.insert(*id, cs[1]);
            }
            let pkg = env.pass("sign.package-in-transit".to_string(), SigningPackage::<C>::new(comms, b"resume me"));
            let mut shares = BTreeMap::new();
            for id in &signers {
                let n1 = env.pass(format!("sign.nonces.{}", id_short::<C>(id)), nonces[id].clone());
                let kp = env.pass(format!("sign.keypackage.{}", id_short::<C>(id)), g.kps[id].clone());
                let s = C::w_sign(&pkg, &n1, &kp).map_err(e2s("sign"))?;
                env.out(format!("share.{}", id_short::<C>(id)), &s);
                shares.insert(*id, s);
            }
            let sig = C::w_aggregate(&pkg, &shares, &g.pkp).map_err(e2s("aggregate"))?;
            env.out("signature".to_string(), &sig);
            Ok(())
        }
        Proto::CrossProcess => Ok(()),
        Proto::LargeDkgPart2 => large_part2::<C>(env, false, seed, n),
        Proto::LargeRefreshPart2 => large_part2::<C>(env, true, seed, n),
        Proto::RepairThenSign => {
            let g = make_group::<C>(KeySrc::Dealer, n, t, IdKind::U16x, seed)?;
            let lost = g.ids[0];
            let helpers: Vec<_> = g.ids.iter().skip(1).take(t as usize).copied().collect();
            if helpers.len() < t as usize {
                return Ok(());
            }
            let mut deltas: BTreeMap<Id<C>, BTreeMap<Id<C>, Delta<C>>> = BTreeMap::new();
            for h in &helpers {
                let mut rng = ScriptedRng::ctr(format!("c13repair:{seed}:{}", id_hex::<C>(h)));
                let kp = env.pass(format!("repair.helper-keypackage.{}", id_short::<C>(h)), g.kps[h].clone());
                let d = C::w_repair1(&helpers, &kp, &mut rng, lost).map_err(e2s("repair1"))?;
                let d = env.pass(format!("repair.deltas-in-transit.{}", id_short::<C>(h)), d);
                env.out(format!("repair.deltas.{}", id_short::<C>(h)), &d);
                deltas.insert(*h, d);
            }
            let mut sigmas = vec![];
            for h in &helpers {
                let recv: Vec<Delta<C>> = helpers.iter().map(|f| deltas[f][h]).collect();
                let s = C::w_repair2(&recv);
                let s = env.pass(format!("repair.sigma-in-transit.{}", id_short::<C>(h)), s);
                env.out(format!("repair.sigma.{}", id_short::<C>(h)), &s);
                sigmas.push(s);
            }
            let pkp = env.pass("repair.publickeypackage".to_string(), g.pkp.clone());
            let kp = C::w_repair3(&sigmas, lost, &pkp).map_err(e2s("repair3"))?;
            let kp = env.pass("repair.repaired-keypackage".to_string(), kp);
            env.out("repair.repaired-keypackage".to_string(), &kp);
            let mut kps = g.kps.clone();
            kps.insert(lost, kp);
            // the repaired member must be among the signers: take the first t ids
            let sub: BTreeMap<_, _> = kps.iter().take(t as usize).map(|(k, v)| (*k, v.clone())).collect();
            sign_phase::<C>(env, &sub, &g.pkp, t, seed)
        }
    }
}

fn large_part2<C: Suite>(env: &mut Env, refresh: bool, seed: &str, n: u16) -> Result<(), String> {
    let ids: Vec<Id<C>> = (1..=n).map(|i| Identifier::<C>::try_from(i).unwrap()).collect();
    let mut p1 = BTreeMap::new();
    let mut mine = None;
    for id in &ids {
        let mut rng = ScriptedRng::ctr(format!("c13large:{seed}:{}", id_hex::<C>(id)));
        let (s, p) = if refresh { C::w_refresh_dkg_part1(*id, n, n, &mut rng) } else { C::w_part1(*id, n, n, &mut rng) }.map_err(e2s("part1"))?;
        if *id == ids[0] {
            mine = Some(s);
        }
        p1.insert(*id, p);
    }
    let pfx = if refresh { "refresh" } else { "dkg" };
    let sp = env.pass(format!("{pfx}.large-round1-secret"), mine.unwrap());
    let r1 = env.pass(format!("{pfx}.large-round1-packages-in-transit"), others::<C, _>(&p1, &ids[0]));
    let (sp2, out) = if refresh { C::w_refresh_dkg_part2(sp, &r1) } else { C::w_part2(sp, &r1) }.map_err(e2s("part2"))?;
    let sp2 = env.pass(format!("{pfx}.large-round2-secret"), sp2);
    env.out(format!("{pfx}.large-round2-secret"), &sp2);
    env.out(format!("{pfx}.large-round2-packages"), &out);
    Ok(())
}

fn labels_of(proto: Proto, n: u16, t: u16) -> Vec<String> {
    // the label list must not depend on the library behaving: a failing uninterrupted run is
    // reported by the mask-0 case of every suite, not by a crash of the enumerator
    let mut env = Env::new(Fmt::Postcard, &[]);
    let _ = std::panic::catch_unwind(std::panic::AssertUnwindSafe(|| run_proto::<crate::suites::Ed25519>(&mut env, proto, n, t, "labels")));
    env.labels
}

const PROTOS: [Proto; 5] = [Proto::DkgThenSign, Proto::RefreshDkgThenSign, Proto::DealerRefreshThenSign, Proto::PreprocessedSign, Proto::RepairThenSign];

impl Prop for C13 {
    fn id(&self) -> &'static str {
        "C13"
    }
    fn level(&self) -> &'static str {
        "model_checking"
    }
    fn rule(&self) -> String {
        "crash-point enumeration on the real code: 7 protocols (DKG, distributed refresh, dealer refresh, preprocessed signing, repair, each followed by a signing run; and part two of a 72-of-72 and a 260-of-260 DKG / distributed refresh whose secret packages are several / more than 16 kilobytes); whatever is written must carry version 0 and this suite's identifier (computed independently) so that a restarted process can read it; x suites x shapes x {the types' own postcard serialize/deserialize, JSON, component-wise custom serialization through getters + serialize_whole + new()}; a boundary = a point where a participant holds state between calls (round-1/2 secret packages, key/public packages, nonces, nonce batches) or a message is in transit; a mask selects boundaries at which the value is encoded, dropped and the decoded copy used from then on. Enumerated: every mask with <= 2 crashes (quick) / every mask over the secret-state boundaries x {no, all} transit (thorough), and the all-ones mask. Oracle: every later step accepts the restored state and EVERY output (packages, key material, shares, signature) is byte-identical to the uninterrupted run. states = (protocol, mask) executions; transitions = boundaries crossed; traces = complete resumed runs compared".into()
    }
    fn assumptions(&self) -> Vec<String> {
        vec!["random sources are scripted per (participant, step), so the resumed and the uninterrupted run draw the same bytes".into()]
    }
    fn bound(&self, tier: Tier) -> String {
        format!("shapes {:?}; {}", shapes(tier), tier.pick("all masks with <= 2 crashes + all-ones", "all masks over secret-state boundaries x transit none/all, all <=2 masks over everything"))
    }
    fn required_counters(&self) -> Vec<&'static str> {
        vec!["states", "transitions", "traces", "restores"]
    }
    fn cases(&self, tier: Tier, seed: u64) -> Vec<Value> {
        let mut out = vec![];
        for (n, t) in shapes(tier) {
            for proto in PROTOS {
                let labels = labels_of(proto, n, t);
                let nl = labels.len();
                let mut masks: Vec<Vec<usize>> = vec![vec![]];
                for a in 0..nl {
                    masks.push(vec![a]);
                }
                for a in 0..nl {
                    for b in (a + 1)..nl {
                        masks.push(vec![a, b]);
                    }
                }
                masks.push((0..nl).collect());
                if tier == Tier::Thorough {
                    let secret: Vec<usize> = (0..nl).filter(|i| !labels[*i].contains("in-transit")).collect();
                    let transit: Vec<usize> = (0..nl).filter(|i| labels[*i].contains("in-transit")).collect();
                    if secret.len() <= 14 {
                        for m in 0u32..(1u32 << secret.len()) {
                            if m.count_ones() <= 2 {
                                continue;
                            }
                            let sel: Vec<usize> = secret.iter().enumerate().filter(|(k, _)| m & (1 << k) != 0).map(|(_, i)| *i).collect();
                            masks.push(sel.clone());
                            let mut with_t = sel;
                            with_t.extend(&transit);
                            with_t.sort();
                            masks.push(with_t);
                        }
                    }
                }
                for suite in REAL_SUITES {
                    // quick: pairs only on two suites, singles + all-ones everywhere
                    for fmt in [Fmt::Postcard, Fmt::Json, Fmt::Fields] {
                        for m in &masks {
                            let heavy = m.len() == 2 || (m.len() > 2 && m.len() < nl);
                            if tier == Tier::Quick && heavy && !(suite == "ed25519" || suite == "secp256k1-tr") {
                                continue;
                            }
                            if tier == Tier::Quick && heavy && (n, t) != (2, 2) && fmt != Fmt::Postcard {
                                continue;
                            }
                            if tier == Tier::Thorough && m.len() > 2 && m.len() < nl && (suite == "ed448" || suite == "p256") {
                                continue;
                            }
                            out.push(serde_json::to_value(Case { suite: suite.to_string(), proto, n, t, fmt, crashes: m.clone(), seed: format!("s{seed}") }).unwrap());
                        }
                    }
                }
            }
        }
        for proto in [Proto::LargeDkgPart2, Proto::LargeRefreshPart2] {
            for suite in REAL_SUITES {
                if suite == "ed448" && tier == Tier::Quick && proto == Proto::LargeRefreshPart2 {
                    continue;
                }
                for fmt in [Fmt::Postcard, Fmt::Json, Fmt::Fields] {
                    for m in [vec![], vec![0], vec![1], vec![2], vec![0, 1, 2]] {
                        out.push(serde_json::to_value(Case { suite: suite.to_string(), proto, n: 72, t: 72, fmt, crashes: m, seed: format!("s{seed}") }).unwrap());
                    }
                }
            }
        }
        for suite in REAL_SUITES {
            for fmt in [Fmt::Postcard, Fmt::Json, Fmt::Fields] {
                out.push(serde_json::to_value(Case { suite: suite.to_string(), proto: Proto::CrossProcess, n: 3, t: 2, fmt, crashes: vec![0], seed: format!("s{seed}") }).unwrap());
            }
        }
        // thresholds above 255: the round-one secret package of a 260-of-260 run is > 16 kB
        for proto in [Proto::LargeDkgPart2, Proto::LargeRefreshPart2] {
            for suite in if tier == Tier::Thorough { vec!["ed25519", "p256", "secp256k1-tr", "ed448"] } else { vec!["ed25519"] } {
                let big = if suite == "ed448" { 150u16 } else { 260u16 };
                for fmt in [Fmt::Postcard, Fmt::Json, Fmt::Fields] {
                    for m in [vec![], vec![0], vec![0, 1, 2]] {
                        out.push(serde_json::to_value(Case { suite: suite.to_string(), proto, n: big, t: big, fmt, crashes: m, seed: format!("s{seed}") }).unwrap());
                    }
                }
            }
        }
        out.sort_by_key(|c| c["crashes"].as_array().map(|a| a.len()).unwrap_or(0));
        out
    }
    fn run(&self, case: &Value) -> Outcome {
        let c: Case = serde_json::from_value(case.clone()).expect("case");
        with_suite!(c.suite.as_str(), run_case, &c)
    }
}

fn shapes(tier: Tier) -> Vec<(u16, u16)> {
    match tier {
        Tier::Quick => vec![(2, 2), (3, 2)],
        Tier::Thorough => vec![(2, 2), (3, 2), (4, 3)],
    }
}

fn baseline<C: Suite>(proto: Proto, n: u16, t: u16, seed: &str) -> Result<(Vec<(String, Vec<u8>)>, Vec<String>), String> {
    let mut env = Env::new(Fmt::Postcard, &[]);
    run_proto::<C>(&mut env, proto, n, t, seed)?;
    Ok((env.transcript, env.labels))
}

type Reload = Box<dyn Fn(&[u8]) -> Result<Vec<u8>, String>>;
/// every stored type once: (name, what this process writes, load-and-write-again)
fn xp_items<C: Suite>(fmt: Fmt, seed: &str) -> Result<Vec<(String, Result<Vec<u8>, String>, Reload)>, String> {
    fn item<T: Persist + 'static>(name: &str, v: &T, fmt: Fmt) -> (String, Result<Vec<u8>, String>, Reload) {
        (name.to_string(), v.save(fmt), Box::new(move |b: &[u8]| T::load(b, fmt).and_then(|x| x.save(fmt))))
    }
    let m = crate::corpus::material::<C>(3, 2, IdKind::U16x, seed)?;
    let a = m.grp.ids[0];
    let b = m.grp.ids[1];
    let da = m.dkg.ids[0];
    let db = m.dkg.ids[1];
    Ok(vec![
        item("KeyPackage", &m.grp.kps[&a], fmt),
        item("PublicKeyPackage", &m.grp.pkp, fmt),
        item("SecretShare", &m.grp.shares.as_ref().unwrap()[&a], fmt),
        item("SigningNonces", &m.sess.nonces[&a], fmt),
        item("SigningCommitments", &m.sess.comms[&a], fmt),
        item("SigningPackage", &m.sess.pkg, fmt),
        item("SignatureShare", &m.sess.shares[&a], fmt),
        item("dkg::round1::SecretPackage", &m.dkg.sp1[&da], fmt),
        item("dkg::round1::Package", &m.dkg.p1[&da], fmt),
        item("dkg::round2::SecretPackage", &m.dkg.sp2[&da], fmt),
        item("dkg::round2::Package", &m.dkg.p2[&da][&db], fmt),
        item("KeyPackage(dkg)", &m.dkg_kp, fmt),
        item("PublicKeyPackage(dkg)", &m.dkg_pkp, fmt),
        item("refresh::round1::SecretPackage", &m.rd1_secret, fmt),
        item("refresh::round1::Package", &m.rd1_pkg, fmt),
        item("refresh::round2::SecretPackage", &m.rd2_secret, fmt),
        item("refresh::round2::Package", &m.rd2_pkg, fmt),
        item("SecretShare(refreshing)", &m.refreshing_share, fmt),
        item("Delta", &m.delta, fmt),
        item("Sigma", &m.sigma, fmt),
        item("KeyPackage(other member)", &m.grp.kps[&b], fmt),
    ])
}

/// Child side of the cross-process case: stdin = {name: hex written by the parent}; stdout =
/// {name: {"loaded": hex of load+save | null, "error": .., "own": hex of what THIS process writes}}
pub fn child(suite: &str, fmt: &str, seed: &str) -> i32 {
    fn inner<C: Suite>(fmt: Fmt, seed: &str) -> Result<Value, String> {
        let mut input = String::new();
        std::io::Read::read_to_string(&mut std::io::stdin(), &mut input).map_err(es)?;
        let theirs: BTreeMap<String, String> = serde_json::from_str(&input).map_err(es)?;
        let mut out = serde_json::Map::new();
        for (name, own, reload) in xp_items::<C>(fmt, seed)? {
            let r = theirs.get(&name).and_then(|h| hex::decode(h).ok()).map(|b| reload(&b));
            out.insert(
                name,
                serde_json::json!({
                    "loaded": r.as_ref().and_then(|x| x.as_ref().ok()).map(hex::encode),
                    "error": r.as_ref().and_then(|x| x.as_ref().err()).cloned(),
                    "own": own.ok().map(hex::encode),
                }),
            );
        }
        Ok(Value::Object(out))
    }
    let fmt = match fmt {
        "Postcard" => Fmt::Postcard,
        "Json" => Fmt::Json,
        _ => Fmt::Fields,
    };
    match with_suite!(suite, inner, fmt, seed) {
        Ok(v) => {
            println!("{v}");
            0
        }
        Err(e) => {
            eprintln!("c13-child: {e}");
            2
        }
    }
}

fn run_cross_process<C: Suite>(c: &Case) -> Outcome {
    use std::io::Write;
    let mut o = Outcome::new();
    let tag = format!("C13/{}/CrossProcess/{:?}", C::name(), c.fmt);
    let items = match xp_items::<C>(c.fmt, &c.seed) {
        Ok(i) => i,
        Err(e) => {
            o.eval(false);
            o.fail(format!("{tag}/setup"), e);
            return o;
        }
    };
    let mut mine: BTreeMap<String, String> = BTreeMap::new();
    for (name, own, _) in &items {
        match own {
            Ok(b) => {
                mine.insert(name.clone(), hex::encode(b));
            }
            Err(e) => o.fail(format!("{tag}/cannot-save/{name}"), e.clone()),
        }
    }
    let exe = match std::env::current_exe() {
        Ok(e) => e,
        Err(e) => {
            o.machinery_error(format!("current_exe: {e}"));
            return o;
        }
    };
    let child = std::process::Command::new(exe)
        .args(["c13-child", &C::name(), &format!("{:?}", c.fmt), &c.seed])
        .stdin(std::process::Stdio::piped())
        .stdout(std::process::Stdio::piped())
        .stderr(std::process::Stdio::piped())
        .spawn();
    let mut child = match child {
        Ok(ch) => ch,
        Err(e) => {
            o.machinery_error(format!("cannot spawn child: {e}"));
            return o;
        }
    };
    let payload = serde_json::to_string(&mine).unwrap();
    let mut stdin = child.stdin.take().unwrap();
    let writer = std::thread::spawn(move || {
        let _ = stdin.write_all(payload.as_bytes());
    });
    let out = child.wait_with_output();
    let _ = writer.join();
    let out = match out {
        Ok(x) => x,
        Err(e) => {
            o.machinery_error(format!("child: {e}"));
            return o;
        }
    };
    if !out.status.success() {
        // the child runs the same library: if it cannot even build its material the library is broken
        o.eval(true);
        o.fail(format!("{tag}/restarted-process-failed"), format!("exit {:?}: {}", out.status.code(), String::from_utf8_lossy(&out.stderr).chars().take(300).collect::<String>()));
        return o;
    }
    let there: BTreeMap<String, Value> = match serde_json::from_slice(&out.stdout) {
        Ok(v) => v,
        Err(e) => {
            o.machinery_error(format!("child output: {e}"));
            return o;
        }
    };
    o.count("states", 1);
    for (name, _, reload) in &items {
        let Some(h) = mine.get(name) else { continue };
        o.eval(true);
        o.count("transitions", 2);
        o.count("restores", 2);
        let t = &there[name];
        // (1) the restarted process loads what this process wrote and writes the same bytes again
        match t["loaded"].as_str() {
            Some(l) if l == h => o.count("cross_process_loads", 1),
            Some(_) => o.fail(format!("{tag}/restarted-process-rewrites-differently/{name}"), format!("state written here, loaded and written again by a fresh process differs")),
            None => o.fail(format!("{tag}/restarted-process-cannot-load/{name}"), format!("a freshly started process of the same ciphersuite rejects the state this process wrote: {}", t["error"])),
        }
        // (2) the same value written by the fresh process is byte-identical, and loads here
        match t["own"].as_str() {
            Some(w) => {
                if w != h {
                    o.fail(format!("{tag}/processes-write-differently/{name}"), format!("the same value is written as {}.. here and as {}.. by a fresh process", &h[..h.len().min(20)], &w[..w.len().min(20)]));
                }
                match hex::decode(w).map_err(es).and_then(|b| reload(&b)) {
                    Ok(_) => o.count("cross_process_loads", 1),
                    Err(e) => o.fail(format!("{tag}/cannot-load-what-a-fresh-process-wrote/{name}"), e),
                }
            }
            None => o.fail(format!("{tag}/restarted-process-cannot-save/{name}"), "".to_string()),
        }
    }
    o.count("traces", 1);
    o.class("CrossProcess");
    o
}

fn run_case<C: Suite>(c: &Case) -> Outcome {
    if c.proto == Proto::CrossProcess {
        return run_cross_process::<C>(c);
    }
    let mut o = Outcome::new();
    let tag = format!("C13/{}/{:?}/{:?}", C::name(), c.proto, c.fmt);
    let (base, labels) = match baseline::<C>(c.proto, c.n, c.t, &c.seed) {
        Ok(b) => b,
        Err(e) => {
            o.eval(false);
            o.fail(format!("{tag}/uninterrupted-run-failed"), e);
            return o;
        }
    };
    let names: Vec<&str> = c.crashes.iter().map(|i| labels.get(*i).map(|s| s.as_str()).unwrap_or("?")).collect();
    let ctx = format!("n={} t={} crashes at {:?}", c.n, c.t, names);
    let mut env = Env::new(c.fmt, &c.crashes);
    o.eval(!c.crashes.is_empty());
    o.count("states", 1);
    let r = std::panic::catch_unwind(std::panic::AssertUnwindSafe(|| run_proto::<C>(&mut env, c.proto, c.n, c.t, &c.seed)));
    o.count("transitions", env.labels.len() as u64);
    o.count("restores", env.restored);
    // finding key: the kind of state of the first crashed boundary (participant-independent)
    let kind = |l: &str| l.rsplitn(2, '.').last().unwrap_or(l).to_string();
    let first_kind = names.first().map(|l| if l.matches('.').count() >= 2 { kind(l) } else { l.to_string() }).unwrap_or_default();
    match r {
        Err(_) => {
            let e = env.errors.first().cloned().unwrap_or_else(|| "panic in a later step".into());
            // name the state that failed to restore, participant-independent
            let failing = e.split('\'').nth(1).map(|l| if l.matches('.').count() >= 2 { kind(l) } else { l.to_string() }).unwrap_or(first_kind.clone());
            o.fail(format!("{tag}/restore-failed/{failing}"), format!("{ctx}: {e}"));
        }
        Ok(Err(e)) => {
            o.fail(format!("{tag}/later-step-rejects-restored-state/{first_kind}"), format!("{ctx}: {e}"));
        }
        Ok(Ok(())) => {
            o.count("traces", 1);
            if env.transcript.len() != base.len() {
                o.fail(format!("{tag}/output-count-differs/{first_kind}"), format!("{ctx}: {} outputs vs {}", env.transcript.len(), base.len()));
            } else {
                for (a, b) in env.transcript.iter().zip(base.iter()) {
                    if a != b {
                        o.fail(
                            format!("{tag}/output-differs/{first_kind}"),
                            format!("{ctx}: output '{}' differs from the uninterrupted run ({} vs {})", a.0, hex::encode(&a.1[..a.1.len().min(24)]), hex::encode(&b.1[..b.1.len().min(24)])),
                        );
                        break;
                    }
                }
            }
        }
    }
    o.class(format!("{:?}", c.proto));
    o
}
