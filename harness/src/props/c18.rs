//! C18 — Taproot signatures are valid BIP-340 signatures for the BIP-341 output key.
//! All eight combinations of (internal key Y parity, output key Y parity, group commitment Y
//! parity) are FORCED by searching the seed alphabet; libsecp256k1 is the oracle.

use crate::runner::{Outcome, Prop, Tier};
use crate::suites::{Id, SecpTr, Suite, bip340_verify_xonly};
use crate::util::*;
use frost_core as fc;
use frost_core::round2::SignatureShare;
use frost_core::{CheaterDetection, SigningPackage};
use frost_secp256k1_tr as tr;
use frost_secp256k1_tr::keys::Tweak;
use serde::{Deserialize, Serialize};
use serde_json::Value;
use std::collections::BTreeMap;

pub struct C18;
type C = SecpTr;

#[derive(Serialize, Deserialize, Clone, Debug, PartialEq, Eq)]
pub enum Root {
    /// plain sign / aggregate: no tweak at all, output key = group key
    NoTweak,
    /// sign_with_tweak(None): key-path-only tweak
    TweakNone,
    TweakEmpty,
    Tweak32,
    Tweak1,
    Tweak100,
}
impl Root {
    fn bytes(&self) -> Option<Option<Vec<u8>>> {
        match self {
            Root::NoTweak => None,
            Root::TweakNone => Some(None),
            Root::TweakEmpty => Some(Some(vec![])),
            Root::Tweak32 => Some(Some((0..32u8).map(|i| i.wrapping_mul(7).wrapping_add(1)).collect())),
            Root::Tweak1 => Some(Some(vec![0x5a])),
            Root::Tweak100 => Some(Some((0..100u8).collect())),
        }
    }
}
const ROOTS: [Root; 6] = [Root::NoTweak, Root::TweakNone, Root::TweakEmpty, Root::Tweak32, Root::Tweak1, Root::Tweak100];

#[derive(Serialize, Deserialize, Clone, Debug)]
#[serde(tag = "part")]
enum Case {
    /// key material that went through dealer refresh / distributed refresh / repair (the crate's wrappers)
    /// first: signatures must still be BIP-340 valid for the BIP-341 output key of the ORIGINAL internal key
    Maintained { n: u16, t: u16, kind: String, root: Root, internal_odd: bool, output_odd: bool, seed: String },
    Session { n: u16, t: u16, src: KeySrc, signers: u32, root: Root, msg: usize, internal_odd: bool, output_odd: bool, r_odd: bool, seed: String },
    Faults { n: u16, t: u16, signers: u32, cheaters: u32, kind: super::c04::Kind, root: Root, internal_odd: bool, output_odd: bool, r_odd: bool, seed: String },
    /// single-signer entry point: BIP-340 validity for both key parities
    Single { key_odd: bool, msg: usize, seed: String },
}

impl Prop for C18 {
    fn id(&self) -> &'static str {
        "C18"
    }
    fn level(&self) -> &'static str {
        "exploration"
    }
    fn rule(&self) -> String {
        "complete enumeration with branch forcing: (n,t) x dealer/DKG x EVERY signer subset x 6 script-tree-root variants (none, key-path-only, empty, 32 / 1 / 100 bytes) x messages, and for each of these ALL 8 combinations of (internal key Y odd, output key Y odd, group commitment Y odd) forced by seed search (4 where no tweak applies); oracle: libsecp256k1 verify_schnorr on the 64 bytes under the x-only output key that libsecp256k1 add_tweak computes from the internal key and an independently computed TapTweak hash; rejected under the untweaked key when a tweak was requested; root absent == root empty; every honest share verifies; C04's cheater menu (every cheater subset, +1 / negated / cross-session / cancelling, 3 modes) in every parity combination; DKG output key = key-path-only tweak of the summed constant terms. Non-trivial = session aggregated in the requested parity combination".into()
    }
    fn assumptions(&self) -> Vec<String> {
        vec!["libsecp256k1 (C library via the secp256k1 crate) is the trusted BIP-340/341 implementation".into()]
    }
    fn bound(&self, tier: Tier) -> String {
        format!("shapes {:?}, every subset, 6 roots, all parity combinations forced within 256 seeds", shapes(tier))
    }
    fn required_counters(&self) -> Vec<&'static str> {
        vec!["libsecp_verified", "rejected_under_untweaked_key", "culprits_checked", "combo i=0 o=0 r=0", "combo i=0 o=0 r=1", "combo i=0 o=1 r=0", "combo i=0 o=1 r=1", "combo i=1 o=0 r=0", "combo i=1 o=0 r=1", "combo i=1 o=1 r=0", "combo i=1 o=1 r=1"]
    }
    fn cases(&self, tier: Tier, seed: u64) -> Vec<Value> {
        let mut out = vec![];
        let mut mr = 0usize;
        for (n, t) in shapes(tier) {
            for src in [KeySrc::Dealer, KeySrc::Dkg] {
                for s in subsets(n as usize, t as usize, n as usize) {
                    for root in ROOTS {
                        for io in [false, true] {
                            for oo in [false, true] {
                                if root == Root::NoTweak && io != oo {
                                    continue; // output key == group key
                                }
                                for ro in [false, true] {
                                    out.push(serde_json::to_value(Case::Session { n, t, src, signers: s, root: root.clone(), msg: [0usize, 2, 10][mr % 3], internal_odd: io, output_odd: oo, r_odd: ro, seed: format!("s{seed}") }).unwrap());
                                    mr += 1;
                                }
                            }
                        }
                    }
                }
            }
        }
        for (n, t) in [(2u16, 2u16), (3, 2), (4, 3)] {
            let s = (1u32 << t) - 1 << (n - t); // last t signers
            for root in [Root::NoTweak, Root::TweakNone, Root::Tweak32] {
                for io in [false, true] {
                    for oo in [false, true] {
                        if root == Root::NoTweak && io != oo {
                            continue;
                        }
                        for ro in [false, true] {
                            let k = t as usize;
                            for ch in subsets(k, 1, k) {
                                for kind in [super::c04::Kind::PlusOne, super::c04::Kind::Negated, super::c04::Kind::OtherSession, super::c04::Kind::CancelAll] {
                                    if kind == super::c04::Kind::CancelAll && ch.count_ones() < 2 {
                                        continue;
                                    }
                                    out.push(serde_json::to_value(Case::Faults { n, t, signers: s, cheaters: ch, kind, root: root.clone(), internal_odd: io, output_odd: oo, r_odd: ro, seed: format!("s{seed}") }).unwrap());
                                }
                            }
                        }
                    }
                }
            }
        }
        for (n, t) in [(3u16, 2u16), (4, 3)] {
            for kind in ["refresh-dealer", "refresh-dkg", "repair"] {
                for root in [Root::NoTweak, Root::TweakNone, Root::Tweak32] {
                    for io in [false, true] {
                        for oo in [false, true] {
                            if root == Root::NoTweak && io != oo {
                                continue;
                            }
                            out.push(serde_json::to_value(Case::Maintained { n, t, kind: kind.to_string(), root: root.clone(), internal_odd: io, output_odd: oo, seed: format!("s{seed}") }).unwrap());
                        }
                    }
                }
            }
        }
        for key_odd in [false, true] {
            for msg in 0..11 {
                out.push(serde_json::to_value(Case::Single { key_odd, msg, seed: format!("s{seed}") }).unwrap());
            }
        }
        out
    }
    fn run(&self, case: &Value) -> Outcome {
        let c: Case = serde_json::from_value(case.clone()).expect("case");
        run_case(&c)
    }
}

fn shapes(tier: Tier) -> Vec<(u16, u16)> {
    match tier {
        Tier::Quick => vec![(2, 2), (3, 2), (3, 3), (4, 2), (4, 3)],
        Tier::Thorough => vec![(2, 2), (3, 2), (3, 3), (4, 2), (4, 3), (5, 3), (5, 5), (6, 4)],
    }
}

fn is_odd(e: &frost_core::Element<C>) -> bool {
    el_bytes::<C>(e).map(|b| b[0] == 3).unwrap_or(false)
}

struct Setup {
    grp: std::sync::Arc<Grp<C>>,
    /// group key as the library holds it (for DKG: already key-path-only tweaked)
    internal: Vec<u8>,
    /// expected x-only output key and its parity by libsecp256k1
    out_x: [u8; 32],
    out_odd: bool,
}

/// Search group seeds until the internal key and the BIP-341 output key have the wanted parities.
fn find_group(n: u16, t: u16, src: KeySrc, root: &Root, io: bool, oo: bool, seed: &str) -> Result<Setup, String> {
    for k in 0..256 {
        let grp = cached_group::<C>(src, n, t, IdKind::U16x, &format!("{seed}.c18.{k}"))?;
        let internal = el_bytes::<C>(&grp.pkp.verifying_key().to_element()).ok_or("vk")?;
        if (internal[0] == 3) != io {
            continue;
        }
        let (out_x, out_odd) = match root.bytes() {
            None => (internal[1..].try_into().unwrap(), io),
            Some(r) => {
                let (x, odd, _) = super::c07::bip341_output_key(&internal, r.as_deref()).ok_or("add_tweak")?;
                (x, odd)
            }
        };
        if out_odd != oo {
            continue;
        }
        return Ok(Setup { grp, internal, out_x, out_odd });
    }
    Err("MACHINERY: parity combination not reached within 256 group seeds".into())
}

struct Run {
    s: Vec<Id<C>>,
    pkg: SigningPackage<C>,
    shares: BTreeMap<Id<C>, SignatureShare<C>>,
    sig: fc::Signature<C>,
    pkp_used: fc::keys::PublicKeyPackage<C>,
    nonces: BTreeMap<Id<C>, fc::round1::SigningNonces<C>>,
}

fn sign_all(st: &Setup, s: &[Id<C>], root: &Root, m: &[u8], label: &str) -> Result<Run, String> {
    let (nonces, comms) = commit_all::<C>(&st.grp.kps, s, label);
    let pkg = SigningPackage::<C>::new(comms, m);
    let rb = root.bytes();
    let mut shares = BTreeMap::new();
    for id in s {
        let sh = match &rb {
            None => tr::round2::sign(&pkg, &nonces[id], &st.grp.kps[id]),
            Some(r) => tr::round2::sign_with_tweak(&pkg, &nonces[id], &st.grp.kps[id], r.as_deref()),
        }
        .map_err(e2s("sign"))?;
        shares.insert(*id, sh);
    }
    let sig = match &rb {
        None => tr::aggregate(&pkg, &shares, &st.grp.pkp),
        Some(r) => tr::aggregate_with_tweak(&pkg, &shares, &st.grp.pkp, r.as_deref()),
    }
    .map_err(e2s("aggregate"))?;
    let pkp_used = match &rb {
        None => st.grp.pkp.clone(),
        Some(r) => st.grp.pkp.clone().tweak(r.as_deref()),
    };
    Ok(Run { s: s.to_vec(), pkg, shares, sig, pkp_used, nonces })
}

/// Search session seeds until the group commitment has the wanted parity.
fn find_run(st: &Setup, s: &[Id<C>], root: &Root, m: &[u8], ro: bool, seed: &str) -> Result<Run, String> {
    for k in 0..256 {
        let r = sign_all(st, s, root, m, &format!("{seed}.r{k}"))?;
        if is_odd(r.sig.R()) == ro {
            return Ok(r);
        }
    }
    Err("MACHINERY: R parity not reached within 256 session seeds".into())
}

fn run_case(c: &Case) -> Outcome {
    let mut o = Outcome::new();
    let tag = "C18/secp256k1-tr".to_string();
    match c {
        Case::Session { n, t, src, signers, root, msg, internal_odd, output_odd, r_odd, seed } => {
            let ctx = format!("n={n} t={t} src={src:?} S={signers:b} root={root:?} internal_odd={internal_odd} output_odd={output_odd} r_odd={r_odd}");
            let st = match find_group(*n, *t, *src, root, *internal_odd, *output_odd, seed) {
                Ok(s) => s,
                Err(e) => {
                    o.eval(false);
                    o.fail(format!("{tag}/setup"), format!("{ctx}: {e}"));
                    return o;
                }
            };
            let s = pick::<C>(&st.grp.ids, *signers);
            let m = message(*msg);
            let run = match find_run(&st, &s, root, &m, *r_odd, &format!("{seed}:{signers}:{msg}")) {
                Ok(r) => r,
                Err(e) => {
                    o.eval(false);
                    if e.starts_with("MACHINERY") {
                        o.fail(format!("{tag}/setup"), format!("{ctx}: {e}"));
                    } else {
                        o.fail(format!("{tag}/honest-session-failed"), format!("{ctx}: {e}"));
                    }
                    return o;
                }
            };
            o.eval(true);
            o.count(&format!("combo i={} o={} r={}", *internal_odd as u8, *output_odd as u8, *r_odd as u8), 1);
            let sb = match run.sig.serialize() {
                Ok(b) => b,
                Err(e) => {
                    o.fail(format!("{tag}/signature-unencodable"), format!("{ctx}: {e:?}"));
                    return o;
                }
            };
            if sb.len() != 64 {
                o.fail(format!("{tag}/signature-length"), format!("{ctx}: {} bytes", sb.len()));
            }
            // libsecp256k1 under the BIP-341 output key computed by libsecp256k1
            if bip340_verify_xonly(&st.out_x, &m, &sb) {
                o.count("libsecp_verified", 1);
            } else {
                o.fail(format!("{tag}/not-a-bip340-signature-for-the-output-key"), format!("{ctx}: libsecp256k1 rejects the signature under the BIP-341 output key"));
            }
            // the library's own idea of the output key
            let lib_out = el_bytes::<C>(&run.pkp_used.verifying_key().to_element()).unwrap();
            if lib_out[1..] != st.out_x || (lib_out[0] == 3) != st.out_odd {
                o.fail(format!("{tag}/output-key-not-bip341"), format!("{ctx}: tweaked verifying key != BIP-341 output key by libsecp256k1"));
            }
            if root.bytes().is_some() {
                // must not verify under the untweaked (internal) key
                if bip340_verify_xonly(&st.internal[1..], &m, &sb) || st.grp.pkp.verifying_key().verify(&m, &run.sig).is_ok() {
                    o.fail(format!("{tag}/verifies-under-untweaked-key"), format!("{ctx}: signature verifies under the untweaked key although a tweak was requested"));
                } else {
                    o.count("rejected_under_untweaked_key", 1);
                }
            }
            if run.pkp_used.verifying_key().verify(&m, &run.sig).is_err() {
                o.fail(format!("{tag}/library-verify-rejects"), format!("{ctx}: library verify under the tweaked key fails"));
            }
            // decode(encode) verifies too
            match fc::Signature::<C>::deserialize(&sb) {
                Ok(d) => {
                    if run.pkp_used.verifying_key().verify(&m, &d).is_err() {
                        o.fail(format!("{tag}/decoded-signature-rejected"), ctx.clone());
                    }
                }
                Err(e) => o.fail(format!("{tag}/signature-undecodable"), format!("{ctx}: {e:?}")),
            }
            // every honest share verifies against the tweaked public material
            for id in &s {
                let vs = run.pkp_used.verifying_shares()[id];
                if fc::verify_signature_share(*id, &vs, &run.shares[id], &run.pkg, run.pkp_used.verifying_key()).is_err() {
                    o.fail(format!("{tag}/honest-share-rejected"), format!("{ctx}: signer {}", id_short::<C>(id)));
                }
            }
            // root absent == root empty
            if *root == Root::TweakNone {
                if let Ok(r2) = sign_all(&st, &s, &Root::TweakEmpty, &m, "same") {
                    if let Ok(r1) = sign_all(&st, &s, &Root::TweakNone, &m, "same") {
                        if r1.sig.serialize().ok() != r2.sig.serialize().ok() || r1.pkp_used != r2.pkp_used {
                            o.fail(format!("{tag}/absent-root-differs-from-empty-root"), ctx.clone());
                        }
                    }
                }
            }
            // DKG output is the key-path-only tweak of the summed constant terms
            if *src == KeySrc::Dkg {
                if let Some(r1) = &st.grp.dkg_r1 {
                    let mut p = G::<C>::identity();
                    for pk in r1.values() {
                        p = p + pk.commitment().coefficients()[0].value();
                    }
                    let pb = el_bytes::<C>(&p).unwrap();
                    if let Some((qx, qodd, _)) = super::c07::bip341_output_key(&pb, None) {
                        if st.internal[1..] != qx || (st.internal[0] == 3) != qodd {
                            o.fail(format!("{tag}/dkg-key-not-key-path-only-tweaked"), ctx.clone());
                        }
                    }
                }
            }
            o.class(format!("{root:?}"));
        }
        Case::Maintained { n, t, kind, root, internal_odd, output_odd, seed } => {
            let ctx = format!("n={n} t={t} after {kind} root={root:?} internal_odd={internal_odd} output_odd={output_odd}");
            let st0 = match find_group(*n, *t, KeySrc::Dealer, root, *internal_odd, *output_odd, seed) {
                Ok(s) => s,
                Err(e) => {
                    o.eval(false);
                    o.fail(format!("{tag}/setup"), format!("{ctx}: {e}"));
                    return o;
                }
            };
            let extra = std::cmp::min(*n, *t + 1) - *t;
            let (kps, pkp, ids) = match super::c03::maintained::<C>(&st0.grp, kind, extra, seed) {
                Ok(x) => x,
                Err(e) => {
                    o.eval(false);
                    o.fail(format!("{tag}/{kind}-failed"), format!("{ctx}: {e}"));
                    return o;
                }
            };
            o.eval(true);
            if pkp.verifying_key() != st0.grp.pkp.verifying_key() {
                o.fail(format!("{tag}/maintenance-moved-the-group-key"), format!("{ctx}: the public key package after {kind} has another group key"));
            }
            for (id, kp) in &kps {
                if kp.verifying_key() != st0.grp.pkp.verifying_key() {
                    o.fail(format!("{tag}/maintenance-moved-the-group-key"), format!("{ctx}: key package of {} after {kind} has another group key", id_short::<C>(id)));
                    break;
                }
            }
            let st = Setup {
                grp: std::sync::Arc::new(Grp { n: ids.len() as u16, t: *t, ids: ids.clone(), kps, pkp, shares: None, key: None, dkg_r1: None }),
                internal: st0.internal.clone(),
                out_x: st0.out_x,
                out_odd: st0.out_odd,
            };
            // the last t members sign (with repair: includes the repaired participant)
            let s: Vec<Id<C>> = ids[ids.len() - *t as usize..].to_vec();
            let m = message(2);
            match sign_all(&st, &s, root, &m, &format!("{seed}:maintained:{kind}")) {
                Ok(run) => match run.sig.serialize() {
                    Ok(sb) => {
                        if bip340_verify_xonly(&st.out_x, &m, &sb) {
                            o.count("libsecp_verified", 1);
                            o.count("maintained_sessions_verified", 1);
                        } else {
                            o.fail(format!("{tag}/not-a-bip340-signature-for-the-output-key"), format!("{ctx}: libsecp256k1 rejects the signature under the BIP-341 output key of the original internal key"));
                        }
                    }
                    Err(e) => o.fail(format!("{tag}/signature-unencodable"), format!("{ctx}: {e:?}")),
                },
                Err(e) => o.fail(format!("{tag}/honest-session-failed"), format!("{ctx}: {e}")),
            }
            o.class(format!("maintained-{kind}"));
        }
        Case::Faults { n, t, signers, cheaters, kind, root, internal_odd, output_odd, r_odd, seed } => {
            let ctx = format!("n={n} t={t} S={signers:b} cheaters={cheaters:b} kind={kind:?} root={root:?} internal_odd={internal_odd} output_odd={output_odd} r_odd={r_odd}");
            let st = match find_group(*n, *t, KeySrc::Dealer, root, *internal_odd, *output_odd, seed) {
                Ok(s) => s,
                Err(e) => {
                    o.eval(false);
                    o.fail(format!("{tag}/setup"), format!("{ctx}: {e}"));
                    return o;
                }
            };
            let s = pick::<C>(&st.grp.ids, *signers);
            let m = message(2);
            let (run, run_b) = match (find_run(&st, &s, root, &m, *r_odd, &format!("{seed}:f:{signers}")), sign_all(&st, &s, root, &m, &format!("{seed}:f:{signers}.B"))) {
                (Ok(a), Ok(b)) => (a, b),
                _ => {
                    o.eval(false);
                    o.fail(format!("{tag}/setup"), format!("{ctx}: sessions failed"));
                    return o;
                }
            };
            o.eval(true);
            o.count(&format!("combo i={} o={} r={}", *internal_odd as u8, *output_odd as u8, *r_odd as u8), 1);
            let k = s.len();
            let chs = mask_indices(*cheaters);
            let mut errs = vec![zero::<C>(); k];
            let mut bad = run.shares.clone();
            for (pos, &ci) in chs.iter().enumerate() {
                let zi = share_scalar::<C>(&run.shares[&s[ci]]);
                let nz = match kind {
                    super::c04::Kind::PlusOne => zi + one::<C>(),
                    super::c04::Kind::Negated => neg::<C>(zi),
                    super::c04::Kind::OtherSession => share_scalar::<C>(&run_b.shares[&s[ci]]),
                    _ => {
                        if pos + 1 < chs.len() {
                            zi + one::<C>()
                        } else {
                            zi - sc_u64::<C>(chs.len() as u64 - 1)
                        }
                    }
                };
                errs[ci] = nz - zi;
                bad.insert(s[ci], share_from_scalar::<C>(nz));
            }
            let pkp = run.pkp_used.clone();
            let pkg = run.pkg.clone();
            let agg = move |sh: &BTreeMap<Id<C>, SignatureShare<C>>, cd: CheaterDetection| fc::aggregate_custom(&pkg, sh, &pkp, cd);
            super::c04::check_modes::<C>(&mut o, &tag, &ctx, &s, &run.sig, &errs, &agg, &bad, run.pkp_used.verifying_key(), &m);
            // the crate's own entry points (aggregate / aggregate_with_tweak) behave like FirstCheater
            {
                let r = match root.bytes() {
                    None => tr::aggregate(&run.pkg, &bad, &st.grp.pkp),
                    Some(rb) => tr::aggregate_with_tweak(&run.pkg, &bad, &st.grp.pkp, rb.as_deref()),
                };
                let mut total = zero::<C>();
                for e in &errs {
                    total = total + *e;
                }
                let mut wrong: Vec<Id<C>> = s.iter().zip(&errs).filter(|(_, e)| **e != zero::<C>()).map(|(i, _)| *i).collect();
                sort_ids_numeric::<C>(&mut wrong);
                o.count("culprits_checked", 1);
                match r {
                    Ok(sig) => {
                        if total != zero::<C>() {
                            o.fail(format!("{tag}/tweaked-aggregate-released-despite-wrong-shares"), ctx.clone());
                        } else if sig != run.sig {
                            o.fail(format!("{tag}/tweaked-aggregate-differs"), ctx.clone());
                        }
                    }
                    Err(e) => {
                        let got: Vec<String> = e.culprits().iter().map(|i| id_hex::<C>(i)).collect();
                        if total == zero::<C>() {
                            o.fail(format!("{tag}/tweaked-aggregate-rejected-valid-sum"), format!("{ctx}: {e:?}"));
                        } else if got != vec![id_hex::<C>(&wrong[0])] {
                            o.fail(
                                format!("{tag}/tweaked-aggregate-wrong-culprit"),
                                format!("{ctx}: aggregate{} named {:?}, expected exactly the lowest wrong signer {}", if root.bytes().is_some() { "_with_tweak" } else { "" }, e.culprits().iter().map(|i| id_short::<C>(i)).collect::<Vec<_>>(), id_short::<C>(&wrong[0])),
                            );
                        }
                    }
                }
            }
            // stand-alone share verification agrees with e_i == 0
            for (i, id) in s.iter().enumerate() {
                let vs = run.pkp_used.verifying_shares()[id];
                let r = fc::verify_signature_share(*id, &vs, &bad[id], &run.pkg, run.pkp_used.verifying_key());
                if r.is_ok() != (errs[i] == zero::<C>()) {
                    o.fail(format!("{tag}/verify-share-wrong"), format!("{ctx}: pos {i}: ok={}", r.is_ok()));
                }
            }
            let _ = &run.nonces;
            let _ = &run.s;
        }
        Case::Single { key_odd, msg, seed } => {
            // SigningKey::sign must yield a BIP-340 signature for the x-only key, for both parities
            let m = message(*msg);
            for k in 0..64 {
                let sk = fc::SigningKey::<C>::from_scalar(sc_seeded_nz::<C>(&format!("{seed}.single.{k}"))).unwrap();
                let vk = fc::VerifyingKey::<C>::from(&sk);
                let vb = el_bytes::<C>(&vk.to_element()).unwrap();
                if (vb[0] == 3) != *key_odd {
                    continue;
                }
                let mut rng = crate::rng::ScriptedRng::ctr(format!("{seed}.single.{k}"));
                let sig = sk.sign(&mut rng, &m);
                o.eval(true);
                let sb = sig.serialize().unwrap();
                if !bip340_verify_xonly(&vb[1..], &m, &sb) || vk.verify(&m, &sig).is_err() {
                    o.fail(format!("{tag}/single-signer-not-bip340"), format!("key_odd={key_odd} msg={msg}"));
                } else {
                    o.count("libsecp_verified", 1);
                }
                break;
            }
            o.class("single");
        }
    }
    o
}
