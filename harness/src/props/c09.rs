//! C09 — no delivery history of keygen messages lets honest parties silently diverge.
//! E3: two honest concurrent runs A and B; the network delivers, into every sender's slot of
//! every participant, any contribution that sender produced for anyone in any run, or nothing.

use crate::runner::{Outcome, Prop, Tier};
use crate::suites::{Id, REAL_SUITES, Suite};
use crate::util::*;
use crate::with_suite;
use frost_core as fc;
use frost_core::keys::dkg::{round1 as d1, round2 as d2};
use serde::{Deserialize, Serialize};
use serde_json::Value;
use std::collections::BTreeMap;

pub struct C09;

#[derive(Serialize, Deserialize, Clone, Debug)]
#[serde(tag = "part")]
enum Case {
    /// one participant, one own run: EVERY round-one filling, and for every accepted one EVERY round-two filling
    Participant { suite: String, n: u16, ta: u16, tb: u16, idkind: IdKind, who: usize, own: usize, seed: String },
    /// all participants complete on one common round-one set (each slot from run A or B)
    Global { suite: String, n: u16, t: u16, idkind: IdKind, pick: Vec<usize>, seed: String },
}

impl Prop for C09 {
    fn id(&self) -> &'static str {
        "C09"
    }
    fn level(&self) -> &'static str {
        "model_checking"
    }
    fn rule(&self) -> String {
        "explicit exploration of delivery histories on the real part2/part3: n in {3,4}, every (t_A,t_B), two honest runs; per participant and own run EVERY assignment of {A, B, absent} to each round-one slot, and for every accepted one EVERY assignment of ({A,B} x addressee) or absent to each round-two slot; reference predicate: part2 Ok <=> no slot absent and every filed commitment has the own threshold; part3 Ok <=> every slot holds a share that satisfies the VSS equation against the commitment filed for the same sender (computed independently), which on real curves coincides with (run filed in round one, addressee = this participant); on Ok the key material is checked for internal consistency; globally, for EVERY common round-one set all participants complete, hold identical public packages and every t-subset signs. states = (participant, fillings) executed; transitions = part2/part3 calls; traces = accepting histories".into()
    }
    fn assumptions(&self) -> Vec<String> {
        vec![
            "honest senders only (C08 covers malformed contributions); an honest sender's outputs depend only on its own polynomial and the identifier set it saw - verified on the code in every run (part2 outputs compared with the canonical ones for every filling)".into(),
        ]
    }
    fn bound(&self, tier: Tier) -> String {
        format!("n=3 on all suites + tiny; n=4 on {}; all (t_A,t_B); 2 runs", tier.pick("ed25519, secp256k1-tr, tiny13", "ed25519, ristretto255, secp256k1, secp256k1-tr, tiny13"))
    }
    fn required_counters(&self) -> Vec<&'static str> {
        vec!["states", "transitions", "traces", "part3_accepted", "part3_rejected", "part2_rejected", "global_agreements"]
    }
    fn cases(&self, tier: Tier, seed: u64) -> Vec<Value> {
        let mut out = vec![];
        let n4: Vec<&str> = match tier {
            Tier::Quick => vec!["ed25519", "secp256k1-tr", "tiny13"],
            Tier::Thorough => vec!["ed25519", "ristretto255", "secp256k1", "secp256k1-tr", "tiny13"],
        };
        for n in [3u16, 4] {
            for suite in REAL_SUITES.iter().copied().chain(["tiny11", "tiny13"]) {
                if n == 4 && !n4.contains(&suite) {
                    continue;
                }
                for idkind in [IdKind::Seq, IdKind::U16x] {
                    if n == 4 && tier == Tier::Quick && idkind == IdKind::Seq {
                        continue;
                    }
                    if suite.starts_with("tiny") && idkind == IdKind::U16x {
                        continue;
                    }
                    for ta in 2..=n {
                        for tb in 2..=n {
                            for who in 0..n as usize {
                                for own in 0..2 {
                                    out.push(serde_json::to_value(Case::Participant { suite: suite.to_string(), n, ta, tb, idkind, who, own, seed: format!("s{seed}") }).unwrap());
                                }
                            }
                        }
                        for pick in product(2, n as usize) {
                            out.push(serde_json::to_value(Case::Global { suite: suite.to_string(), n, t: ta, idkind, pick, seed: format!("s{seed}") }).unwrap());
                        }
                    }
                }
            }
        }
        out
    }
    fn run(&self, case: &Value) -> Outcome {
        let c: Case = serde_json::from_value(case.clone()).expect("case");
        let suite = match &c {
            Case::Participant { suite, .. } | Case::Global { suite, .. } => suite.clone(),
        };
        with_suite!(suite.as_str(), run_case, &c)
    }
}

fn two_runs<C: Suite>(n: u16, ta: u16, tb: u16, idkind: IdKind, seed: &str) -> Result<[DkgRun<C>; 2], String> {
    let idlist = make_ids::<C>(idkind, n as usize);
    // on the tiny field search for a seed without degenerate (zero) draws in either run
    for k in 0..50 {
        let a = dkg_run::<C>(n, ta, &idlist, &format!("{seed}.A{k}"));
        let b = dkg_run::<C>(n, tb, &idlist, &format!("{seed}.B{k}"));
        if let (Ok(a), Ok(b)) = (a, b) {
            return Ok([a, b]);
        }
        if !C::TINY {
            break;
        }
    }
    Err("honest runs failed".into())
}

fn run_case<C: Suite>(c: &Case) -> Outcome {
    let mut o = Outcome::new();
    let tag = format!("C09/{}", C::name());
    match c {
        Case::Participant { n, ta, tb, idkind, who, own, seed, .. } => {
            let runs = match two_runs::<C>(*n, *ta, *tb, *idkind, seed) {
                Ok(r) => r,
                Err(e) => {
                    o.fail(format!("{tag}/setup"), e);
                    return o;
                }
            };
            let ts = [*ta, *tb];
            let ids = runs[0].ids.clone();
            let me = ids[*who];
            let peers: Vec<Id<C>> = ids.iter().filter(|i| **i != me).copied().collect();
            let ctx = format!("n={n} tA={ta} tB={tb} ids={idkind:?} participant={} own run={}", id_short::<C>(&me), ["A", "B"][*own]);
            let own_t = ts[*own];
            // canonical outputs of this participant's own part2 (honest full delivery of its own run)
            let canon = &runs[*own].p2[&me];
            // ---- round one: every filling in {A, B, absent}^(n-1) ----
            for f1 in product(3, peers.len()) {
                let mut r1: BTreeMap<Id<C>, d1::Package<C>> = BTreeMap::new();
                for (k, p) in peers.iter().enumerate() {
                    if f1[k] < 2 {
                        r1.insert(*p, runs[f1[k]].p1[p].clone());
                    }
                }
                let expect2 = f1.iter().all(|x| *x < 2) && f1.iter().all(|x| ts[*x] == own_t);
                let r = C::w_part2(runs[*own].sp1[&me].clone(), &r1);
                o.eval(true);
                o.count("transitions", 1);
                o.count("states", 1);
                if r.is_ok() != expect2 {
                    o.fail(
                        format!("{tag}/part2-{}", if expect2 { "rejected-complete-delivery" } else { "accepted-incomplete-or-mismatched-delivery" }),
                        format!("{ctx}: round-one filling {f1:?} (0=A,1=B,2=absent) -> ok={}, expected {expect2}", r.is_ok()),
                    );
                    continue;
                }
                match (&r, &fc::keys::dkg::part2::<C>(runs[*own].sp1[&me].clone(), &r1)) {
                    (Ok(a), Ok(b)) if a != b => o.fail(format!("{tag}/entry-points-diverge"), format!("{ctx}: round-one filling {f1:?}: the crate's part2 and frost_core::keys::dkg::part2 both succeed with different outputs")),
                    (Ok(_), Ok(_)) | (Err(_), Err(_)) => o.count("entry_points_agree", 1),
                    _ => o.count("entry_points_one_refuses", 1),
                }
                let Ok((sp2, out2)) = r else {
                    o.count("part2_rejected", 1);
                    continue;
                };
                // decomposition assumption, checked: outputs do not depend on what was delivered
                if out2 != *canon || sp2 != runs[*own].sp2[&me] {
                    o.fail(format!("{tag}/part2-output-depends-on-delivery"), format!("{ctx}: part2 output differs from the canonical one for filling {f1:?}"));
                }
                // ---- round two: every filling in ({A,B} x addressee  U  absent)^(n-1) ----
                // options per slot j: (run y, addressee index a) a over all participants != j
                let mut opts: Vec<Vec<Option<(usize, Id<C>)>>> = vec![];
                for p in &peers {
                    let mut v: Vec<Option<(usize, Id<C>)>> = vec![None];
                    for y in 0..2 {
                        for a in ids.iter().filter(|x| *x != p) {
                            v.push(Some((y, *a)));
                        }
                    }
                    opts.push(v);
                }
                let nopt = opts[0].len();
                for f2 in product(nopt, peers.len()) {
                    let mut r2: BTreeMap<Id<C>, d2::Package<C>> = BTreeMap::new();
                    let mut semantic = true;
                    let mut exact = true;
                    for (k, p) in peers.iter().enumerate() {
                        match &opts[k][f2[k]] {
                            None => {
                                semantic = false;
                                exact = false;
                            }
                            Some((y, a)) => {
                                let pkg = runs[*y].p2[p][a].clone();
                                // exact predicate: VSS equation against the commitment FILED for p, by the harness
                                let ce = commitment_elems::<C>(r1[p].commitment());
                                if gen_mul::<C>(pkg.signing_share().to_scalar()) != ref_eval_commitment::<C>(id_scalar::<C>(&me), &ce) {
                                    exact = false;
                                }
                                if !(*y == f1[k] && *a == me) {
                                    semantic = false;
                                }
                                r2.insert(*p, pkg);
                            }
                        }
                    }
                    if semantic && !exact {
                        o.fail(format!("{tag}/honest-share-fails-independent-vss-equation"), format!("{ctx}: the share an honest sender addressed to this participant does not satisfy G*share = sum_k i^k C_k (evaluated independently) against that sender's own commitment"));
                    }
                    if exact && !semantic {
                        o.count("accidental_share_matches", 1);
                        if !C::TINY {
                            o.fail(format!("{tag}/MACHINERY-accidental-match-on-real-curve"), format!("{ctx}: {f1:?} {f2:?}"));
                        }
                    }
                    let r = C::w_part3(&sp2, &r1, &r2);
                    o.eval(true);
                    o.count("transitions", 1);
                    o.count("states", 1);
                    if r.is_ok() != exact {
                        let what: Vec<String> = peers.iter().enumerate().map(|(k, _)| match &opts[k][f2[k]] {
                            None => "absent".to_string(),
                            Some((y, a)) => format!("run {} addressed to {}", ["A", "B"][*y], id_short::<C>(a)),
                        }).collect();
                        o.fail(
                            format!("{tag}/part3-{}", if exact { "rejected-correct-delivery" } else { "accepted-misdelivered-share" }),
                            format!("{ctx}: round one {f1:?}, round two {what:?} -> ok={}, expected {exact}", r.is_ok()),
                        );
                        if o.findings.len() > 8 {
                            return o;
                        }
                    }
                    // a peer may drive the same step through frost-core's generic entry point instead of the
                    // ciphersuite crate's: on the same deliveries both must end identically
                    let rg = fc::keys::dkg::part3::<C>(&sp2, &r1, &r2);
                    // (an error on one side is loud, not silent: only two DIFFERENT successful ends are a divergence)
                    match (&r, &rg) {
                        (Ok(a), Ok(b)) if a != b => o.fail(
                            format!("{tag}/entry-points-diverge"),
                            format!("{ctx}: round one {f1:?}: the crate's part3 and frost_core::keys::dkg::part3 both succeed on the same deliveries with different key material"),
                        ),
                        (Ok(_), Ok(_)) => o.count("entry_points_agree", 1),
                        (Err(_), Err(_)) => o.count("entry_points_agree", 1),
                        _ => o.count("entry_points_one_refuses", 1),
                    }
                    match r {
                        Ok((kp, pkp)) => {
                            o.count("part3_accepted", 1);
                            o.count("traces", 1);
                            consistent::<C>(&mut o, &tag, &ctx, &kp, &pkp, own_t, &me, &ids);
                        }
                        Err(_) => o.count("part3_rejected", 1),
                    }
                }
            }
            o.class("participant");
        }
        Case::Global { n, t, idkind, pick, seed, .. } => {
            let runs = match two_runs::<C>(*n, *t, *t, *idkind, seed) {
                Ok(r) => r,
                Err(e) => {
                    o.fail(format!("{tag}/setup"), e);
                    return o;
                }
            };
            let ids = runs[0].ids.clone();
            let ctx = format!("n={n} t={t} ids={idkind:?} common round-one set={pick:?}");
            let mut kps = BTreeMap::new();
            let mut pkps = vec![];
            for (wi, me) in ids.iter().enumerate() {
                let mut r1 = BTreeMap::new();
                let mut r2 = BTreeMap::new();
                for (j, p) in ids.iter().enumerate() {
                    if p != me {
                        r1.insert(*p, runs[pick[j]].p1[p].clone());
                        r2.insert(*p, runs[pick[j]].p2[p][me].clone());
                    }
                }
                let own = pick[wi];
                o.count("transitions", 2);
                let r = C::w_part2(runs[own].sp1[me].clone(), &r1).and_then(|(sp2, _)| C::w_part3(&sp2, &r1, &r2));
                match r {
                    Ok((kp, pkp)) => {
                        consistent::<C>(&mut o, &tag, &ctx, &kp, &pkp, *t, me, &ids);
                        kps.insert(*me, kp);
                        pkps.push(pkp);
                    }
                    Err(e) => {
                        o.eval(true);
                        o.fail(format!("{tag}/common-set-not-completed"), format!("{ctx}: participant {} failed: {e:?}", id_short::<C>(me)));
                        return o;
                    }
                }
            }
            o.eval(true);
            o.count("states", 1);
            o.count("traces", 1);
            for p in &pkps {
                if *p != pkps[0] {
                    o.fail(format!("{tag}/silent-divergence"), format!("{ctx}: participants completed with different public key packages"));
                    return o;
                }
            }
            o.count("global_agreements", 1);
            let m = message(2);
            for sm in subsets(*n as usize, *t as usize, *t as usize) {
                let sel = crate::util::pick::<C>(&ids, sm);
                if C::TINY {
                    if let Ok(sess) = run_session::<C>(&kps, &sel, &m, "g") {
                        if let Ok(sig) = fc::aggregate(&sess.pkg, &sess.shares, &pkps[0]) {
                            if pkps[0].verifying_key().verify(&m, &sig).is_err() {
                                o.fail(format!("{tag}/cannot-sign-together"), format!("{ctx}: subset {sm:b}"));
                            }
                        }
                    }
                } else {
                    super::c01::session_check::<C>(&mut o, &format!("{tag}/cannot-sign-together"), &kps, &pkps[0], &sel, &m, "g");
                }
            }
            o.class("global");
        }
    }
    o
}

fn consistent<C: Suite>(
    o: &mut Outcome,
    tag: &str,
    ctx: &str,
    kp: &fc::keys::KeyPackage<C>,
    pkp: &fc::keys::PublicKeyPackage<C>,
    t: u16,
    me: &Id<C>,
    ids: &[Id<C>],
) {
    let gs = gen_mul::<C>(kp.signing_share().to_scalar());
    if kp.verifying_share().to_element() != gs
        || pkp.verifying_shares().get(me).map(|v| v.to_element()) != Some(gs)
        || kp.verifying_key() != pkp.verifying_key()
        || *kp.min_signers() != t
        || pkp.min_signers() != Some(t)
        || kp.identifier() != me
        || pkp.verifying_shares().keys().copied().collect::<Vec<_>>() != ids
    {
        o.fail(format!("{tag}/inconsistent-key-material"), format!("{ctx}: part3 returned key material that is not internally consistent (verifying share / G*share / own public entry / key / threshold / member set)"));
    }
}
