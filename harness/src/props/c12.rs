//! C12 — wire encodings round-trip, are canonical, and reject everything else.
//! E4: byte-space deviation explorer over every valid encoding of a corpus.

use crate::corpus::*;
use crate::runner::{Outcome, Prop, Tier};
use crate::suites::{REAL_SUITES, Suite};
use crate::util::*;
use crate::with_suite;
use frost_core as fc;
use frost_core::Identifier;
use serde::{Deserialize, Serialize};
use serde_json::Value;

pub struct C12;

#[derive(Serialize, Deserialize, Clone, Debug)]
#[serde(tag = "part")]
enum Case {
    /// decode(encode(v)) == v for every wire type, binary and JSON
    RoundTrip { suite: String, n: u16, t: u16, idkind: IdKind, seed: String },
    /// every single-bit / single-byte / length deviation of one base encoding of one primitive decoder
    Canon { suite: String, item: String, path: String, base: usize, pairs: bool },
    /// explicit must-reject strings (zero, q, q+1, all-ff, identity spellings, torsion, x>=p ...)
    Negatives { suite: String },
    /// header: every other version byte, every deviation of the ciphersuite id, other suites' ids; JSON headers
    Headers { suite: String },
    /// another ciphersuite's valid encodings fed to this suite's decoders
    CrossSuite { suite: String, other: String },
    /// accept/reject of the raw scalar / element decoder vs. the independent Python decoders
    /// (catches over-rejection as well as over-acceptance)
    Differential { suite: String, kind: String, full: bool },
}

fn n_bases(tier: Tier, kind: WKind) -> usize {
    match kind {
        WKind::Scalar => tier.pick(5, 7),
        WKind::Element => tier.pick(3, 7),
        _ => tier.pick(1, 3),
    }
}

impl Prop for C12 {
    fn id(&self) -> &'static str {
        "C12"
    }
    fn level(&self) -> &'static str {
        "exploration"
    }
    fn rule(&self) -> String {
        "E4 byte-deviation explorer: for every primitive decoder (identifier, shares, keys, nonces, commitments, deltas, randomizer, signature, commitment vector) x 3 decoding paths (own deserialize, serde+postcard, serde+JSON) x several base encodings (1, 2, q-1, seeded; G, kG): EVERY single-bit flip, EVERY single-byte substitution (255 values x every position), EVERY length 0..2L; oracle: accepted => re-encoding reproduces the input exactly. Plus explicit must-reject strings, every version byte, every deviation of the ciphersuite id, cross-suite encodings, value round trips of ~40 wire types x shapes x id kinds in postcard and JSON (JSON decoded from memory, through a reader and through a Value), the message alphabet, thresholds at the varint boundaries, 300-entry containers; a JSON ciphersuite string with the SAME CRC-32 as the real one must be rejected; accept/reject of the raw decoders compared with independent Python decoders. Non-trivial = a deviation that differs from the base encoding was decoded".into()
    }
    fn assumptions(&self) -> Vec<String> {
        vec![
            "byte strings more than one deviation away from a valid encoding are not enumerated (thorough: two-bit flips on primitives <= 33 bytes)".into(),
            "postcard containers accept trailing bytes / non-minimal varints and JSON accepts upper-case hex: framing of the serde back ends, outside the property's fixed-size canonicity clause (DESIGN 3.8 rule 6); counted, not alarmed".into(),
        ]
    }
    fn bound(&self, tier: Tier) -> String {
        format!("1 simultaneous deviation ({}), every position/value/length; {} bases per scalar decoder", tier.pick("single", "plus all 2-bit flips for <=33-byte primitives"), tier.pick(5, 7))
    }
    fn required_counters(&self) -> Vec<&'static str> {
        vec!["deviations_decoded", "deviations_rejected", "roundtrips_ok", "header_deviations_rejected", "explicit_negatives_rejected", "cross_suite_rejected"]
    }
    fn cases(&self, tier: Tier, seed: u64) -> Vec<Value> {
        let mut out = vec![];
        for suite in REAL_SUITES {
            for (n, t) in [(2u16, 2u16), (3, 2), (4, 3)] {
                for idkind in ALL_IDKINDS {
                    if tier == Tier::Quick && (n, t) == (4, 3) && !(idkind == IdKind::Mixed) {
                        continue;
                    }
                    out.push(serde_json::to_value(Case::RoundTrip { suite: suite.to_string(), n, t, idkind, seed: format!("s{seed}") }).unwrap());
                }
            }
            out.push(serde_json::to_value(Case::Negatives { suite: suite.to_string() }).unwrap());
            out.push(serde_json::to_value(Case::Headers { suite: suite.to_string() }).unwrap());
            for other in REAL_SUITES {
                if other != suite {
                    out.push(serde_json::to_value(Case::CrossSuite { suite: suite.to_string(), other: other.to_string() }).unwrap());
                }
            }
            for kind in ["scalar", "element"] {
                out.push(serde_json::to_value(Case::Differential { suite: suite.to_string(), kind: kind.to_string(), full: tier == Tier::Thorough }).unwrap());
            }
        }
        // canon cases: enumerate the primitive decoders from a corpus of one suite (names are uniform)
        let names: Vec<(String, WKind, WPath)> = with_suite!("ed25519", prim_names);
        for suite in REAL_SUITES {
            for (name, kind, path) in &names {
                for base in 0..n_bases(tier, *kind) {
                    out.push(serde_json::to_value(Case::Canon { suite: suite.to_string(), item: name.clone(), path: format!("{path:?}"), base, pairs: tier == Tier::Thorough && base < 2 && *path == WPath::Raw }).unwrap());
                }
            }
        }
        out
    }
    fn run(&self, case: &Value) -> Outcome {
        let c: Case = serde_json::from_value(case.clone()).expect("case");
        let suite = match &c {
            Case::RoundTrip { suite, .. } | Case::Canon { suite, .. } | Case::Negatives { suite } | Case::Headers { suite } | Case::CrossSuite { suite, .. } | Case::Differential { suite, .. } => suite.clone(),
        };
        with_suite!(suite.as_str(), run_case, &c)
    }
}

/// The primitive decoders (static: the enumerator must not depend on the library behaving).
fn prim_names<C: Suite>() -> Vec<(String, WKind, WPath)> {
    let mut v = vec![];
    for n in ["Identifier", "SigningShare", "Nonce", "Delta", "Sigma", "Randomizer"] {
        for p in [WPath::Raw, WPath::Postcard, WPath::Json] {
            v.push((n.to_string(), WKind::Scalar, p));
        }
    }
    v.push(("SigningKey".to_string(), WKind::Scalar, WPath::Raw));
    v.push(("SignatureShare".to_string(), WKind::Scalar, WPath::Raw));
    for n in ["VerifyingShare", "VerifyingKey", "NonceCommitment", "CoefficientCommitment"] {
        for p in [WPath::Raw, WPath::Postcard, WPath::Json] {
            v.push((n.to_string(), WKind::Element, p));
        }
    }
    v.push(("Signature".to_string(), WKind::Signature, WPath::Raw));
    v.push(("VssCommitment.whole".to_string(), WKind::ElementVec, WPath::Raw));
    v
}

fn run_case<C: Suite>(c: &Case) -> Outcome {
    match c {
        Case::RoundTrip { n, t, idkind, seed, .. } => roundtrip::<C>(*n, *t, *idkind, seed),
        Case::Canon { item, path, base, pairs, .. } => canon::<C>(item, path, *base, *pairs),
        Case::Negatives { .. } => negatives::<C>(),
        Case::Headers { .. } => headers::<C>(),
        Case::CrossSuite { other, .. } => cross::<C>(other),
        Case::Differential { kind, full, .. } => differential::<C>(kind, *full),
    }
}

fn roundtrip<C: Suite>(n: u16, t: u16, idkind: IdKind, seed: &str) -> Outcome {
    let mut o = Outcome::new();
    let tag = format!("C12/{}", C::name());
    let m = match material::<C>(n, t, idkind, seed) {
        Ok(m) => m,
        Err(e) => {
            o.eval(false);
            o.fail(format!("{tag}/setup"), e);
            return o;
        }
    };
    for it in wire_items::<C>(&m) {
        o.eval(true);
        match &it.roundtrip {
            Ok(()) => o.count("roundtrips_ok", 1),
            Err(e) => o.fail(format!("{tag}/roundtrip/{}/{:?}", it.name, it.path), format!("n={n} t={t} ids={idkind:?}: {e}")),
        }
    }
    // every identifier / share / commitment of the group as well (not only the representative one)
    for (id, kp) in &m.grp.kps {
        o.eval(true);
        if Identifier::<C>::deserialize(&id.serialize()).ok() != Some(*id) {
            o.fail(format!("{tag}/roundtrip/Identifier/Raw"), format!("ids={idkind:?} id {}", id_short::<C>(id)));
        }
        let b = kp.serialize().ok();
        if b.as_ref().and_then(|b| fc::keys::KeyPackage::<C>::deserialize(b).ok()).as_ref() != Some(kp) {
            o.fail(format!("{tag}/roundtrip/KeyPackage/Raw"), format!("ids={idkind:?} id {}", id_short::<C>(id)));
        }
        let j = serde_json::to_string(kp).ok();
        if j.as_ref().and_then(|s| serde_json::from_str::<fc::keys::KeyPackage<C>>(s).ok()).as_ref() != Some(kp) {
            o.fail(format!("{tag}/roundtrip/KeyPackage/Json"), format!("ids={idkind:?} id {}", id_short::<C>(id)));
        }
        o.count("roundtrips_ok", 1);
    }
    // signing packages over the message alphabet (empty, block boundaries, 1000 bytes) and key / public
    // packages with thresholds at the varint boundaries
    for mi in 0..11 {
        let pkg = fc::SigningPackage::<C>::new(m.sess.pkg.signing_commitments().clone(), &message(mi));
        o.eval(true);
        let ok_bin = pkg.serialize().ok().and_then(|b| fc::SigningPackage::<C>::deserialize(&b).ok()).as_ref() == Some(&pkg);
        let ok_json = serde_json::to_string(&pkg).ok().and_then(|j| serde_json::from_str::<fc::SigningPackage<C>>(&j).ok()).as_ref() == Some(&pkg);
        if !ok_bin || !ok_json {
            o.fail(format!("{tag}/roundtrip/SigningPackage/message-alphabet"), format!("message #{mi} ({} bytes): binary ok={ok_bin} json ok={ok_json}", message(mi).len()));
        } else {
            o.count("roundtrips_ok", 1);
        }
    }
    {
        let kp0 = m.grp.kps.values().next().unwrap();
        for ms in [0u16, 1, 127, 128, 255, 256, 16383, 16384, 65534, 65535] {
            let kp = fc::keys::KeyPackage::<C>::new(*kp0.identifier(), *kp0.signing_share(), *kp0.verifying_share(), *kp0.verifying_key(), ms);
            let pk = fc::keys::PublicKeyPackage::<C>::new(m.grp.pkp.verifying_shares().clone(), *m.grp.pkp.verifying_key(), Some(ms));
            o.eval(true);
            let a = kp.serialize().ok().and_then(|b| fc::keys::KeyPackage::<C>::deserialize(&b).ok()).as_ref() == Some(&kp);
            let b = serde_json::to_string(&kp).ok().and_then(|j| serde_json::from_str::<fc::keys::KeyPackage<C>>(&j).ok()).as_ref() == Some(&kp);
            let c = pk.serialize().ok().and_then(|b| fc::keys::PublicKeyPackage::<C>::deserialize(&b).ok()).as_ref() == Some(&pk);
            let d = serde_json::to_string(&pk).ok().and_then(|j| serde_json::from_str::<fc::keys::PublicKeyPackage<C>>(&j).ok()).as_ref() == Some(&pk);
            if !(a && b && c && d) {
                o.fail(format!("{tag}/roundtrip/threshold-boundary"), format!("min_signers={ms}: KeyPackage bin={a} json={b}; PublicKeyPackage bin={c} json={d}"));
            } else {
                o.count("roundtrips_ok", 1);
            }
        }
    }
    // large containers: 300 participants / commitments (length varints above 127 and 255)
    if (n, t) == (2, 2) && idkind == IdKind::Seq {
        let big = make_group::<C>(KeySrc::Dealer, if C::NAME == "ed448" { 140 } else { 300 }, 2, IdKind::Seq, "c12big");
        if let Ok(big) = big {
            o.eval(true);
            let pk = &big.pkp;
            let a = pk.serialize().ok().and_then(|b| fc::keys::PublicKeyPackage::<C>::deserialize(&b).ok()).as_ref() == Some(pk);
            let b = serde_json::to_string(pk).ok().and_then(|j| serde_json::from_str::<fc::keys::PublicKeyPackage<C>>(&j).ok()).as_ref() == Some(pk);
            let s: Vec<_> = big.ids.iter().skip(100).take(if C::NAME == "ed448" { 30 } else { 150 }).copied().collect();
            let (_, comms) = commit_all::<C>(&big.kps, &s, "c12big");
            let pkg = fc::SigningPackage::<C>::new(comms, &message(10));
            let c2 = pkg.serialize().ok().and_then(|b| fc::SigningPackage::<C>::deserialize(&b).ok()).as_ref() == Some(&pkg);
            let d = serde_json::to_string(&pkg).ok().and_then(|j| serde_json::from_str::<fc::SigningPackage<C>>(&j).ok()).as_ref() == Some(&pkg);
            if !(a && b && c2 && d) {
                o.fail(format!("{tag}/roundtrip/large-containers"), format!("PublicKeyPackage bin={a} json={b}; SigningPackage bin={c2} json={d}"));
            } else {
                o.count("roundtrips_ok", 1);
            }
        }
    }
    // pre-3.0 public key package: binary form is the new form minus the trailing option
    if let (Ok(newb), Ok(oldb)) = (
        m.grp.pkp.serialize(),
        fc::keys::PublicKeyPackage::<C>::new(m.grp.pkp.verifying_shares().clone(), *m.grp.pkp.verifying_key(), None).serialize(),
    ) {
        o.eval(true);
        match fc::keys::PublicKeyPackage::<C>::deserialize(&oldb) {
            Ok(p) => {
                if p.min_signers().is_some() || p.verifying_shares() != m.grp.pkp.verifying_shares() || p.verifying_key() != m.grp.pkp.verifying_key() {
                    o.fail(format!("{tag}/pre3-public-key-package"), "pre-3.0 form decodes to a different value".to_string());
                }
            }
            Err(e) => o.fail(format!("{tag}/pre3-public-key-package"), format!("pre-3.0 form rejected: {e:?}")),
        }
        if !newb.starts_with(&oldb) {
            o.fail(format!("{tag}/pre3-public-key-package"), "new form is not the old form plus the threshold".to_string());
        }
        match fc::keys::PublicKeyPackage::<C>::deserialize(&newb) {
            Ok(p) => {
                if p.min_signers() != Some(t) {
                    o.fail(format!("{tag}/public-key-package-threshold-lost"), format!("decoded threshold {:?}", p.min_signers()));
                }
            }
            Err(e) => o.fail(format!("{tag}/roundtrip/PublicKeyPackage/Raw"), format!("{e:?}")),
        }
    }
    o.class("roundtrip");
    o
}

/// base encodings for a primitive kind
fn bases_for<C: Suite>(kind: WKind, name: &str, path: WPath) -> Vec<Vec<u8>> {
    let mut v = vec![];
    match kind {
        WKind::Scalar => {
            v.push(sc_bytes::<C>(&one::<C>()));
            v.push(sc_bytes::<C>(&neg::<C>(one::<C>())));
            v.push(sc_bytes::<C>(&sc_u64::<C>(2)));
            for k in 0..4 {
                v.push(sc_bytes::<C>(&sc_seeded_nz::<C>(&format!("c12base{k}"))));
            }
        }
        WKind::Element => {
            v.push(el_bytes::<C>(&gen_mul::<C>(one::<C>())).unwrap());
            v.push(el_bytes::<C>(&gen_mul::<C>(neg::<C>(one::<C>()))).unwrap());
            v.push(el_bytes::<C>(&gen_mul::<C>(sc_seeded_nz::<C>("c12el0"))).unwrap());
            for k in [2u64, 3, 5] {
                v.push(el_bytes::<C>(&gen_mul::<C>(sc_u64::<C>(k))).unwrap());
            }
            v.push(el_bytes::<C>(&gen_mul::<C>(sc_seeded_nz::<C>("c12el1"))).unwrap());
        }
        _ => {
            for k in 0..3 {
                let m = material::<C>(3, 2, IdKind::Seq, &format!("c12sig{k}")).expect("material");
                for it in wire_items::<C>(&m) {
                    if it.name == name && it.path == path {
                        v.push(it.bytes.clone());
                    }
                }
            }
        }
    }
    v
}

fn canon<C: Suite>(item: &str, path_s: &str, base_idx: usize, pairs: bool) -> Outcome {
    let mut o = Outcome::new();
    let m = material::<C>(3, 2, IdKind::Seq, "canon").expect("material");
    let items = wire_items::<C>(&m);
    let Some(it) = items.iter().find(|i| i.name == item && format!("{:?}", i.path) == path_s) else {
        o.eval(false);
        o.fail(format!("C12/{}/MACHINERY-no-item", C::name()), format!("{item} {path_s}"));
        return o;
    };
    let kindname = match it.kind {
        WKind::Scalar => "scalar",
        WKind::Element => "element",
        WKind::Signature => "signature",
        WKind::ElementVec => "commitment-vector",
        WKind::Container => "container",
    };
    let tag = format!("C12/{}/{kindname}/{:?}", C::name(), it.path);
    let bases = bases_for::<C>(it.kind, item, it.path);
    let Some(base) = bases.get(base_idx) else {
        o.eval(false);
        return o;
    };
    let l = base.len();
    // the base itself must be accepted and canonical (non-vacuity)
    match (it.dec)(base) {
        Some(Some(b)) if b == *base => {}
        other => {
            o.fail(format!("{tag}/base-not-accepted"), format!("{item}: valid base encoding {} -> {:?}", hex::encode(base), other.map(|x| x.map(hex::encode))));
            return o;
        }
    }
    let mut check = |o: &mut Outcome, bytes: &[u8], what: String, wherek: String| {
        let differs = bytes != &base[..];
        match (it.dec)(bytes) {
            None => {
                o.eval(differs);
                o.count("deviations_rejected", 1);
            }
            Some(re) => {
                o.eval(differs);
                o.count("deviations_decoded", 1);
                if re.as_deref() != Some(bytes) {
                    o.fail(
                        format!("{tag}/noncanonical-accept/{wherek}"),
                        format!("{item}: {what}: {} accepted, re-encodes to {}", hex::encode(bytes), re.map(hex::encode).unwrap_or("<unencodable>".into())),
                    );
                }
            }
        }
    };
    // every single-byte substitution (covers every single-bit flip and every leading tag byte)
    for pos in 0..l {
        for val in 0..=255u8 {
            if val == base[pos] {
                continue;
            }
            let mut b = base.clone();
            b[pos] = val;
            check(&mut o, &b, format!("byte {pos} := {val:#04x}"), format!("byte{pos}"));
        }
    }
    // every length 0..=2L (prefixes of base||base), except L itself. Through postcard/JSON containers of
    // variable size (signature) and serde paths, extension is the back end's framing: only the raw path
    // and fixed primitives through JSON are length-checked here.
    if it.path == WPath::Raw || it.path == WPath::Json {
        let mut dbl = base.clone();
        dbl.extend_from_slice(base);
        dbl.push(0);
        for len in 0..=(2 * l + 1) {
            if len == l {
                continue;
            }
            if it.kind == WKind::ElementVec && len % (l / m.grp.t as usize) == 0 && len > 0 {
                // a whole number of elements is a legitimately different commitment vector
                continue;
            }
            check(&mut o, &dbl[..len], format!("length {len} instead of {l}"), format!("len{}", if len < l { "short" } else { "long" }));
        }
    } else {
        for len in 0..l {
            check(&mut o, &base[..len], format!("length {len} instead of {l}"), "lenshort".to_string());
        }
    }
    // thorough: every pair of bit flips for primitives up to 33 bytes
    if pairs && l <= 33 {
        for i in 0..l * 8 {
            for j in (i + 1)..l * 8 {
                let mut b = base.clone();
                b[i / 8] ^= 1 << (i % 8);
                b[j / 8] ^= 1 << (j % 8);
                check(&mut o, &b, format!("bits {i},{j} flipped"), format!("byte{}", i / 8));
            }
        }
    }
    o.class(kindname);
    o
}

fn add_one(bytes: &[u8], little: bool) -> Vec<u8> {
    let mut b = bytes.to_vec();
    let idx: Vec<usize> = if little { (0..b.len()).collect() } else { (0..b.len()).rev().collect() };
    for i in idx {
        if b[i] == 0xff {
            b[i] = 0;
        } else {
            b[i] += 1;
            break;
        }
    }
    b
}

fn negatives<C: Suite>() -> Outcome {
    let mut o = Outcome::new();
    let tag = format!("C12/{}", C::name());
    let m = material::<C>(3, 2, IdKind::Seq, "neg").expect("material");
    let items = wire_items::<C>(&m);
    let one_enc = sc_bytes::<C>(&one::<C>());
    let little = one_enc[0] == 1;
    let l = one_enc.len();
    let qm1 = sc_bytes::<C>(&neg::<C>(one::<C>()));
    let q = add_one(&qm1, little);
    let qp1 = add_one(&q, little);
    let mut scal_neg: Vec<(String, Vec<u8>)> = vec![
        ("q".into(), q.clone()),
        ("q+1".into(), qp1),
        ("all-ff".into(), vec![0xff; l]),
    ];
    // q-1 / 1 with each possible high bit / extra byte set (ignored high bits)
    for base in [&qm1, &one_enc] {
        let hi = if little { l - 1 } else { 0 };
        for bit in 0..8 {
            let mut b = base.to_vec();
            if b[hi] & (1 << bit) == 0 {
                b[hi] |= 1 << bit;
                scal_neg.push((format!("high-bit-{bit}-set"), b));
            }
        }
    }
    let zero_enc = vec![0u8; l];
    for it in items.iter().filter(|i| i.kind == WKind::Scalar) {
        for (label, b) in &scal_neg {
            // a high bit may produce another *valid canonical* scalar (< q): accept iff canonical
            o.eval(true);
            match (it.dec)(b) {
                None => o.count("explicit_negatives_rejected", 1),
                Some(re) => {
                    if re.as_deref() != Some(&b[..]) || label == "q" || label == "q+1" || label == "all-ff" {
                        o.fail(format!("{tag}/scalar/accepts-{label}"), format!("{} ({:?}): {} accepted", it.name, it.path, hex::encode(b)));
                    }
                }
            }
        }
        o.eval(true);
        let r = (it.dec)(&zero_enc);
        if it.nonzero {
            if r.is_some() {
                o.fail(format!("{tag}/scalar/accepts-zero"), format!("{} ({:?}) accepts the zero scalar", it.name, it.path));
            } else {
                o.count("explicit_negatives_rejected", 1);
            }
        } else if r.is_none() && it.name.contains("Nonce") {
            // a zero nonce is not a value honest code produces; refusing to decode it would be hardening
            o.count("zero_nonce_rejected", 1);
        } else if r.is_none() {
            // zero is a value these types can hold (a share f(i) = 0, a zero response, a zero randomizer built
            // with from_scalar): "decoding an encoding returns an equal value" includes it
            o.fail(format!("{tag}/scalar/rejects-own-encoding-of-zero"), format!("{} ({:?}): the all-zero encoding, which the type itself produces for the value 0, is rejected", it.name, it.path));
        } else {
            o.count("zero_accepted_where_it_is_a_value", 1);
        }
    }
    // ---- elements ----
    let g_enc = el_bytes::<C>(&gen_mul::<C>(one::<C>())).unwrap();
    let el = g_enc.len();
    let mut el_neg: Vec<(String, Vec<u8>)> = vec![("all-zero".into(), vec![0; el]), ("all-ff".into(), vec![0xff; el])];
    el_neg.extend(suite_element_negatives::<C>());
    for it in items.iter().filter(|i| i.kind == WKind::Element) {
        for (label, b) in &el_neg {
            o.eval(true);
            match (it.dec)(b) {
                None => o.count("explicit_negatives_rejected", 1),
                Some(_) => o.fail(format!("{tag}/element/accepts-{label}"), format!("{} ({:?}): {} accepted", it.name, it.path, hex::encode(b))),
            }
        }
    }
    // ---- signatures: the same negatives on both halves ----
    if let Some(it) = items.iter().find(|i| i.kind == WKind::Signature) {
        let sb = it.bytes.clone();
        let rl = sb.len() - l;
        for (label, b) in &scal_neg {
            if !(label == "q" || label == "q+1" || label == "all-ff") {
                continue;
            }
            let mut s = sb.clone();
            s[rl..].copy_from_slice(b);
            o.eval(true);
            if (it.dec)(&s).is_some() {
                o.fail(format!("{tag}/signature/accepts-z-{label}"), hex::encode(&s));
            } else {
                o.count("explicit_negatives_rejected", 1);
            }
        }
        for (label, b) in &el_neg {
            let mut s = sb.clone();
            // x-only R for Taproot: drop the tag byte
            // x-only R (Taproot): the tag byte is not part of the encoding, so tag negatives do not apply
            if rl + 1 == b.len() && label.starts_with("sec1-tag") {
                continue;
            }
            let src: &[u8] = if rl == b.len() { b } else if rl + 1 == b.len() { &b[1..] } else { continue };
            s[..rl].copy_from_slice(src);
            o.eval(true);
            if (it.dec)(&s).is_some() {
                o.fail(format!("{tag}/signature/accepts-R-{label}"), hex::encode(&s));
            } else {
                o.count("explicit_negatives_rejected", 1);
            }
        }
    }
    // ---- the same value in ANOTHER plausible format or framing (wrong length for this suite) ----
    for it in items.iter().filter(|i| matches!(i.kind, WKind::Scalar | WKind::Element | WKind::Signature)) {
        let b = &it.bytes;
        if it.path != crate::corpus::WPath::Raw {
            continue;
        }
        let mut alts: Vec<(String, Vec<u8>)> = vec![
            ("zero-byte-appended".into(), [b.clone(), vec![0]].concat()),
            ("zero-byte-prepended".into(), [vec![0], b.clone()].concat()),
            ("last-byte-dropped".into(), b[..b.len() - 1].to_vec()),
            ("first-byte-dropped".into(), b[1..].to_vec()),
            ("encoded-twice".into(), [b.clone(), b.clone()].concat()),
        ];
        let sec1 = matches!(C::NAME, "p256" | "secp256k1" | "secp256k1-tr");
        if sec1 && it.kind == WKind::Element {
            if let Some(unc) = sec1_uncompressed::<C>(b) {
                alts.push(("sec1-uncompressed".into(), unc.clone()));
                for tag in [6u8, 7] {
                    let mut h = unc.clone();
                    h[0] = tag;
                    alts.push((format!("sec1-hybrid-{tag}"), h));
                }
            }
            alts.push(("x-only".into(), b[1..].to_vec()));
        }
        if sec1 && it.kind == WKind::Signature {
            if b.len() == 64 {
                // Taproot (x-only R): the SEC1-compressed spelling of the same R, both tags
                for tag in [2u8, 3] {
                    alts.push((format!("R-as-sec1-tag-{tag}"), [vec![tag], b.clone()].concat()));
                }
            } else {
                // compressed R: the x-only spelling
                alts.push(("R-x-only".into(), b[1..].to_vec()));
                if let Some(unc) = sec1_uncompressed::<C>(&b[..33]) {
                    alts.push(("R-sec1-uncompressed".into(), [unc, b[33..].to_vec()].concat()));
                }
            }
        }
        for (label, a) in alts {
            o.eval(true);
            match (it.dec)(&a) {
                None => o.count("alternative_formats_rejected", 1),
                Some(_) => o.fail(format!("{tag}/{:?}/accepts-other-format/{label}", it.kind), format!("{}: {} accepted ({} bytes; the encoding of this suite has {})", it.name, hex::encode(&a), a.len(), b.len())),
            }
        }
    }
    o.class("negatives");
    o
}

/// SEC1 uncompressed spelling (04 || x || y) of a compressed point, by the curve crates / libsecp256k1
fn sec1_uncompressed<C: Suite>(compressed: &[u8]) -> Option<Vec<u8>> {
    match C::NAME {
        "p256" => {
            use p256::elliptic_curve::sec1::ToSec1Point;
            let pk = p256::PublicKey::from_sec1_bytes(compressed).ok()?;
            Some(pk.to_sec1_point(false).as_bytes().to_vec())
        }
        "secp256k1" | "secp256k1-tr" => Some(secp256k1::PublicKey::from_slice(compressed).ok()?.serialize_uncompressed().to_vec()),
        _ => None,
    }
}

/// Per-suite hand-made element encodings that must be rejected.
fn suite_element_negatives<C: Suite>() -> Vec<(String, Vec<u8>)> {
    let mut v: Vec<(String, Vec<u8>)> = vec![];
    match C::NAME {
        "ed25519" => {
            use curve25519_dalek::constants::{ED25519_BASEPOINT_POINT, EIGHT_TORSION};
            for (i, t) in EIGHT_TORSION.iter().enumerate() {
                v.push((format!("torsion-point-{i}"), t.compress().to_bytes().to_vec()));
                if i > 0 {
                    v.push((format!("mixed-order-G+T{i}"), (ED25519_BASEPOINT_POINT + t).compress().to_bytes().to_vec()));
                    let s = curve25519_dalek::scalar::Scalar::from(7u64);
                    v.push((format!("mixed-order-7G+T{i}"), (ED25519_BASEPOINT_POINT * s + t).compress().to_bytes().to_vec()));
                }
            }
            // non-canonical spellings: identity with sign bit, y = p+1 (== 1), y = p (== 0), y = p-1 with sign
            let mut id_sign = vec![0u8; 32];
            id_sign[0] = 1;
            id_sign[31] = 0x80;
            v.push(("identity-with-sign-bit".into(), id_sign));
            let mut p = vec![0xffu8; 32];
            p[0] = 0xed;
            p[31] = 0x7f;
            v.push(("y=p".into(), p.clone()));
            let mut pp1 = p.clone();
            pp1[0] = 0xee;
            v.push(("y=p+1".into(), pp1));
            let mut p_sign = p.clone();
            p_sign[31] = 0xff;
            v.push(("y=p-with-sign".into(), p_sign));
            // y of G plus p does not fit; small y: y = 3 + p? p+3 < 2^255: encode y = p + 3
            let mut pp3 = p.clone();
            pp3[0] = 0xf0;
            v.push(("y=p+3".into(), pp3));
        }
        "ristretto255" => {
            // identity is the all-zero string (already listed); s >= p, negative s, non-square cases
            let mut p = vec![0xffu8; 32];
            p[0] = 0xed;
            p[31] = 0x7f;
            v.push(("s=p".into(), p.clone()));
            let mut one = vec![0u8; 32];
            one[0] = 1;
            v.push(("s=1-negative".into(), one));
            let mut hi = vec![0u8; 32];
            hi[31] = 0x80;
            v.push(("s=2^255".into(), hi));
        }
        "ed448" => {
            use ed448_goldilocks::{CompressedEdwardsY, EdwardsPoint};
            let mut id = vec![0u8; 57];
            id[0] = 1;
            v.push(("identity".into(), id.clone()));
            let mut ids = id.clone();
            ids[56] = 0x80;
            v.push(("identity-with-sign-bit".into(), ids));
            // torsion: (0,-1): y = p-1 ; (±1, 0): y = 0
            let mut pm1 = vec![0xffu8; 57];
            pm1[0] = 0xfe;
            pm1[28] = 0xfe;
            pm1[56] = 0;
            v.push(("torsion-y=-1".into(), pm1.clone()));
            let y0 = vec![0u8; 57];
            let mut y0s = y0.clone();
            y0s[56] = 0x80;
            v.push(("torsion-y=0-x-neg".into(), y0s.clone()));
            // mixed order: G + T for each torsion T decodable
            for (k, tb) in [pm1.clone(), y0.clone(), y0s.clone()].iter().enumerate() {
                let arr: [u8; 57] = tb.clone().try_into().unwrap();
                if let Some(tp) = CompressedEdwardsY(arr).decompress_unchecked().into_option() {
                    let mixed = EdwardsPoint::GENERATOR + tp.to_edwards();
                    v.push((format!("mixed-order-G+T{k}"), mixed.to_affine().compress().0.to_vec()));
                }
            }
            // y = p (non-canonical 0) and y = p+1 (non-canonical 1)
            let mut p = vec![0xffu8; 57];
            p[28] = 0xfe;
            p[56] = 0;
            v.push(("y=p".into(), p.clone()));
            let mut pp1 = vec![0u8; 57];
            pp1[28] = 0xff;
            for b in pp1.iter_mut().take(56).skip(29) {
                *b = 0xff;
            }
            v.push(("y=p+1".into(), pp1));
            // non-zero low 7 bits of the last byte
            let g = EdwardsPoint::GENERATOR.to_affine().compress().0;
            for bit in 0..7 {
                let mut b = g.to_vec();
                b[56] |= 1 << bit;
                v.push((format!("last-byte-bit{bit}"), b));
            }
        }
        "p256" | "secp256k1" | "secp256k1-tr" => {
            let g = el_bytes::<C>(&gen_mul::<C>(one::<C>())).unwrap();
            for tag in [0u8, 1, 4, 5, 6, 7, 0x82, 0xff] {
                let mut b = g.clone();
                b[0] = tag;
                v.push((format!("sec1-tag-{tag:#04x}"), b));
            }
            // x >= p: find small x on the curve, then spell it as x + p
            let p_be: Vec<u8> = if C::NAME == "p256" {
                hex::decode("ffffffff00000001000000000000000000000000ffffffffffffffffffffffff").unwrap()
            } else {
                hex::decode("fffffffffffffffffffffffffffffffffffffffffffffffffffffffefffffc2f").unwrap()
            };
            v.push(("x=p".into(), [vec![2u8], p_be.clone()].concat()));
            let mut found = 0;
            for x in 1u64..200 {
                let mut xb = vec![0u8; 32];
                xb[24..].copy_from_slice(&x.to_be_bytes());
                for tag in [2u8, 3] {
                    let enc = [vec![tag], xb.clone()].concat();
                    if fc::VerifyingKey::<C>::deserialize(&enc).is_ok() {
                        // x + p (fits in 256 bits for small x on both curves)
                        let mut sum = p_be.clone();
                        let mut carry = x as u128;
                        for i in (0..32).rev() {
                            let s = sum[i] as u128 + (carry & 0xff);
                            sum[i] = (s & 0xff) as u8;
                            carry = (carry >> 8) + (s >> 8);
                        }
                        if carry == 0 {
                            v.push((format!("x={x}+p"), [vec![tag], sum].concat()));
                            found += 1;
                        }
                    }
                }
                if found >= 4 {
                    break;
                }
            }
            // not on curve: x = 0 (p256: x=0 is on curve? handled by decode) — x with no square root
            for x in 1u64..40 {
                let mut xb = vec![0u8; 32];
                xb[24..].copy_from_slice(&x.to_be_bytes());
                let enc = [vec![2u8], xb].concat();
                if !ext_on_curve::<C>(x) {
                    v.push((format!("x={x}-not-on-curve"), enc));
                }
            }
        }
        _ => {}
    }
    v
}

/// Independent "is x on the curve" for tiny x via the curve crates' field arithmetic is not exposed;
/// use the suite-independent Euler criterion with u128 arithmetic? Not feasible for 256-bit primes —
/// so rely on the *other* Weierstrass decoder of the same curve family: an x is reported as
/// off-curve only if the independent verifier's decoder (curve crate, tags 2 and 3) rejects it.
fn ext_on_curve<C: Suite>(x: u64) -> bool {
    let mut xb = vec![0u8; 32];
    xb[24..].copy_from_slice(&x.to_be_bytes());
    let enc = [vec![2u8], xb].concat();
    match C::NAME {
        "p256" => {
            use p256::elliptic_curve::sec1::FromSec1Point;
            p256::Sec1Point::from_bytes(&enc).ok().map(|e| bool::from(p256::AffinePoint::from_sec1_point(&e).is_some())).unwrap_or(false)
        }
        _ => {
            use k256::elliptic_curve::sec1::FromSec1Point;
            k256::Sec1Point::from_bytes(&enc).ok().map(|e| bool::from(k256::AffinePoint::from_sec1_point(&e).is_some())).unwrap_or(false)
        }
    }
}

fn headers<C: Suite>() -> Outcome {
    let mut o = Outcome::new();
    let tag = format!("C12/{}", C::name());
    let m = material::<C>(3, 2, IdKind::Seq, "hdr").expect("material");
    let items = wire_items::<C>(&m);
    let own = crc32(C::ID.as_bytes()).to_be_bytes();
    for it in items.iter().filter(|i| i.has_header && i.path == WPath::Raw) {
        let b = &it.bytes;
        if b.len() < 5 || b[0] != 0 || b[1..5] != own {
            o.fail(format!("{tag}/header-layout"), format!("{}: encoding does not start with version 0 and CRC-32 of the ciphersuite ID ({})", it.name, hex::encode(&b[..std::cmp::min(5, b.len())])));
            continue;
        }
        for ver in 1..=255u8 {
            let mut x = b.clone();
            x[0] = ver;
            o.eval(true);
            if (it.dec)(&x).is_some() {
                o.fail(format!("{tag}/header/version-accepted"), format!("{}: version byte {ver} accepted", it.name));
            } else {
                o.count("header_deviations_rejected", 1);
            }
        }
        // the version is ONE byte: multi-byte spellings (what a wider integer would read as 256, 512, 65536,
        // or as an over-long zero) put a non-zero byte there and must be rejected
        for spell in [vec![0x80u8, 0x02], vec![0x80, 0x04], vec![0x80, 0x80, 0x04], vec![0x80, 0x00], vec![0x80, 0x80, 0x00]] {
            let mut x = spell.clone();
            x.extend_from_slice(&b[1..]);
            o.eval(true);
            if (it.dec)(&x).is_some() {
                o.fail(format!("{tag}/header/version-accepted"), format!("{}: version spelled {} accepted", it.name, hex::encode(&spell)));
            } else {
                o.count("header_deviations_rejected", 1);
            }
        }
        for pos in 1..5 {
            for val in 0..=255u8 {
                if val == b[pos] {
                    continue;
                }
                let mut x = b.clone();
                x[pos] = val;
                o.eval(true);
                if (it.dec)(&x).is_some() {
                    o.fail(format!("{tag}/header/ciphersuite-id-deviation-accepted"), format!("{}: id byte {pos} := {val:#04x} accepted", it.name));
                } else {
                    o.count("header_deviations_rejected", 1);
                }
            }
        }
        for other in SUITE_IDS {
            if other == C::ID {
                continue;
            }
            let mut x = b.clone();
            x[1..5].copy_from_slice(&crc32(other.as_bytes()).to_be_bytes());
            o.eval(true);
            if (it.dec)(&x).is_some() {
                o.fail(format!("{tag}/header/other-ciphersuite-id-accepted"), format!("{}: id of {other} accepted", it.name));
            } else {
                o.count("header_deviations_rejected", 1);
            }
        }
    }
    // JSON headers
    for it in items.iter().filter(|i| i.has_header && i.path == WPath::Json) {
        let Ok(val) = serde_json::from_slice::<Value>(&it.bytes) else {
            o.fail(format!("{tag}/json-not-json"), it.name.clone());
            continue;
        };
        let Some(hdr) = val.get("header") else {
            o.fail(format!("{tag}/json-header-missing"), it.name.clone());
            continue;
        };
        if hdr.get("version") != Some(&Value::from(0)) || hdr.get("ciphersuite") != Some(&Value::from(C::ID)) {
            o.fail(format!("{tag}/json-header-layout"), format!("{}: {hdr}", it.name));
        }
        let mut variants: Vec<(String, Value)> = vec![];
        for ver in [1u64, 2, 255, 256, 257, 512, 65280, 65536, 1 << 32, u64::MAX] {
            let mut x = val.clone();
            x["header"]["version"] = Value::from(ver);
            variants.push((format!("version={ver}"), x));
        }
        for (what, v) in [("version=-256", Value::from(-256i64)), ("version=\"0\"", Value::from("0")), ("version=null", Value::Null), ("version=0.5", serde_json::json!(0.5))] {
            let mut x = val.clone();
            x["header"]["version"] = v;
            variants.push((what.to_string(), x));
        }
        for other in SUITE_IDS.iter().filter(|s| **s != C::ID).chain(["", "FROST", "frost-ed25519-sha512-v1"].iter()) {
            let mut x = val.clone();
            x["header"]["ciphersuite"] = Value::from(*other);
            variants.push((format!("ciphersuite={other}"), x));
        }
        // a different string with the SAME CRC-32 as the real ID (the binary form compares the CRC, the
        // JSON form must compare the string)
        if let Some(coll) = crc_collision(C::ID) {
            let mut x = val.clone();
            x["header"]["ciphersuite"] = Value::from(coll.clone());
            variants.push((format!("ciphersuite=crc32-collision"), x));
            o.count("crc_collisions_built", 1);
            let _ = coll;
        }
        {
            let mut x = val.clone();
            x["unknown_field"] = Value::from(1);
            variants.push(("unknown top-level field".into(), x));
            let mut x = val.clone();
            x["header"]["extra"] = Value::from(1);
            variants.push(("unknown header field".into(), x));
            let mut x = val.clone();
            x.as_object_mut().unwrap().remove("header");
            variants.push(("header removed".into(), x));
        }
        for (what, x) in variants {
            o.eval(true);
            if (it.dec)(x.to_string().as_bytes()).is_some() {
                o.fail(format!("{tag}/json-header/{}", what.split('=').next().unwrap().replace(' ', "-")), format!("{}: {what} accepted", it.name));
            } else {
                o.count("header_deviations_rejected", 1);
            }
        }
    }
    o.class("headers");
    o
}

fn corpus_bytes<C: Suite>() -> Vec<(String, WPath, Vec<u8>)> {
    let m = material::<C>(3, 2, IdKind::Seq, "cross").expect("material");
    wire_items::<C>(&m).into_iter().filter(|i| i.has_header).map(|i| (i.name, i.path, i.bytes)).collect()
}

fn cross<C: Suite>(other: &str) -> Outcome {
    let mut o = Outcome::new();
    let tag = format!("C12/{}", C::name());
    let foreign: Vec<(String, WPath, Vec<u8>)> = with_suite!(other, corpus_bytes);
    let m = material::<C>(3, 2, IdKind::Seq, "cross").expect("material");
    let items = wire_items::<C>(&m);
    for (name, path, bytes) in foreign {
        if let Some(it) = items.iter().find(|i| i.name == name && i.path == path) {
            o.eval(true);
            if (it.dec)(&bytes).is_some() {
                o.fail(format!("{tag}/cross-suite-accepted"), format!("{name} ({path:?}) of {other} accepted"));
            } else {
                o.count("cross_suite_rejected", 1);
            }
        }
    }
    o.class("cross");
    o
}


fn differential<C: Suite>(kind: &str, full: bool) -> Outcome {
    use serde_json::json;
    let mut o = Outcome::new();
    let tag = format!("C12/{}/{kind}", C::name());
    let m = material::<C>(3, 2, IdKind::Seq, "diff").expect("material");
    let items = wire_items::<C>(&m);
    let item_name = if kind == "scalar" { "SigningShare" } else { "VerifyingKey" };
    let Some(it) = items.iter().find(|i| i.name == item_name && i.path == WPath::Raw) else {
        o.machinery_error("no decoder item");
        return o;
    };
    let mut inputs: Vec<Vec<u8>> = vec![];
    if kind == "scalar" {
        let one_enc = sc_bytes::<C>(&one::<C>());
        let little = one_enc[0] == 1;
        let qm1 = sc_bytes::<C>(&neg::<C>(one::<C>()));
        let q = add_one(&qm1, little);
        inputs.extend([one_enc.clone(), qm1.clone(), q.clone(), add_one(&q, little), vec![0xff; one_enc.len()], vec![0; one_enc.len()]]);
        for base in [&one_enc, &qm1, &sc_bytes::<C>(&sc_seeded::<C>("diff"))] {
            for pos in 0..base.len() {
                for v in 0..=255u8 {
                    if v != base[pos] && (full || pos < 2 || pos + 3 > base.len() || v % 16 == 1) {
                        let mut b = base.to_vec();
                        b[pos] = v;
                        inputs.push(b);
                    }
                }
            }
        }
        for len in [0usize, 1, one_enc.len() - 1, one_enc.len() + 1] {
            inputs.push(vec![1u8; len]);
        }
    } else {
        let g = el_bytes::<C>(&gen_mul::<C>(one::<C>())).unwrap();
        inputs.push(g.clone());
        inputs.push(vec![0; g.len()]);
        inputs.push(vec![0xff; g.len()]);
        for (_, b) in suite_element_negatives::<C>() {
            inputs.push(b);
        }
        let bases = [el_bytes::<C>(&gen_mul::<C>(sc_seeded_nz::<C>("diffel"))).unwrap(), g.clone()];
        for (bi, base) in bases.iter().enumerate() {
            for pos in 0..base.len() {
                let vals: Vec<u8> = if full && bi == 0 { (0..=255u8).collect() } else { vec![0, 1, 2, 3, 0x7f, 0x80, 0xff, base[pos] ^ 1, base[pos] ^ 0x80] };
                for v in vals {
                    if v != base[pos] {
                        let mut b = base.to_vec();
                        b[pos] = v;
                        inputs.push(b);
                    }
                }
            }
        }
        inputs.push(g[..g.len() - 1].to_vec());
        inputs.push([g.clone(), vec![0]].concat());
    }
    inputs.sort();
    inputs.dedup();
    let reqs: Vec<serde_json::Value> = inputs.iter().map(|b| json!({"type": "decode", "suite": C::NAME, "kind": kind, "bytes": hex::encode(b)})).collect();
    match crate::pyref::ask_reference(&reqs) {
        Err(e) => o.machinery_error(e),
        Ok(ans) => {
            for (b, a) in inputs.iter().zip(ans) {
                if let Some(e) = a.get("error") {
                    o.machinery_error(format!("reference crashed on {}: {e}", hex::encode(b)));
                    continue;
                }
                let lib = (it.dec)(b).is_some();
                let rf = a["accept"] == json!(true);
                o.eval(true);
                o.count("differential_decodes", 1);
                if lib && rf {
                    o.count("differential_both_accept", 1);
                }
                if lib != rf {
                    o.fail(
                        format!("{tag}/differs-from-reference/{}", if lib { "library-accepts" } else { "library-rejects" }),
                        format!("{item_name}: {} : library accept={lib}, independent decoder accept={rf}", hex::encode(b)),
                    );
                }
            }
        }
    }
    o.class("differential");
    o
}


/// A string != `id` with the same CRC-32 (IEEE): `id` + "-" + six characters found by a
/// meet-in-the-middle search over [A-Za-z0-9_-]^3 x [A-Za-z0-9_-]^3.
pub fn crc_collision(id: &str) -> Option<String> {
    use std::collections::HashMap;
    const ALPHA: &[u8] = b"ABCDEFGHIJKLMNOPQRSTUVWXYZabcdefghijklmnopqrstuvwxyz0123456789_-";
    fn step(mut crc: u32, b: u8) -> u32 {
        crc ^= b as u32;
        for _ in 0..8 {
            crc = if crc & 1 != 0 { (crc >> 1) ^ 0xedb8_8320 } else { crc >> 1 };
        }
        crc
    }
    // reverse one byte: given the state AFTER processing byte b, the state before
    fn unstep(mut crc: u32, b: u8) -> u32 {
        for _ in 0..8 {
            crc = if crc & 0x8000_0000 != 0 { ((crc ^ 0xedb8_8320) << 1) | 1 } else { crc << 1 };
        }
        crc ^ b as u32
    }
    let target_final = crc32(id.as_bytes());
    let target_state = !target_final; // state before the final inversion
    let mut st = 0xffff_ffffu32;
    for b in id.bytes().chain(std::iter::once(b'-')) {
        st = step(st, b);
    }
    let mut fwd: HashMap<u32, [u8; 3]> = HashMap::new();
    for a in ALPHA {
        for b in ALPHA {
            for c in ALPHA {
                let s3 = step(step(step(st, *a), *b), *c);
                fwd.entry(s3).or_insert([*a, *b, *c]);
            }
        }
    }
    for d in ALPHA {
        for e in ALPHA {
            for f in ALPHA {
                let before = unstep(unstep(unstep(target_state, *f), *e), *d);
                if let Some(h) = fwd.get(&before) {
                    let cand = format!("{id}-{}{}", String::from_utf8_lossy(h), String::from_utf8_lossy(&[*d, *e, *f]));
                    if crc32(cand.as_bytes()) == target_final && cand != id {
                        return Some(cand);
                    }
                }
            }
        }
    }
    None
}
