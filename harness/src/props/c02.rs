//! C02 — every intermediate and final value is bit-exact with RFC 9591 (BIP-340 for Taproot).
//! The harness emits a transcript per session; the from-scratch Python reference
//! (/verif/ref/frostref.py, pinned to the RFC 9591 appendix vectors) recomputes everything.

use crate::rng::ScriptedRng;
use crate::pyref::ask_reference;
use crate::runner::{Outcome, Prop, Tier};
use crate::suites::{Id, REAL_SUITES, Suite};
use crate::util::*;
use crate::with_suite;
use frost_core as fc;
use frost_core::{Identifier, SigningKey, SigningPackage, VerifyingKey};
use serde::{Deserialize, Serialize};
use serde_json::{Value, json};
use std::collections::BTreeMap;

pub struct C02;

#[derive(Serialize, Deserialize, Clone, Debug)]
struct Spec {
    n: u16,
    t: u16,
    idkind: IdKind,
    src: KeySrc,
    signers: u32,
    msg: usize,
    seed: String,
    /// nonces come from the k-th pair of a preprocess(k+1) batch instead of commit()
    #[serde(default)]
    batch_pair: u8,
    /// message of this many bytes instead of the alphabet entry (0 = alphabet)
    #[serde(default)]
    msg_len: usize,
    /// take the LAST `last_signers` participants as signers instead of the mask (0 = mask)
    #[serde(default)]
    last_signers: u16,
}

#[derive(Serialize, Deserialize, Clone, Debug)]
#[serde(tag = "part")]
enum Case {
    /// the reference recomputes all RFC 9591 appendix vectors (machinery pin)
    Pin,
    Sessions { suite: String, specs: Vec<Spec> },
    /// Identifier::try_from(u16) for ALL u16 == RFC integer-to-scalar encoding
    Identifiers { suite: String },
    /// single-signer entry point both ways
    Single { suite: String, count: usize, seed: String },
    /// the neighbouring signer entry points: re-randomized signing (seed-taking and deprecated) returns exactly
    /// the RFC share of the independently randomized key material; Taproot tweak sessions (every root kind,
    /// both key parities) are BIP-340 valid under the BIP-341 output key computed by the Python reference
    Extras { suite: String, seed: String },
}

impl Prop for C02 {
    fn id(&self) -> &'static str {
        "C02"
    }
    fn level(&self) -> &'static str {
        "exploration"
    }
    fn rule(&self) -> String {
        "complete enumeration: suites x (n,t) x id kinds (u16 extremes, hash-derived and arbitrary scalars as opaque values) x dealer/DKG x EVERY signer subset x the message alphabet (empty, 1 byte, hash-block boundaries of SHA-256 / SHA-512 / SHAKE256, 1000 bytes; every message on the smallest shape, every shape with rotating messages); per session a transcript of inputs (shares, the 64 random bytes per signer, message) and of every intermediate the library exposes (nonces, commitments, encoded commitment list and its order, binding-factor inputs, binding factors, group commitment, challenge, interpolation coefficients, shares, signature) is recomputed byte for byte by a from-scratch Python implementation of RFC 9591 / BIP-340 that is pinned, in the same run, to all RFC 9591 appendix vectors; ALL 65535 u16 identifier encodings; single-signer signatures both ways; messages of 417 / 513 / 5 000 / 70 000 bytes; one wide session (40-100 signers with identifiers above 255); Identifier order against the independently computed numeric order at every bit position. Non-trivial = transcript compared".into()
    }
    fn assumptions(&self) -> Vec<String> {
        vec![
            "the reference (big-integer affine arithmetic + hashlib) is trusted after reproducing every value of the frozen RFC 9591 vectors; for the Taproot suite, whose FROST variant has no RFC, the reference derives the flow from BIP-340/341 and its verifier is BIP-340's (test vector 0 + agreement with libsecp256k1 in C18)".into(),
            "intermediates are read through frost-core's `internals` functions in the order sign() calls them; the shares and the signature come from the real sign()/aggregate()".into(),
        ]
    }
    fn bound(&self, tier: Tier) -> String {
        format!("n<={}, every signer subset up to 5 signers, 11 messages, {} seed(s)", tier.pick(4, 5), tier.pick(1, 2))
    }
    fn required_counters(&self) -> Vec<&'static str> {
        vec!["transcripts_compared", "pin_values", "identifier_encodings", "single_signer_lib_to_ref", "single_signer_ref_to_lib"]
    }
    fn cases(&self, tier: Tier, seed: u64) -> Vec<Value> {
        let mut out = vec![serde_json::to_value(Case::Pin).unwrap()];
        let nmax = tier.pick(4u16, 5u16);
        for suite in REAL_SUITES {
            let mut specs: Vec<Spec> = vec![];
            let mut mr = 0usize;
            for sd in 0..tier.pick(1, 2) {
                for (n, t) in super::c01::shapes(nmax) {
                    if suite == "ed448" && n > tier.pick(3, 4) {
                        continue;
                    }
                    for idkind in ALL_IDKINDS {
                        for src in [KeySrc::Dealer, KeySrc::Dkg] {
                            if src == KeySrc::Dkg && (n > 3 || !(idkind == IdKind::U16x || idkind == IdKind::Mixed)) {
                                continue;
                            }
                            if tier == Tier::Quick && n == 4 && !(idkind == IdKind::Mixed || idkind == IdKind::U16x) {
                                continue;
                            }
                            for s in subsets(n as usize, t as usize, std::cmp::min(n as usize, 5)) {
                                if tier == Tier::Quick && suite == "ed448" && s % 2 == 0 && n > 2 {
                                    continue;
                                }
                                let msgs: Vec<usize> = if (n, t) == (2, 2) && idkind == IdKind::Seq { (0..11).collect() } else { vec![mr % 11] };
                                for m in msgs {
                                    specs.push(Spec { n, t, idkind, src, signers: s, msg: m, seed: format!("s{seed}.{sd}"), batch_pair: if mr % 4 == 3 { 1 + (mr % 3) as u8 } else { 0 }, msg_len: 0, last_signers: 0 });
                                }
                                mr += 1;
                            }
                        }
                    }
                }
            }
            // long messages (past every internal buffer one might think of) and a wide signer set
            for len in [417usize, 513, 5000, 70000] {
                specs.push(Spec { n: 3, t: 2, idkind: IdKind::U16x, src: KeySrc::Dealer, signers: 0b101, msg: 0, seed: format!("s{seed}.0"), batch_pair: 0, msg_len: len, last_signers: 0 });
            }
            let wide = if suite == "ed448" { tier.pick(12u16, 30u16) } else { tier.pick(40u16, 100u16) };
            specs.push(Spec { n: 300, t: 2, idkind: IdKind::Seq, src: KeySrc::Dealer, signers: 0, msg: 2, seed: format!("s{seed}.0"), batch_pair: 0, msg_len: 0, last_signers: wide });
            for chunk in specs.chunks(10) {
                out.push(serde_json::to_value(Case::Sessions { suite: suite.to_string(), specs: chunk.to_vec() }).unwrap());
            }
            out.push(serde_json::to_value(Case::Identifiers { suite: suite.to_string() }).unwrap());
            out.push(serde_json::to_value(Case::Single { suite: suite.to_string(), count: tier.pick(24, 128), seed: format!("s{seed}") }).unwrap());
            out.push(serde_json::to_value(Case::Extras { suite: suite.to_string(), seed: format!("s{seed}") }).unwrap());
        }
        out
    }
    fn run(&self, case: &Value) -> Outcome {
        let c: Case = serde_json::from_value(case.clone()).expect("case");
        match &c {
            Case::Pin => {
                let mut o = Outcome::new();
                o.eval(true);
                match ask_reference(&[json!({"type": "selftest"})]) {
                    Ok(v) => {
                        if v[0]["ok"] == json!(true) {
                            o.count("pin_values", v[0]["values"].as_u64().unwrap_or(0));
                        } else {
                            o.machinery_error(format!("reference self-test failed: {}", v[0]));
                        }
                    }
                    Err(e) => o.machinery_error(format!("reference self-test: {e}")),
                }
                o.class("pin");
                o
            }
            Case::Sessions { suite, .. } | Case::Identifiers { suite } | Case::Single { suite, .. } | Case::Extras { suite, .. } => with_suite!(suite.as_str(), run_case, &c),
        }
    }
}

fn transcript<C: Suite>(sp: &Spec) -> Result<Value, String> {
    let grp = cached_group::<C>(sp.src, sp.n, sp.t, sp.idkind, &sp.seed)?;
    let s = if sp.last_signers > 0 { grp.ids.iter().rev().take(sp.last_signers as usize).rev().copied().collect() } else { pick::<C>(&grp.ids, sp.signers) };
    let m = if sp.msg_len > 0 { (0..sp.msg_len).map(|i| (i * 31 + 7) as u8).collect() } else { message(sp.msg) };
    let mut nonces = BTreeMap::new();
    let mut comms = BTreeMap::new();
    let mut randomness = serde_json::Map::new();
    for id in &s {
        let mut rng = ScriptedRng::ctr(format!("c02:{}:{}:{}:{}", sp.seed, sp.signers, sp.msg, id_hex::<C>(id)));
        let (nn, cm, off) = if sp.batch_pair == 0 {
            let (nn, cm) = C::w_commit(grp.kps[id].signing_share(), &mut rng);
            (nn, cm, 0usize)
        } else {
            let k = sp.batch_pair as usize;
            let (mut ns, mut cs) = fc::round1::preprocess::<C, _>(k as u8 + 1, grp.kps[id].signing_share(), &mut rng);
            if ns.len() != k + 1 || cs.len() != k + 1 {
                return Err(format!("preprocess({}) returned {} pairs", k + 1, ns.len()));
            }
            (ns.pop().unwrap(), cs.pop().unwrap(), 64 * k)
        };
        let stream: Vec<u8> = rng.calls.iter().flat_map(|c| c.bytes.clone()).collect();
        if stream.len() != off + 64 {
            return Err(format!("{} bytes drawn from the random source, expected {}", stream.len(), off + 64));
        }
        let stream = &stream[off..];
        randomness.insert(id_hex::<C>(id), json!([hex::encode(&stream[..32]), hex::encode(&stream[32..])]));
        nonces.insert(*id, nn);
        comms.insert(*id, cm);
    }
    let pkg = SigningPackage::<C>::new(comms.clone(), &m);
    let mut shares = BTreeMap::new();
    for id in &s {
        shares.insert(*id, C::w_sign(&pkg, &nonces[id], &grp.kps[id]).map_err(e2s("sign"))?);
    }
    let sig = C::w_aggregate(&pkg, &shares, &grp.pkp).map_err(e2s("aggregate"))?;
    // intermediates, in the order sign() computes them, for the first signer's view
    let first = s[0];
    let (pkg2, nonces2, kp2) = C::pre_sign(&pkg, &nonces[&first], &grp.kps[&first]).map_err(e2s("pre_sign"))?;
    let vk_used = *kp2.verifying_key();
    let bfl = fc::compute_binding_factor_list(&pkg2, &vk_used, &[]).map_err(e2s("binding factors"))?;
    let pre = pkg2.binding_factor_preimages(&vk_used, &[]).map_err(e2s("preimages"))?;
    let (pkg3, _) = C::pre_commitment_sign(&pkg2, &nonces2, &bfl).map_err(e2s("pre_commitment_sign"))?;
    let gc = fc::compute_group_commitment(&pkg3, &bfl).map_err(e2s("group commitment"))?;
    let r_el = gc.to_element();
    let chal = C::challenge(&r_el, &vk_used, &m).map_err(e2s("challenge"))?;
    let enc_list = fc::round1::encode_group_commitments(pkg.signing_commitments()).map_err(e2s("encode"))?;
    let mut lib = serde_json::Map::new();
    let mut jn = serde_json::Map::new();
    let mut jc = serde_json::Map::new();
    let mut jp = serde_json::Map::new();
    let mut jb = serde_json::Map::new();
    let mut jl = serde_json::Map::new();
    let mut js = serde_json::Map::new();
    let mut jshares = serde_json::Map::new();
    for id in &s {
        let h = id_hex::<C>(id);
        jn.insert(h.clone(), json!([hex::encode(nonces[id].hiding().serialize()), hex::encode(nonces[id].binding().serialize())]));
        jc.insert(h.clone(), json!([el_hex::<C>(&comms[id].hiding().value()), el_hex::<C>(&comms[id].binding().value())]));
        jb.insert(h.clone(), json!(hex::encode(bfl.get(id).ok_or("binding factor missing")?.serialize())));
        let lam = fc::derive_interpolating_value(id, &pkg3).map_err(e2s("lambda"))?;
        jl.insert(h.clone(), json!(sc_hex::<C>(&lam)));
        js.insert(h.clone(), json!(hex::encode(shares[id].serialize())));
        jshares.insert(h.clone(), json!(hex::encode(grp.kps[id].signing_share().serialize())));
    }
    let mut order = vec![];
    for (id, p) in &pre {
        jp.insert(id_hex::<C>(id), json!(hex::encode(p)));
        order.push(id_hex::<C>(id));
    }
    lib.insert("nonces".into(), Value::Object(jn));
    lib.insert("commitments".into(), Value::Object(jc));
    lib.insert("preimages".into(), Value::Object(jp));
    lib.insert("preimage_order".into(), json!(order));
    lib.insert("binding_factors".into(), Value::Object(jb));
    lib.insert("lambdas".into(), Value::Object(jl));
    lib.insert("sig_shares".into(), Value::Object(js));
    lib.insert("enc_list".into(), json!(hex::encode(enc_list)));
    lib.insert("group_commitment".into(), json!(el_hex::<C>(&r_el)));
    lib.insert("challenge".into(), json!(sc_hex::<C>(&chal.to_scalar())));
    lib.insert("signature".into(), json!(hex::encode(sig.serialize().map_err(e2s("sig"))?)));
    Ok(json!({
        "type": "session",
        "suite": C::NAME,
        "ids": s.iter().map(|i| id_hex::<C>(i)).collect::<Vec<_>>(),
        "shares": Value::Object(jshares),
        "vk": el_hex::<C>(&grp.pkp.verifying_key().to_element()),
        "msg": hex::encode(&m),
        "randomness": Value::Object(randomness),
        "lib": Value::Object(lib),
    }))
}

fn run_case<C: Suite>(c: &Case) -> Outcome {
    let mut o = Outcome::new();
    let tag = format!("C02/{}", C::name());
    match c {
        Case::Sessions { specs, .. } => {
            let mut reqs = vec![];
            let mut idx = vec![];
            for (k, sp) in specs.iter().enumerate() {
                match transcript::<C>(sp) {
                    Ok(t) => {
                        reqs.push(t);
                        idx.push(k);
                    }
                    Err(e) => {
                        o.eval(false);
                        o.fail(format!("{tag}/session-failed"), format!("{sp:?}: {e}"));
                    }
                }
            }
            if reqs.is_empty() {
                return o;
            }
            match ask_reference(&reqs) {
                Err(e) => o.machinery_error(e),
                Ok(ans) => {
                    for (a, k) in ans.iter().zip(idx) {
                        if let Some(e) = a.get("error") {
                            o.machinery_error(format!("reference crashed on {:?}: {e}", specs[k]));
                            continue;
                        }
                        o.eval(true);
                        o.count("transcripts_compared", 1);
                        if a["ok"] != json!(true) {
                            for mm in a["mismatches"].as_array().cloned().unwrap_or_default() {
                                let field = mm["field"].as_str().unwrap_or("?").to_string();
                                let short = field.split('[').next().unwrap_or("?").replace(' ', "-");
                                o.fail(
                                    format!("{tag}/differs-from-reference/{short}"),
                                    format!("{:?}: {field}: library {} reference {}", specs[k], mm["library"], mm["reference"]),
                                );
                            }
                        }
                    }
                }
            }
            o.class("sessions");
        }
        Case::Identifiers { .. } => {
            let one_enc = sc_bytes::<C>(&one::<C>());
            let little = one_enc[0] == 1;
            let l = one_enc.len();
            for n in 1..=65535u16 {
                let id = Identifier::<C>::try_from(n).expect("nonzero u16");
                let mut want = vec![0u8; l];
                if little {
                    want[0] = (n & 0xff) as u8;
                    want[1] = (n >> 8) as u8;
                } else {
                    want[l - 1] = (n & 0xff) as u8;
                    want[l - 2] = (n >> 8) as u8;
                }
                o.eval(true);
                o.count("identifier_encodings", 1);
                if id.serialize() != want {
                    o.fail(format!("{tag}/identifier-encoding"), format!("Identifier::try_from({n}) encodes as {}, the integer-to-scalar encoding is {}", hex::encode(id.serialize()), hex::encode(&want)));
                    break;
                }
            }
            // numeric order of identifiers = order of the integers, on a boundary alphabet
            let vals = [1u16, 2, 255, 256, 257, 258, 511, 512, 513, 767, 768, 4097, 8192, 65534, 65535];
            for a in vals {
                for b in vals {
                    let (ia, ib) = (Identifier::<C>::try_from(a).unwrap(), Identifier::<C>::try_from(b).unwrap());
                    if ia.cmp(&ib) != a.cmp(&b) {
                        o.fail(format!("{tag}/identifier-order"), format!("Identifier({a}) vs Identifier({b}) compare as {:?}", ia.cmp(&ib)));
                    }
                }
            }
            // order and distinctness for scalars that differ in ONE byte at every position, and powers of two
            // bit length of the group order, from the encoding of q-1
            let qm1 = id_numeric_key::<C>(&Identifier::<C>::new(neg::<C>(one::<C>())).unwrap());
            let lead = qm1.iter().position(|b| *b != 0).unwrap_or(0);
            let bits = ((qm1.len() - lead) as u32) * 8 - qm1[lead].leading_zeros() + 4; // loop bound below subtracts 5
            let base = sc_seeded_nz::<C>("c02order");
            let mut prev: Option<(u32, Identifier<C>)> = None;
            for k in 0..bits.saturating_sub(5) {
                let lo = Identifier::<C>::new(pow2::<C>(k)).unwrap();
                let hi = Identifier::<C>::new(pow2::<C>(k) + one::<C>()).unwrap();
                if !(lo < hi) || lo == hi {
                    o.fail(format!("{tag}/identifier-order"), format!("Identifier(2^{k}) is not below Identifier(2^{k}+1)"));
                }
                if let Some((pk, p)) = &prev {
                    if !(*p < lo) {
                        o.fail(format!("{tag}/identifier-order"), format!("Identifier(2^{pk}) is not below Identifier(2^{k})"));
                    }
                }
                prev = Some((k, lo));
                if k % 8 == 0 && k + 10 < bits {
                    // base vs base + 2^k: must be distinct map keys
                    let a = Identifier::<C>::new(base).unwrap();
                    let b = Identifier::<C>::new(base + pow2::<C>(k)).unwrap();
                    let mut m = BTreeMap::new();
                    m.insert(a, 0);
                    m.insert(b, 1);
                    if m.len() != 2 || a.cmp(&b) == std::cmp::Ordering::Equal {
                        o.fail(format!("{tag}/identifier-order"), format!("identifiers differing only in bit {k} compare equal"));
                    }
                    // numeric order computed independently from the encodings
                    let want = id_numeric_key::<C>(&a).cmp(&id_numeric_key::<C>(&b));
                    if a.cmp(&b) != want {
                        o.fail(format!("{tag}/identifier-order"), format!("identifiers differing in bit {k}: cmp = {:?}, numeric order = {want:?}", a.cmp(&b)));
                    }
                }
                o.count("identifier_order_checks", 1);
            }
            o.class("identifiers");
        }
        Case::Single { count, seed, .. } => {
            let mut reqs = vec![];
            let mut keys = vec![];
            for k in 0..*count {
                let sk_s = match k {
                    0 => one::<C>(),
                    1 => neg::<C>(one::<C>()),
                    2 => sc_u64::<C>(2),
                    _ => sc_seeded_nz::<C>(&format!("{seed}.c02sk{k}")),
                };
                let sk = SigningKey::<C>::from_scalar(sk_s).unwrap();
                let m = message(k % 11);
                let mut rng = ScriptedRng::ctr(format!("{seed}.c02single{k}"));
                let sig = sk.sign(&mut rng, &m);
                let vk = VerifyingKey::<C>::from(&sk);
                reqs.push(json!({"type": "verify", "suite": C::NAME, "vk": el_hex::<C>(&vk.to_element()), "msg": hex::encode(&m), "sig": hex::encode(sig.serialize().unwrap())}));
                // and the other way round: the reference signs with this key and a seeded nonce
                let kk = sc_seeded_nz::<C>(&format!("{seed}.c02k{k}"));
                let be = |s: &frost_core::Scalar<C>| -> String {
                    let b = sc_bytes::<C>(s);
                    let one_enc = sc_bytes::<C>(&one::<C>());
                    if one_enc[0] == 1 { hex::encode(b.iter().rev().copied().collect::<Vec<u8>>()) } else { hex::encode(b) }
                };
                reqs.push(json!({"type": "sign", "suite": C::NAME, "sk": be(&sk_s), "msg": hex::encode(&m), "k": be(&kk)}));
                keys.push((vk, m));
            }
            match ask_reference(&reqs) {
                Err(e) => o.machinery_error(e),
                Ok(ans) => {
                    for (k, (vk, m)) in keys.iter().enumerate() {
                        let a = &ans[2 * k];
                        let b = &ans[2 * k + 1];
                        if a.get("error").is_some() || b.get("error").is_some() {
                            o.machinery_error(format!("reference crashed: {a} {b}"));
                            continue;
                        }
                        o.eval(true);
                        o.count("single_signer_lib_to_ref", 1);
                        if a["valid"] != json!(true) {
                            o.fail(format!("{tag}/single-signer-signature-rejected-by-reference"), format!("key #{k} msg #{}", k % 11));
                        }
                        o.count("single_signer_ref_to_lib", 1);
                        let sigb = hex::decode(b["sig"].as_str().unwrap_or("")).unwrap_or_default();
                        let vkb = hex::decode(b["vk"].as_str().unwrap_or("")).unwrap_or_default();
                        let want_vk = el_bytes::<C>(&vk.to_element()).unwrap();
                        // Taproot: the reference returns the even-Y key
                        if vkb[1..] != want_vk[1..] && vkb != want_vk {
                            o.fail(format!("{tag}/single-signer-key-differs"), format!("key #{k}: verifying key differs from the reference's"));
                        }
                        match fc::Signature::<C>::deserialize(&sigb) {
                            Ok(sig) => {
                                if vk.verify(m, &sig).is_err() {
                                    o.fail(format!("{tag}/reference-signature-rejected-by-library"), format!("key #{k} msg #{}", k % 11));
                                }
                                // the batch entry point must accept them too, also when the same item is queued twice
                                let mut bv = fc::batch::Verifier::<C>::new();
                                let mut ok_items = true;
                                for _ in 0..2 {
                                    match fc::batch::Item::<C>::new(*vk, sig, m) {
                                        Ok(it) => bv.queue(it),
                                        Err(_) => ok_items = false,
                                    }
                                }
                                let mut rng = ScriptedRng::ctr(format!("{seed}.c02batch{k}"));
                                if !ok_items || bv.verify(&mut rng).is_err() {
                                    o.fail(format!("{tag}/reference-signature-rejected-by-batch-verification"), format!("key #{k}: the reference's signature, queued twice, is rejected by batch verification"));
                                } else {
                                    o.count("reference_signatures_batch_verified", 1);
                                }
                            }
                            Err(e) => o.fail(format!("{tag}/reference-signature-undecodable"), format!("key #{k}: {e:?}")),
                        }
                    }
                }
            }
            o.class("single");
        }
        Case::Extras { seed, .. } => {
            use frost_rerandomized::RandomizedParams;
            for (n, t) in [(3u16, 2u16), (4, 3)] {
                let grp = match cached_group::<C>(KeySrc::Dealer, n, t, IdKind::U16x, seed) {
                    Ok(g) => g,
                    Err(e) => {
                        o.fail(format!("{tag}/setup"), e);
                        return o;
                    }
                };
                let s: Vec<_> = grp.ids.iter().rev().take(t as usize).rev().copied().collect();
                let m = message(3);
                let (nonces, comms) = commit_all::<C>(&grp.kps, &s, &format!("{seed}:extras:{n}"));
                let pkg = SigningPackage::<C>::new(comms.clone(), &m);
                // every aggregation entry point returns the same bytes for honest shares
                {
                    let mut shares = BTreeMap::new();
                    for id in &s {
                        if let Ok(sh) = C::w_sign(&pkg, &nonces[id], &grp.kps[id]) {
                            shares.insert(*id, sh);
                        }
                    }
                    match C::w_aggregate(&pkg, &shares, &grp.pkp).ok().and_then(|x| x.serialize().ok()) {
                        Some(base) => {
                            for (mn, md) in [("Disabled", frost_core::CheaterDetection::Disabled), ("FirstCheater", frost_core::CheaterDetection::FirstCheater), ("AllCheaters", frost_core::CheaterDetection::AllCheaters)] {
                                o.eval(true);
                                match C::w_aggregate_custom(&pkg, &shares, &grp.pkp, md).ok().and_then(|x| x.serialize().ok()) {
                                    Some(b) if b == base => o.count("aggregation_entry_points_agree", 1),
                                    Some(_) => o.fail(format!("{tag}/aggregate-modes-differ"), format!("n={n} t={t}: aggregate_custom({mn}) returns other bytes than aggregate()")),
                                    None => o.fail(format!("{tag}/aggregate-custom-failed"), format!("n={n} t={t}: aggregate_custom({mn}) fails on honest shares that aggregate() accepts")),
                                }
                            }
                        }
                        None => o.fail(format!("{tag}/aggregate-failed"), format!("n={n} t={t}")),
                    }
                }
                let mut rng = ScriptedRng::ctr(format!("{seed}:extras-rr:{n}"));
                match RandomizedParams::<C>::new_from_commitments(grp.pkp.verifying_key(), &comms, &mut rng) {
                    Ok((params, sd)) => {
                        o.eval(true);
                        super::c17::rr_exactness::<C>(&mut o, &tag, &format!("n={n} t={t}"), &grp.kps, &s, &pkg, &nonces, &params, Some(&sd));
                    }
                    Err(e) => o.fail(format!("{tag}/rerandomized-params-failed"), format!("{e:?}")),
                }
            }
            if C::TAPROOT {
                let mut reqs = vec![];
                let mut what = vec![];
                for key_odd in [false, true] {
                    let grp = match super::c04::group_with_parity::<C>(KeySrc::Dealer, 3, 2, IdKind::Seq, seed, Some(key_odd)) {
                        Ok(g) => g,
                        Err(e) => {
                            o.fail(format!("{tag}/setup"), e);
                            return o;
                        }
                    };
                    let s: Vec<_> = grp.ids.iter().take(2).copied().collect();
                    {
                        // plain (untweaked) session on this key parity: all aggregation entry points agree
                        let m = message(4);
                        let (nonces, comms) = commit_all::<C>(&grp.kps, &s, &format!("{seed}:extras-tr-plain:{key_odd}"));
                        let pkg = SigningPackage::<C>::new(comms, &m);
                        let mut shares = BTreeMap::new();
                        for id in &s {
                            if let Ok(sh) = C::w_sign(&pkg, &nonces[id], &grp.kps[id]) {
                                shares.insert(*id, sh);
                            }
                        }
                        let base = C::w_aggregate(&pkg, &shares, &grp.pkp).ok().and_then(|x| x.serialize().ok());
                        for (mn, md) in [("Disabled", frost_core::CheaterDetection::Disabled), ("FirstCheater", frost_core::CheaterDetection::FirstCheater), ("AllCheaters", frost_core::CheaterDetection::AllCheaters)] {
                            o.eval(true);
                            let b = C::w_aggregate_custom(&pkg, &shares, &grp.pkp, md).ok().and_then(|x| x.serialize().ok());
                            if base.is_none() || b != base {
                                o.fail(format!("{tag}/aggregate-modes-differ"), format!("Taproot key_odd={key_odd}: aggregate_custom({mn}) and aggregate() disagree on honest shares (ok={} / ok={})", b.is_some(), base.is_some()));
                            } else {
                                o.count("aggregation_entry_points_agree", 1);
                            }
                        }
                    }
                    for (rn, root) in [("none", None), ("empty", Some(vec![])), ("32 bytes", Some(vec![0x11u8; 32])), ("100 bytes", Some(vec![0x22u8; 100]))] {
                        let m = message(4);
                        let (nonces, comms) = commit_all::<C>(&grp.kps, &s, &format!("{seed}:extras-tr:{key_odd}:{rn}"));
                        let pkg = SigningPackage::<C>::new(comms, &m);
                        let mut shares = BTreeMap::new();
                        for id in &s {
                            match C::w_sign_with_tweak(&pkg, &nonces[id], &grp.kps[id], root.as_deref()).expect("taproot") {
                                Ok(sh) => {
                                    shares.insert(*id, sh);
                                }
                                Err(e) => o.fail(format!("{tag}/tweak-sign-refused"), format!("{e:?}")),
                            }
                        }
                        match C::w_aggregate_with_tweak(&pkg, &shares, &grp.pkp, root.as_deref()).expect("taproot") {
                            Ok(sig) => {
                                reqs.push(json!({"type": "taproot", "internal": el_hex::<C>(&grp.pkp.verifying_key().to_element()), "root": root.as_ref().map(hex::encode), "msg": hex::encode(&m), "sig": hex::encode(sig.serialize().unwrap())}));
                                what.push(format!("key_odd={key_odd} root={rn}"));
                            }
                            Err(e) => o.fail(format!("{tag}/tweak-aggregate-failed"), format!("key_odd={key_odd} root={rn}: {e:?}")),
                        }
                    }
                }
                match ask_reference(&reqs) {
                    Err(e) => o.machinery_error(e),
                    Ok(ans) => {
                        for (a, w) in ans.iter().zip(&what) {
                            if a.get("error").is_some() {
                                o.machinery_error(format!("reference crashed: {a}"));
                                continue;
                            }
                            o.eval(true);
                            o.count("taproot_tweak_sessions_vs_reference", 1);
                            if a["valid"] != json!(true) {
                                o.fail(format!("{tag}/tweaked-signature-rejected-by-reference"), format!("{w}: not a BIP-340 signature under the BIP-341 output key of (group key, root) computed by the reference"));
                            }
                        }
                    }
                }
            }
            o.class("extras");
        }
        Case::Pin => unreachable!(),
    }
    o
}
