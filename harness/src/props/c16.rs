//! C16 — all secret randomness is drawn fresh from the caller's source and nowhere else.
//! E5: every RNG-taking entry point under pairs of streams and EVERY single-draw deviation.

use crate::rng::{Dev, ScriptedRng};
use crate::runner::{Outcome, Prop, Tier};
use crate::suites::{Id, REAL_SUITES, Suite};
use crate::util::*;
use crate::with_suite;
use frost_core as fc;
use frost_core::keys::IdentifierList;
use frost_core::{Identifier, SigningKey};
use serde::{Deserialize, Serialize};
use serde_json::Value;
use std::collections::BTreeMap;

pub struct C16;

#[derive(Serialize, Deserialize, Clone, Debug)]
struct Case {
    suite: String,
    entry: String,
    n: u16,
    t: u16,
    seed: String,
    /// compare the outputs with those of a separate process (no per-process entropy source)
    #[serde(default)]
    cross_process: bool,
}

const ENTRIES: [&str; 10] = [
    "SigningKey::new",
    "SigningKey::sign",
    "generate_with_dealer",
    "split",
    "dkg::part1",
    "compute_refreshing_shares",
    "refresh_dkg_part1",
    "repair_share_part1",
    "RandomizedParams::new_from_commitments",
    "batch::Verifier::verify",
];

impl Prop for C16 {
    fn id(&self) -> &'static str {
        "C16"
    }
    fn level(&self) -> &'static str {
        "exploration"
    }
    fn rule(&self) -> String {
        "E5 environment-answer exploration: 10 RNG-taking entry points x suites x (n,t) (|H|, batch size) x streams. Oracles: (a) same stream => bit-identical outputs; (b) another stream => EVERY listed secret-derived value changes (key, each coefficient commitment C_1..C_{t-1}, proof commitment, each delta, seed, randomizer); (c) within one call the listed values are pairwise distinct; (d) bytes consumed >= 16 per secret value; (e) EVERY single-draw deviation (draw j answered from another stream, all other draws unchanged), j over every draw the entry point makes, changes the output - no draw is consumed and ignored, none is reused; (f) a zero answer to the key draw / proof-nonce draw is rejected and re-drawn; (g) the outputs equal those of a SEPARATE process under the same source. Non-trivial = entry point executed with at least one draw".into()
    }
    fn assumptions(&self) -> Vec<String> {
        vec![
            "'nowhere else' is decided as determinism under a scripted source within one process image; an entropy source that is constant per process would escape".into(),
            "batch blinders are not observable as values: decided through the recording (one fresh draw >= 16 bytes per item) here and exactly on the tiny field in C19".into(),
        ]
    }
    fn bound(&self, tier: Tier) -> String {
        format!("(n,t) up to ({},{}), helper sets up to {}, batches up to {}; 1 deviation per run, every draw", tier.pick(5, 7), tier.pick(5, 7), tier.pick(5, 7), tier.pick(8, 64))
    }
    fn required_counters(&self) -> Vec<&'static str> {
        vec!["deviations_checked", "stream_pairs_checked", "zero_draws_rejected"]
    }
    fn cases(&self, tier: Tier, seed: u64) -> Vec<Value> {
        let mut out = vec![];
        let nmax = tier.pick(5u16, 7u16);
        for suite in REAL_SUITES.iter().copied().chain(["tiny251"]) {
            for e in ENTRIES {
                for (n, t) in super::c01::shapes(nmax) {
                    let single = matches!(e, "SigningKey::new" | "SigningKey::sign" | "RandomizedParams::new_from_commitments");
                    if single && (n, t) != (2, 2) {
                        continue;
                    }
                    if e == "batch::Verifier::verify" && t != 2 {
                        continue; // n is the batch size here
                    }
                    if suite == "ed448" && n > tier.pick(4, 5) {
                        continue;
                    }
                    out.push(serde_json::to_value(Case { suite: suite.to_string(), entry: e.to_string(), n, t, seed: format!("s{seed}"), cross_process: false }).unwrap());
                }
                if e == "batch::Verifier::verify" {
                    for n in [8u16, 16, 64, 65, 130, 300] {
                        if suite == "ed448" && n > tier.pick(65, 300) {
                            continue;
                        }
                        out.push(serde_json::to_value(Case { suite: suite.to_string(), entry: e.to_string(), n, t: 2, seed: format!("s{seed}"), cross_process: false }).unwrap());
                    }
                }
            }
            if !suite.starts_with("tiny") {
                out.push(serde_json::to_value(Case { suite: suite.to_string(), entry: "*".to_string(), n: 3, t: 2, seed: format!("s{seed}"), cross_process: true }).unwrap());
            }
        }
        out
    }
    fn run(&self, case: &Value) -> Outcome {
        let c: Case = serde_json::from_value(case.clone()).expect("case");
        if c.cross_process {
            return cross_process(&c);
        }
        with_suite!(c.suite.as_str(), run_case, &c)
    }
}

/// hex digests of the outputs of every entry point at (3,2) under the base stream
pub fn digests(suite: &str, seed: &str) -> BTreeMap<String, String> {
    fn inner<C: Suite>(seed: &str) -> BTreeMap<String, String> {
        use sha2::{Digest, Sha256};
        let mut m = BTreeMap::new();
        let Ok(fx) = Fixture::<C>::new() else { return m };
        for e in ENTRIES {
            let c = Case { suite: C::name(), entry: e.to_string(), n: 3, t: 2, seed: seed.to_string(), cross_process: false };
            let d = match exec::<C>(&c, ScriptedRng::ctr(format!("{seed}.base")), &fx) {
                Ok(o) => hex::encode(&Sha256::digest(&o.output)[..16]),
                Err(e) => format!("error: {e}"),
            };
            m.insert(e.to_string(), d);
        }
        m
    }
    with_suite!(suite, inner, seed)
}

fn cross_process(c: &Case) -> Outcome {
    let mut o = Outcome::new();
    let tag = format!("C16/{}", c.suite);
    let here = digests(&c.suite, &c.seed);
    let exe = match std::env::current_exe() {
        Ok(e) => e,
        Err(e) => {
            o.machinery_error(format!("current_exe: {e}"));
            return o;
        }
    };
    let out = std::process::Command::new(exe).arg("c16-digest").arg(&c.suite).arg(&c.seed).output();
    match out {
        Ok(out) if out.status.success() => match serde_json::from_slice::<BTreeMap<String, String>>(&out.stdout) {
            Ok(there) => {
                for (k, v) in &here {
                    o.eval(true);
                    o.count("cross_process_comparisons", 1);
                    if there.get(k) != Some(v) {
                        o.fail(format!("{tag}/{k}/differs-between-processes"), format!("outputs under the same random source differ between two processes: {v} vs {:?} (a per-process entropy source is in use)", there.get(k)));
                    }
                }
            }
            Err(e) => o.machinery_error(format!("child output: {e}")),
        },
        Ok(out) => o.machinery_error(format!("child exited with {:?}", out.status.code())),
        Err(e) => o.machinery_error(format!("cannot spawn child: {e}")),
    }
    o.class("cross-process");
    o
}

/// What one execution of an entry point yields.
struct Obs {
    /// everything the call returned, serialized
    output: Vec<u8>,
    /// the listed secret-derived values (each must change with the stream, pairwise distinct)
    listed: Vec<(String, Vec<u8>)>,
    /// number of secret values the call must have drawn
    secrets: usize,
    calls: usize,
    bytes: usize,
    /// true if the result is usable (e.g. proof verifies)
    ok: bool,
}

fn el<C: Suite>(e: &frost_core::Element<C>) -> Vec<u8> {
    el_bytes::<C>(e).unwrap_or_else(|| b"identity".to_vec())
}

fn exec<C: Suite>(c: &Case, mut rng: ScriptedRng, fx: &Fixture<C>) -> Result<Obs, String> {
    let (n, t) = (c.n, c.t);
    let mut listed: Vec<(String, Vec<u8>)> = vec![];
    let mut output: Vec<u8> = vec![];
    let mut ok = true;
    let secrets;
    match c.entry.as_str() {
        "SigningKey::new" => {
            let k = SigningKey::<C>::new(&mut rng);
            output = k.serialize();
            listed.push(("key".into(), output.clone()));
            ok = k.to_scalar() != zero::<C>();
            secrets = 1;
        }
        "SigningKey::sign" => {
            let sig = fx.sk.sign(&mut rng, b"c16");
            output = sig.serialize().map_err(e2s("sig"))?;
            listed.push(("R".into(), el::<C>(sig.R())));
            ok = fc::VerifyingKey::<C>::from(&fx.sk).verify(b"c16", &sig).is_ok();
            secrets = 1;
        }
        "generate_with_dealer" | "split" => {
            let r = if c.entry == "split" {
                C::w_split(&fx.sk, n, t, IdentifierList::Default, &mut rng)
            } else {
                C::w_generate_with_dealer(n, t, IdentifierList::Default, &mut rng)
            };
            let (shares, pkp) = r.map_err(e2s("dealer"))?;
            for (id, s) in &shares {
                output.extend(id.serialize());
                output.extend(s.signing_share().serialize());
            }
            output.extend(pkp.serialize().map_err(e2s("pkp"))?);
            let cm = shares.values().next().unwrap().commitment().coefficients().to_vec();
            if c.entry == "generate_with_dealer" {
                listed.push(("key".into(), el::<C>(&cm[0].value())));
            }
            for (k, x) in cm.iter().enumerate().skip(1) {
                listed.push((format!("C{k}"), el::<C>(&x.value())));
            }
            secrets = t as usize - 1 + if c.entry == "generate_with_dealer" { 1 } else { 0 };
        }
        "dkg::part1" | "refresh_dkg_part1" => {
            let id = Identifier::<C>::try_from(1u16).unwrap();
            let refresh = c.entry == "refresh_dkg_part1";
            let (sp, p) = if refresh { C::w_refresh_dkg_part1(id, n, t, &mut rng) } else { C::w_part1(id, n, t, &mut rng) }.map_err(e2s("part1"))?;
            for cf in sp.coefficients() {
                output.extend(sc_bytes::<C>(&cf));
            }
            for (k, x) in p.commitment().coefficients().iter().enumerate() {
                let k = if refresh { k + 1 } else { k };
                listed.push((format!("C{k}"), el::<C>(&x.value())));
                output.extend(el::<C>(&x.value()));
            }
            listed.push(("proof-R".into(), el::<C>(p.proof_of_knowledge().R())));
            output.extend(el::<C>(p.proof_of_knowledge().R()));
            output.extend(sc_bytes::<C>(p.proof_of_knowledge().z()));
            if !refresh {
                ok = fc::keys::dkg::verify_proof_of_knowledge(id, p.commitment(), p.proof_of_knowledge()).is_ok();
            }
            secrets = if refresh { t as usize } else { t as usize + 1 };
        }
        "compute_refreshing_shares" => {
            let g = fx.group(n, t)?;
            let (shares, pkp) = C::w_compute_refreshing_shares(g.pkp.clone(), &g.ids, &mut rng).map_err(e2s("refresh"))?;
            for s in &shares {
                output.extend(s.signing_share().serialize());
            }
            output.extend(pkp.serialize().map_err(e2s("pkp"))?);
            for (k, x) in shares[0].commitment().coefficients().iter().enumerate() {
                listed.push((format!("C{}", k + 1), el::<C>(&x.value())));
            }
            secrets = t as usize - 1;
        }
        "repair_share_part1" => {
            // |H| = n - 1 helpers (>= t needed): use groups (n+1, t) so that |H| ranges over t..n
            let g = fx.group(n + 1, t)?;
            let helpers: Vec<Id<C>> = g.ids.iter().take(n as usize).copied().collect();
            let d = C::w_repair1(&helpers, &g.kps[&helpers[0]], &mut rng, g.ids[n as usize]).map_err(e2s("repair1"))?;
            for (id, x) in &d {
                output.extend(id.serialize());
                output.extend(x.serialize());
                listed.push((format!("delta->{}", id_short::<C>(id)), x.serialize()));
            }
            // the same with the helper list in another order (greatest identifier first, caller in the middle)
            let mut rot = helpers.clone();
            rot.reverse();
            let caller = rot[rot.len() / 2];
            let d2 = C::w_repair1(&rot, &g.kps[&caller], &mut rng, g.ids[n as usize]).map_err(e2s("repair1 (reordered helper list)"))?;
            for (id, x) in &d2 {
                output.extend(id.serialize());
                output.extend(x.serialize());
                listed.push((format!("reordered-list delta->{}", id_short::<C>(id)), x.serialize()));
            }
            secrets = 2 * (n as usize - 1);
        }
        "RandomizedParams::new_from_commitments" => {
            let (params, seed) = frost_rerandomized::RandomizedParams::<C>::new_from_commitments(fx.pkp2.verifying_key(), &fx.comms2, &mut rng).map_err(e2s("rr"))?;
            output.extend(&seed);
            output.extend(params.randomizer().serialize());
            listed.push(("seed".into(), seed.clone()));
            listed.push(("randomizer".into(), params.randomizer().serialize()));
            if seed.len() != sc_bytes::<C>(&zero::<C>()).len() {
                return Err(format!("seed has {} bytes, expected the scalar length", seed.len()));
            }
            secrets = 1;
        }
        "batch::Verifier::verify" => {
            let mut v = fc::batch::Verifier::<C>::new();
            for i in 0..n as usize {
                v.queue(fx.items[i % fx.items.len()].clone());
            }
            let r = v.verify(&mut rng);
            output.push(r.is_ok() as u8);
            // a second batch from the same source: adjacent items under the SAME key (and the same item twice)
            let mut v2 = fc::batch::Verifier::<C>::new();
            for i in 0..n as usize {
                v2.queue(fx.items_same[(i / 2 * 2 + i % 2) % fx.items_same.len()].clone());
            }
            let r2 = v2.verify(&mut rng);
            output.push(r2.is_ok() as u8);
            ok = r.is_ok() && r2.is_ok();
            secrets = 2 * n as usize;
        }
        other => return Err(format!("unknown entry {other}")),
    }
    Ok(Obs { output, listed, secrets, calls: rng.calls.len(), bytes: rng.total_bytes(), ok })
}

struct Fixture<C: Suite> {
    sk: SigningKey<C>,
    pkp2: fc::keys::PublicKeyPackage<C>,
    comms2: BTreeMap<Id<C>, fc::round1::SigningCommitments<C>>,
    items: Vec<fc::batch::Item<C>>,
    /// items 2k and 2k+1 share a key (item 3 repeats item 2 exactly)
    items_same: Vec<fc::batch::Item<C>>,
}
impl<C: Suite> Fixture<C> {
    fn new() -> Result<Self, String> {
        let sk = SigningKey::<C>::from_scalar(sc_seeded_nz::<C>("c16sk")).map_err(e2s("sk"))?;
        let g = cached_group::<C>(KeySrc::Dealer, 3, 2, IdKind::Seq, "c16")?;
        let s: Vec<_> = g.ids.iter().take(2).copied().collect();
        let (_, comms2) = commit_all::<C>(&g.kps, &s, "c16");
        let mut items = vec![];
        for k in 0..4 {
            let key = SigningKey::<C>::from_scalar(sc_seeded_nz::<C>(&format!("c16item{k}"))).map_err(e2s("sk"))?;
            let mut rng = ScriptedRng::ctr(format!("c16item{k}"));
            let msg = format!("batch item {k}");
            let sig = key.sign(&mut rng, msg.as_bytes());
            items.push(fc::batch::Item::<C>::new(fc::VerifyingKey::<C>::from(&key), sig, msg.as_bytes()).map_err(e2s("item"))?);
        }
        let mut items_same = vec![];
        for k in 0..4usize {
            let key = SigningKey::<C>::from_scalar(sc_seeded_nz::<C>(&format!("c16same{}", k / 2))).map_err(e2s("sk"))?;
            let m = if k == 3 { 2 } else { k };
            let mut rng = ScriptedRng::ctr(format!("c16same{m}"));
            let msg = format!("same-key item {m}");
            let sig = key.sign(&mut rng, msg.as_bytes());
            items_same.push(fc::batch::Item::<C>::new(fc::VerifyingKey::<C>::from(&key), sig, msg.as_bytes()).map_err(e2s("item"))?);
        }
        Ok(Fixture { sk, pkp2: g.pkp.clone(), comms2, items, items_same })
    }
    fn group(&self, n: u16, t: u16) -> Result<std::sync::Arc<Grp<C>>, String> {
        cached_group::<C>(KeySrc::Dealer, n, t, IdKind::Seq, "c16g")
    }
}

fn run_case<C: Suite>(c: &Case) -> Outcome {
    let mut o = Outcome::new();
    let tag = format!("C16/{}/{}", C::name(), c.entry);
    let ctx = format!("n={} t={}", c.n, c.t);
    let fx = match Fixture::<C>::new() {
        Ok(f) => f,
        Err(e) => {
            o.fail(format!("{tag}/setup"), e);
            return o;
        }
    };
    // calls per scalar draw of this suite (machinery calibration)
    let cps = {
        let mut r = ScriptedRng::ctr("cal");
        let _ = F::<C>::random(&mut r);
        r.calls.len()
    };
    let base_label = format!("{}.base", c.seed);
    let base = match exec::<C>(c, ScriptedRng::ctr(base_label.clone()), &fx) {
        Ok(b) => b,
        Err(e) => {
            o.eval(false);
            if C::TINY {
                o.class("tiny-degenerate");
                return o;
            }
            o.fail(format!("{tag}/failed"), format!("{ctx}: {e}"));
            return o;
        }
    };
    o.eval(base.calls > 0);
    if !base.ok && !C::TINY {
        o.fail(format!("{tag}/unusable-output"), format!("{ctx}: output of the default stream is not usable (zero key / invalid proof / batch rejected)"));
    }
    // (a) determinism
    match exec::<C>(c, ScriptedRng::ctr(base_label.clone()), &fx) {
        Ok(again) => {
            if again.output != base.output || again.calls != base.calls {
                o.fail(format!("{tag}/not-deterministic"), format!("{ctx}: two executions under the same random source output differ: another entropy source is in use"));
            }
        }
        Err(e) => o.fail(format!("{tag}/not-deterministic"), format!("{ctx}: second execution failed: {e}")),
    }
    // (d) consumption lower bound; no rejection expected on the default stream
    if base.bytes < 16 * base.secrets && !C::TINY {
        o.fail(format!("{tag}/too-little-randomness"), format!("{ctx}: {} bytes drawn for {} secret values", base.bytes, base.secrets));
    }
    if base.calls < base.secrets {
        o.fail(format!("{tag}/fewer-draws-than-secrets"), format!("{ctx}: {} draws for {} secret values", base.calls, base.secrets));
    }
    // (c) pairwise distinctness within the call
    if !C::TINY {
        for a in 0..base.listed.len() {
            for b in (a + 1)..base.listed.len() {
                if base.listed[a].1 == base.listed[b].1 {
                    o.fail(format!("{tag}/values-coincide"), format!("{ctx}: {} and {} are equal within one call", base.listed[a].0, base.listed[b].0));
                }
            }
        }
    }
    // (b) other streams: every listed value changes
    for k in 0..2 {
        match exec::<C>(c, ScriptedRng::ctr(format!("{}.other{k}", c.seed)), &fx) {
            Ok(other) => {
                o.count("stream_pairs_checked", 1);
                if !C::TINY {
                    for (a, b) in base.listed.iter().zip(other.listed.iter()) {
                        if a.1 == b.1 {
                            o.fail(format!("{tag}/value-does-not-depend-on-source"), format!("{ctx}: {} is the same under two different random sources", a.0));
                        }
                    }
                    if other.calls != base.calls {
                        o.count("call_count_varies", 1);
                    }
                }
            }
            Err(e) => {
                if !C::TINY {
                    o.fail(format!("{tag}/failed"), format!("{ctx}: {e}"));
                }
            }
        }
    }
    // (e) every single-draw deviation changes the output (batch: the verdict cannot change; the
    // recording is checked instead)
    if c.entry == "batch::Verifier::verify" {
        if base.calls != cps * 2 * c.n as usize {
            o.fail(format!("{tag}/blinder-draws"), format!("{ctx}: {} draws for 2 x {} items ({} draws per scalar; the second batch has adjacent items under the same key and a repeated item): not one fresh blinder per item", base.calls, c.n, cps));
        }
        o.count("deviations_checked", base.calls as u64);
    } else if !C::TINY {
        for j in 0..base.calls {
            let rng = ScriptedRng::ctr(base_label.clone()).with_dev(j, Dev::Alt("dev".into()));
            match exec::<C>(c, rng, &fx) {
                Ok(d) => {
                    o.count("deviations_checked", 1);
                    if d.output == base.output {
                        o.fail(format!("{tag}/draw-ignored"), format!("{ctx}: changing draw {j} of {} leaves the whole output unchanged (consumed and ignored, or the value is derived from another draw)", base.calls));
                    }
                    // how many listed values changed: a single draw must not change them all unless there is only one
                    // (not asserted: which value changes is an implementation detail)
                }
                Err(e) => o.fail(format!("{tag}/failed"), format!("{ctx}: deviation at draw {j}: {e}")),
            }
        }
    } else {
        o.count("deviations_checked", 1);
    }
    // (h) source answers outside the scalar range (all ones; order + 1 in either byte order - none of them
    // congruent to 0): Field::random must not make zero of them (it reduces, or draws again), and with such an
    // answer to any single draw the entry point still works and its values stay pairwise distinct
    if !C::TINY && c.entry != "batch::Verifier::verify" {
        let qm1 = sc_bytes::<C>(&neg::<C>(one::<C>()));
        let mut raws: Vec<(String, Vec<u8>)> = vec![("all-ones".into(), vec![0xff; 256])];
        {
            let l = qm1.len();
            let mut a = qm1.clone();
            a[0] = a[0].wrapping_add(2);
            let mut b = qm1.clone();
            b[l - 1] = b[l - 1].wrapping_add(2);
            raws.push(("order+1 (first byte)".into(), a));
            raws.push(("order+1 (last byte)".into(), b));
        }
        for (name, bytes) in &raws {
            let mut r = ScriptedRng::ctr("h-unit").with_dev(0, Dev::Bytes(bytes.clone()));
            if F::<C>::random(&mut r) == zero::<C>() {
                o.fail(format!("{tag}/out-of-range-answer-becomes-zero"), format!("{ctx}: Field::random turns the source answer '{name}' (not congruent to 0) into the zero scalar"));
            }
        }
        for j in 0..base.calls {
            match exec::<C>(c, ScriptedRng::ctr(base_label.clone()).with_dev(j, Dev::Bytes(vec![0xff; 256])), &fx) {
                Ok(a) => {
                    o.count("out_of_range_answers", 1);
                    if !a.ok {
                        o.fail(format!("{tag}/out-of-range-draw-unusable"), format!("{ctx}: all-ones answer to draw {j}: unusable output"));
                    }
                    for p in 0..a.listed.len() {
                        for q in (p + 1)..a.listed.len() {
                            if a.listed[p].1 == a.listed[q].1 {
                                o.fail(format!("{tag}/values-coincide"), format!("{ctx}: all-ones answer to draw {j}: {} and {} are equal within one call", a.listed[p].0, a.listed[q].0));
                            }
                        }
                    }
                }
                Err(e) => o.fail(format!("{tag}/out-of-range-draw-unusable"), format!("{ctx}: all-ones answer to draw {j}: {e}")),
            }
        }
    }
    // (f) zero answers to the key draw and the proof-nonce draw are rejected
    let zero_targets: Vec<(&str, usize)> = match c.entry.as_str() {
        "SigningKey::new" | "generate_with_dealer" => vec![("key", 0)],
        "dkg::part1" => vec![("key", 0), ("proof-nonce", c.t as usize)],
        "refresh_dkg_part1" => vec![("proof-nonce", c.t as usize - 1)],
        "SigningKey::sign" => vec![("nonce", 0)],
        _ => vec![],
    };
    for (what, scalar_idx) in zero_targets {
        let mut rng = ScriptedRng::ctr(base_label.clone());
        for k in 0..cps {
            rng = rng.with_dev(scalar_idx * cps + k, Dev::Zero);
        }
        match exec::<C>(c, rng, &fx) {
            Ok(z) => {
                if !z.ok && !C::TINY {
                    o.fail(format!("{tag}/zero-draw-accepted"), format!("{ctx}: a zero answer to the {what} draw was not rejected (unusable output)"));
                } else if z.calls != base.calls + cps && !C::TINY {
                    o.fail(format!("{tag}/zero-draw-not-redrawn"), format!("{ctx}: zero {what} draw: {} draws instead of {} (+{cps})", z.calls, base.calls));
                } else {
                    o.count("zero_draws_rejected", 1);
                }
            }
            Err(e) => {
                if !C::TINY {
                    o.fail(format!("{tag}/zero-draw-accepted"), format!("{ctx}: zero {what} draw: {e}"));
                }
            }
        }
    }
    o.class(c.entry.clone());
    o
}
