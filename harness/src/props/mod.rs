use crate::runner::Prop;

pub mod c01;

pub fn lookup(id: &str) -> Option<Box<dyn Prop>> {
    match id {
        "C01" => Some(Box::new(c01::C01)),
        _ => None,
    }
}
