//! C08 — key generation aborts and names the sender on any malformed peer contribution.

use crate::rng::ScriptedRng;
use crate::runner::{Outcome, Prop, Tier};
use crate::suites::{Id, REAL_SUITES, Suite};
use crate::util::*;
use crate::with_suite;
use frost_core as fc;
use frost_core::keys::dkg::{round1 as d1, round2 as d2};
use frost_core::keys::{CoefficientCommitment, SigningShare, VerifiableSecretSharingCommitment};
use frost_core::{Identifier, Signature};
use serde::{Deserialize, Serialize};
use serde_json::Value;
use std::collections::BTreeMap;

pub struct C08;

#[derive(Serialize, Deserialize, Clone, Debug)]
struct Case {
    suite: String,
    n: u16,
    t: u16,
    idkind: IdKind,
    /// indices into the sorted participant list
    receiver: usize,
    sender: usize,
    seed: String,
    /// the sender's polynomial has 65536 + t coefficients (its length wraps to t in 16 bits), with a valid
    /// proof of knowledge and shares that lie on it
    #[serde(default)]
    wrap: bool,
}

impl Prop for C08 {
    fn id(&self) -> &'static str {
        "C08"
    }
    fn level(&self) -> &'static str {
        "fault_enumeration"
    }
    fn rule(&self) -> String {
        "complete fault enumeration: suites x shapes x EVERY ordered (receiver, sender) pair x every fault kind x every field (both proof components, proof for every other identifier, proof of the other run, every commitment coefficient, length t-1 / t+1 with and without a valid proof, own-identifier filing in three forms, missing, surplus; round two: share+1, share for every other recipient, share of the other run, own / unknown identifier, missing, surplus, both maps consistently restricted, contributions filed under identifiers that differ from the sender only in high-order bits). Oracle: the first consuming step is Err, earlier steps behave as in the honest run, culprits subset of {sender} and = {sender} for proof and share faults. Non-trivial = fault injected and consuming step executed".into()
    }
    fn assumptions(&self) -> Vec<String> {
        vec!["'attributable' is read as: the error carries a culprit; count / length / identifier-set faults need only be errors naming nobody else (DESIGN 3.8 rule 4)".into()]
    }
    fn bound(&self, tier: Tier) -> String {
        format!("shapes {:?}, every (receiver, sender) pair, every fault kind and coordinate", shapes(tier))
    }
    fn required_counters(&self) -> Vec<&'static str> {
        vec!["faults_rejected", "culprit_exact", "coefficient_faults_caught_in_part3"]
    }
    fn cases(&self, tier: Tier, seed: u64) -> Vec<Value> {
        let mut out = vec![];
        for (n, t) in shapes(tier) {
            for suite in REAL_SUITES {
                if suite == "ed448" && n > tier.pick(3, 5) {
                    continue;
                }
                let kinds: Vec<IdKind> = if tier == Tier::Quick { vec![IdKind::Seq, IdKind::U16x] } else { vec![IdKind::Seq, IdKind::U16x, IdKind::Derived, IdKind::Big] };
                for idkind in kinds {
                    if tier == Tier::Quick && idkind == IdKind::Seq && n > 3 {
                        continue;
                    }
                    for r in 0..n as usize {
                        for s in 0..n as usize {
                            if r != s {
                                out.push(serde_json::to_value(Case { suite: suite.to_string(), n, t, idkind, receiver: r, sender: s, seed: format!("s{seed}"), wrap: false }).unwrap());
                            }
                        }
                    }
                }
            }
        }
        for suite in if tier == Tier::Thorough { REAL_SUITES.to_vec() } else { vec!["ed25519", "secp256k1-tr"] } {
            for (r, s) in [(0usize, 1usize), (2, 0)] {
                out.push(serde_json::to_value(Case { suite: suite.to_string(), n: 3, t: 2, idkind: IdKind::Seq, receiver: r, sender: s, seed: format!("s{seed}"), wrap: true }).unwrap());
            }
        }
        out
    }
    fn run(&self, case: &Value) -> Outcome {
        let c: Case = serde_json::from_value(case.clone()).expect("case");
        with_suite!(c.suite.as_str(), run_case, &c)
    }
}

fn shapes(tier: Tier) -> Vec<(u16, u16)> {
    match tier {
        Tier::Quick => vec![(2, 2), (3, 2), (3, 3), (4, 2), (4, 3), (4, 4), (5, 3)],
        Tier::Thorough => vec![(2, 2), (3, 2), (3, 3), (4, 2), (4, 3), (4, 4), (5, 3), (5, 4), (5, 5), (6, 3), (6, 5), (7, 4)],
    }
}

#[derive(Clone, Copy, PartialEq)]
enum Want {
    /// culprits must be exactly {sender}
    Exact,
    /// culprits must be a subset of {sender}
    Subset,
    /// not a single-sender fault: any error will do
    Any,
}

fn run_case<C: Suite>(c: &Case) -> Outcome {
    let mut o = Outcome::new();
    let tag = format!("C08/{}", C::name());
    let idlist = make_ids::<C>(c.idkind, c.n as usize);
    let (a, b) = match (dkg_run::<C>(c.n, c.t, &idlist, &format!("{}.A", c.seed)), dkg_run::<C>(c.n, c.t, &idlist, &format!("{}.B", c.seed))) {
        (Ok(a), Ok(b)) => (a, b),
        _ => {
            o.eval(false);
            o.fail(format!("{tag}/setup"), "honest runs failed".to_string());
            return o;
        }
    };
    let r = a.ids[c.receiver];
    let s = a.ids[c.sender];
    let ctx = format!("n={} t={} ids={:?} receiver={} sender={}", c.n, c.t, c.idkind, id_short::<C>(&r), id_short::<C>(&s));
    let honest_r1 = others::<C, _>(&a.p1, &r);
    let honest_r2 = r2_for::<C>(&a, &r);
    let (h_sp2, h_p2) = C::w_part2(a.sp1[&r].clone(), &honest_r1).expect("honest part2");
    if C::w_part3(&h_sp2, &honest_r1, &honest_r2).is_err() {
        o.fail(format!("{tag}/setup"), format!("{ctx}: honest part3 failed"));
        return o;
    }
    if c.wrap {
        // sender's polynomial: t seeded coefficients followed by 65536 ones
        let long = 65536usize + c.t as usize;
        let mut coeffs: Vec<frost_core::Scalar<C>> = a.sp1[&s].coefficients().to_vec();
        coeffs.resize(long, one::<C>());
        let mut elems = commitment_elems::<C>(a.p1[&s].commitment());
        elems.resize(long, G::<C>::generator());
        let comm = VerifiableSecretSharingCommitment::<C>::new(elems.iter().map(|e| CoefficientCommitment::new(*e)).collect());
        let mut rng = ScriptedRng::ctr("wrap-pok");
        let pok = fc::keys::dkg::compute_proof_of_knowledge(s, &coeffs, &comm, &mut rng).expect("pok");
        let pkg = d1::Package::<C>::new(comm, pok);
        let mut m = honest_r1.clone();
        m.insert(s, pkg);
        o.eval(true);
        let what = "commitment-length-65536+t-valid-proof";
        match C::w_part2(a.sp1[&r].clone(), &m) {
            Err(e) => {
                o.count("faults_rejected", 1);
                o.count("wrapping_length_rejected", 1);
                let got = culprit_set::<C>(&e);
                if !(got.is_empty() || got == vec![id_hex::<C>(&s)]) {
                    o.fail(format!("{tag}/wrong-culprit/{what}"), format!("{ctx}: part2 failed with {e:?}; culprits {got:?}"));
                }
            }
            Ok((sp2, _)) => {
                // the sender's share for the receiver lies on its long polynomial
                let x = id_scalar::<C>(&r);
                let mut acc = zero::<C>();
                for cf in coeffs.iter().rev() {
                    acc = acc * x + *cf;
                }
                let mut r2 = honest_r2.clone();
                r2.insert(s, d2::Package::<C>::new(fc::keys::SigningShare::new(acc)));
                match C::w_part3(&sp2, &m, &r2) {
                    Err(e) => {
                        o.count("faults_rejected", 1);
                        o.fail(format!("{tag}/fault-not-caught-at-first-consuming-step/{what}"), format!("{ctx}: part2 accepted a commitment of {long} coefficients (threshold {}); part3 then failed with {e:?}", c.t));
                    }
                    Ok((kp, pkp)) => {
                        let consistent = gen_mul::<C>(kp.signing_share().to_scalar()) == pkp.verifying_shares()[&r].to_element();
                        o.fail(format!("{tag}/fault-accepted/{what}"), format!("{ctx}: part2 and part3 returned Ok for a peer commitment of {long} coefficients (threshold {}); key material recorded threshold {}, own share matches own public entry: {consistent}", c.t, kp.min_signers()));
                    }
                }
            }
        }
        o.class("wrapping-length");
        return o;
    }
    let stranger = Identifier::<C>::try_from(31337u16).unwrap();
    // unknown identifiers that differ from the sender only in high-order bits
    let sbits = sc_bytes::<C>(&one::<C>()).len() as u32 * 8;
    let near: Vec<Id<C>> = [sbits - 16, sbits - 64, 384u32.min(sbits - 24)]
        .iter()
        .filter_map(|k| Identifier::<C>::new(id_scalar::<C>(&a.ids[c.sender]) + pow2::<C>(*k)).ok())
        .filter(|i| !a.ids.contains(i))
        .collect();
    let g = G::<C>::generator();
    let sender_hex = id_hex::<C>(&s);

    // culprit oracle
    let mut judge = |o: &mut Outcome, what: &str, step: &str, err: Option<fc::Error<C>>, want: Want| {
        o.eval(true);
        match err {
            None => {
                o.fail(format!("{tag}/fault-accepted/{what}"), format!("{ctx}: {step} returned Ok with fault '{what}'"));
            }
            Some(e) => {
                o.count("faults_rejected", 1);
                let got = culprit_set::<C>(&e);
                let ok = match want {
                    Want::Exact => got == vec![sender_hex.clone()],
                    Want::Subset => got.is_empty() || got == vec![sender_hex.clone()],
                    Want::Any => true,
                };
                if !ok {
                    o.fail(
                        format!("{tag}/wrong-culprit/{what}"),
                        format!("{ctx}: {step} failed with {e:?}; culprits {got:?}, expected {} {{sender}}", if want == Want::Exact { "exactly" } else { "a subset of" }),
                    );
                } else if want == Want::Exact {
                    o.count("culprit_exact", 1);
                }
                o.class(format!("{e:?}").split(['{', '(', ' ']).next().unwrap_or("err").to_string());
            }
        }
    };

    // ---------------- round one faults consumed by part2 ----------------
    let sp = &a.p1[&s];
    let ce: Vec<_> = commitment_elems::<C>(sp.commitment());
    let mk_comm = |v: &[frost_core::Element<C>]| VerifiableSecretSharingCommitment::<C>::new(v.iter().map(|e| CoefficientCommitment::new(*e)).collect());
    let pok = *sp.proof_of_knowledge();
    let mut r1_faults: Vec<(String, d1::Package<C>, Want)> = vec![];
    r1_faults.push(("proof-response+1".into(), d1::Package::new(sp.commitment().clone(), Signature::new(*pok.R(), *pok.z() + one::<C>())), Want::Exact));
    r1_faults.push(("proof-commitment+G".into(), d1::Package::new(sp.commitment().clone(), Signature::new(*pok.R() + g, *pok.z())), Want::Exact));
    r1_faults.push(("proof-negated-R".into(), d1::Package::new(sp.commitment().clone(), Signature::new(G::<C>::identity() - *pok.R(), *pok.z())), Want::Exact));
    for other in &a.ids {
        if *other == s {
            continue;
        }
        // a proof that is valid for (other identifier, the sender's commitment)
        let mut rng = ScriptedRng::ctr(format!("pok:{}", id_hex::<C>(other)));
        let p = fc::keys::dkg::compute_proof_of_knowledge(*other, &a.sp1[&s].coefficients(), sp.commitment(), &mut rng).expect("pok");
        r1_faults.push((format!("proof-for-other-identifier"), d1::Package::new(sp.commitment().clone(), p), Want::Exact));
        // another participant's whole package under the sender's slot
        r1_faults.push(("other-participants-package".into(), a.p1[other].clone(), Want::Exact));
    }
    {
        // a proof whose PUBLISHED nonce commitment is the negation of the one its response was computed for:
        // R' = -(k G), c = HDKG(sender || phi_0 || R'), z = k + a_0 c; then z G - c phi_0 = -R' != R'
        use frost_core::Ciphersuite;
        let k = sc_seeded_nz::<C>("negated-nonce-proof");
        let rpub = G::<C>::identity() - gen_mul::<C>(k);
        let mut pre = s.serialize();
        if let (Some(p0), Some(rb)) = (el_bytes::<C>(&ce[0]), el_bytes::<C>(&rpub)) {
            pre.extend_from_slice(&p0);
            pre.extend_from_slice(&rb);
            if let Some(cc) = C::HDKG(&pre) {
                let z = k + a.sp1[&s].coefficients()[0] * cc;
                // control: with the honest R = k G the same construction IS a valid proof
                let mut pre2 = s.serialize();
                pre2.extend_from_slice(&p0);
                pre2.extend_from_slice(&el_bytes::<C>(&gen_mul::<C>(k)).unwrap());
                let good = Signature::new(gen_mul::<C>(k), k + a.sp1[&s].coefficients()[0] * C::HDKG(&pre2).unwrap());
                if fc::keys::dkg::verify_proof_of_knowledge(s, sp.commitment(), &good).is_err() {
                    o.fail(format!("{tag}/CONTROL-handmade-proof-invalid"), format!("{ctx}: the harness's own proof construction is not accepted"));
                } else {
                    r1_faults.push(("proof-for-negated-nonce-commitment".into(), d1::Package::new(sp.commitment().clone(), Signature::new(rpub, z)), Want::Exact));
                    // proofs that satisfy the Schnorr equation for a challenge computed over ANOTHER layout of the
                    // same fields (swapped, identifier dropped, nonce commitment dropped, identifier last)
                    let idb = s.serialize();
                    let rgood = el_bytes::<C>(&gen_mul::<C>(k)).unwrap();
                    for (what, pre) in [
                        ("swapped-fields", [idb.clone(), rgood.clone(), p0.clone()].concat()),
                        ("without-identifier", [p0.clone(), rgood.clone()].concat()),
                        ("without-nonce-commitment", [idb.clone(), p0.clone()].concat()),
                        ("identifier-last", [p0.clone(), rgood.clone(), idb.clone()].concat()),
                    ] {
                        if let Some(c2) = C::HDKG(&pre) {
                            let z2 = k + a.sp1[&s].coefficients()[0] * c2;
                            r1_faults.push((format!("proof-with-challenge-over-{what}"), d1::Package::new(sp.commitment().clone(), Signature::new(gen_mul::<C>(k), z2)), Want::Exact));
                        }
                    }
                }
            }
        }
    }
    r1_faults.push(("proof-of-other-run".into(), d1::Package::new(sp.commitment().clone(), *b.p1[&s].proof_of_knowledge()), Want::Exact));
    {
        let mut tr = ce.clone();
        tr.pop();
        r1_faults.push(("commitment-truncated".into(), d1::Package::new(mk_comm(&tr), pok), Want::Subset));
        let mut ex = ce.clone();
        ex.push(g);
        r1_faults.push(("commitment-extended".into(), d1::Package::new(mk_comm(&ex), pok), Want::Subset));
        // valid proof with a longer / shorter polynomial: part1 run with t+1 / t-1
        for tt in [c.t + 1, c.t - 1] {
            let mut rng = ScriptedRng::ctr(format!("longpoly:{tt}"));
            if let Ok((_, p)) = fc::keys::dkg::part1::<C, _>(s, std::cmp::max(c.n, tt), tt, &mut rng) {
                r1_faults.push((format!("commitment-length-{}-valid-proof", if tt > c.t { "t+1" } else { "t-1" }), p, Want::Subset));
            }
        }
        r1_faults.push(("commitment-empty".into(), d1::Package::new(mk_comm(&[]), pok), Want::Subset));
    }
    {
        // coefficient 0 replaced
        let mut c0 = ce.clone();
        c0[0] = c0[0] + g;
        r1_faults.push(("coefficient0+G".into(), d1::Package::new(mk_comm(&c0), pok), Want::Exact));
        let mut c0b = ce.clone();
        c0b[0] = commitment_elems::<C>(b.p1[&s].commitment())[0];
        r1_faults.push(("coefficient0-of-other-run".into(), d1::Package::new(mk_comm(&c0b), pok), Want::Exact));
    }
    for (what, pkg, want) in r1_faults {
        let mut m = honest_r1.clone();
        m.insert(s, pkg);
        let res = C::w_part2(a.sp1[&r].clone(), &m);
        judge(&mut o, &what, "part2", res.err(), want);
    }
    // filed under the receiver's own identifier in place of the sender's
    for (what, pkg) in [
        ("own-id-holds-senders-package", a.p1[&s].clone()),
        ("own-id-holds-own-package", a.p1[&r].clone()),
        ("own-id-holds-own-package-of-other-run", b.p1[&r].clone()),
    ] {
        let mut m = honest_r1.clone();
        m.remove(&s);
        m.insert(r, pkg);
        let res = C::w_part2(a.sp1[&r].clone(), &m);
        judge(&mut o, what, "part2", res.err(), Want::Subset);
    }
    // surplus entry under the receiver's own identifier, all peers present
    for (what, pkg) in [("round1-surplus-under-own-id-own-package", a.p1[&r].clone()), ("round1-surplus-under-own-id-senders-package", a.p1[&s].clone())] {
        let mut m = honest_r1.clone();
        m.insert(r, pkg);
        judge(&mut o, what, "part2", C::w_part2(a.sp1[&r].clone(), &m).err(), Want::Subset);
    }
    {
        let mut m = honest_r1.clone();
        m.remove(&s);
        judge(&mut o, "round1-missing", "part2", C::w_part2(a.sp1[&r].clone(), &m).err(), Want::Subset);
        let mut m = honest_r1.clone();
        let mut rng = ScriptedRng::ctr("surplus");
        let (_, extra) = C::w_part1(stranger, c.n, c.t, &mut rng).expect("part1");
        m.insert(stranger, extra.clone());
        judge(&mut o, "round1-surplus", "part2", C::w_part2(a.sp1[&r].clone(), &m).err(), Want::Subset);
        // sender replaced by an unknown participant (count still right): part2 cannot know; part3 must
        // fail because the round-two map has the real sender (identifier sets differ)
        let mut m = honest_r1.clone();
        m.remove(&s);
        m.insert(stranger, extra);
        match C::w_part2(a.sp1[&r].clone(), &m) {
            Err(e) => judge(&mut o, "round1-sender-replaced-by-unknown", "part2", Some(e), Want::Subset),
            Ok((sp2, _)) => {
                let res = C::w_part3(&sp2, &m, &honest_r2);
                judge(&mut o, "round1-sender-replaced-by-unknown", "part3", res.err(), Want::Subset);
            }
        }
    }
    // ---------------- coefficients k >= 1: pass part2 unchanged, fail in part3 naming the sender ----------------
    for k in 1..ce.len() {
        for (what, newc) in [("+G", ce[k] + g), ("of-other-run", commitment_elems::<C>(b.p1[&s].commitment())[k])] {
            let mut cc = ce.clone();
            cc[k] = newc;
            let mut m = honest_r1.clone();
            m.insert(s, d1::Package::new(mk_comm(&cc), pok));
            match C::w_part2(a.sp1[&r].clone(), &m) {
                Err(e) => {
                    // rejecting earlier than necessary is still a refusal naming at most the sender
                    judge(&mut o, &format!("coefficient{k}{what}"), "part2", Some(e), Want::Subset);
                }
                Ok((sp2, out2)) => {
                    if sp2 != h_sp2 || out2 != h_p2 {
                        o.fail(format!("{tag}/part2-output-depends-on-peer-coefficients"), format!("{ctx}: part2 output changed when coefficient {k} of the sender's commitment changed"));
                    }
                    let res = C::w_part3(&sp2, &m, &honest_r2);
                    if res.is_err() {
                        o.count("coefficient_faults_caught_in_part3", 1);
                    }
                    judge(&mut o, &format!("coefficient{k}{what}"), "part3", res.err(), Want::Exact);
                }
            }
        }
    }
    // ---------------- round two faults consumed by part3 ----------------
    let hs = honest_r2[&s].signing_share().to_scalar();
    let mut r2_faults: Vec<(String, d2::Package<C>, Want)> = vec![];
    r2_faults.push(("share+1".into(), d2::Package::new(SigningShare::new(hs + one::<C>())), Want::Exact));
    r2_faults.push(("share-negated".into(), d2::Package::new(SigningShare::new(neg::<C>(hs))), Want::Exact));
    r2_faults.push(("share-zero".into(), d2::Package::new(SigningShare::new(zero::<C>())), Want::Exact));
    for other in &a.ids {
        if *other != s && *other != r {
            r2_faults.push(("share-for-other-recipient".into(), a.p2[&s][other].clone(), Want::Exact));
            // another sender's share for this receiver, filed under the sender
            r2_faults.push(("share-of-other-sender".into(), a.p2[other][&r].clone(), Want::Exact));
        }
    }
    r2_faults.push(("share-of-other-run".into(), b.p2[&s][&r].clone(), Want::Exact));
    for (what, pkg, want) in r2_faults {
        let mut m = honest_r2.clone();
        m.insert(s, pkg);
        let res = C::w_part3(&h_sp2, &honest_r1, &m);
        judge(&mut o, &what, "part3", res.err(), want);
    }
    {
        let mut m = honest_r2.clone();
        let p = m.remove(&s).unwrap();
        m.insert(r, p.clone());
        judge(&mut o, "round2-filed-under-own-id", "part3", C::w_part3(&h_sp2, &honest_r1, &m).err(), Want::Subset);
        let mut m = honest_r2.clone();
        m.remove(&s);
        m.insert(stranger, p.clone());
        judge(&mut o, "round2-filed-under-unknown-id", "part3", C::w_part3(&h_sp2, &honest_r1, &m).err(), Want::Subset);
        for nid in &near {
            let mut m = honest_r2.clone();
            m.remove(&s);
            m.insert(*nid, p.clone());
            judge(&mut o, "round2-filed-under-unknown-id-differing-in-high-bits", "part3", C::w_part3(&h_sp2, &honest_r1, &m).err(), Want::Subset);
            let mut m1 = honest_r1.clone();
            let pk = m1.remove(&s).unwrap();
            m1.insert(*nid, pk);
            match C::w_part2(a.sp1[&r].clone(), &m1) {
                // the error may name the unknown filing identifier (the proof is not valid for it): any refusal
                Err(e) => judge(&mut o, "round1-filed-under-unknown-id-differing-in-high-bits", "part2", Some(e), Want::Any),
                Ok((sp2x, _)) => judge(&mut o, "round1-filed-under-unknown-id-differing-in-high-bits", "part3", C::w_part3(&sp2x, &m1, &honest_r2).err(), Want::Any),
            }
        }
        let mut m = honest_r2.clone();
        m.remove(&s);
        judge(&mut o, "round2-missing", "part3", C::w_part3(&h_sp2, &honest_r1, &m).err(), Want::Subset);
        let mut m = honest_r2.clone();
        m.insert(stranger, p.clone());
        judge(&mut o, "round2-surplus", "part3", C::w_part3(&h_sp2, &honest_r1, &m).err(), Want::Subset);
        // surplus entries under the receiver's OWN identifier, all peers present (round two; round one at
        // part3; both maps at part3)
        let mut m = honest_r2.clone();
        m.insert(r, p.clone());
        judge(&mut o, "round2-surplus-under-own-id", "part3", C::w_part3(&h_sp2, &honest_r1, &m).err(), Want::Subset);
        let mut m1 = honest_r1.clone();
        m1.insert(r, a.p1[&r].clone());
        judge(&mut o, "round1-surplus-under-own-id-at-part3", "part3", C::w_part3(&h_sp2, &m1, &honest_r2).err(), Want::Subset);
        judge(&mut o, "both-maps-surplus-under-own-id", "part3", C::w_part3(&h_sp2, &m1, &m).err(), Want::Subset);
        // the sender went silent after round one and the receiver consistently drops it from both maps
        let mut m1 = honest_r1.clone();
        m1.remove(&s);
        let mut m2 = honest_r2.clone();
        m2.remove(&s);
        judge(&mut o, "sender-dropped-from-both-maps", "part3", C::w_part3(&h_sp2, &m1, &m2).err(), Want::Subset);
        // round-one map swapped for the other run's at part3 (same identifiers): shares no longer match
        let m1b = others::<C, _>(&b.p1, &r);
        judge(&mut o, "round1-map-of-other-run-at-part3", "part3", C::w_part3(&h_sp2, &m1b, &honest_r2).err(), Want::Any);
        // surplus in both maps consistently
        let mut m1 = honest_r1.clone();
        let mut rng = ScriptedRng::ctr("surplus2");
        let (xsp, xp) = C::w_part1(stranger, c.n, c.t, &mut rng).expect("part1");
        m1.insert(stranger, xp);
        let mut m2 = honest_r2.clone();
        m2.insert(stranger, d2::Package::new(SigningShare::from_coefficients(&xsp.coefficients(), r)));
        judge(&mut o, "surplus-in-both-maps", "part3", C::w_part3(&h_sp2, &m1, &m2).err(), Want::Subset);
    }
    o
}
