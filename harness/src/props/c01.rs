//! C01 — any t-or-more honest signers produce a signature that verifies as a plain one.

use crate::runner::{Outcome, Prop, Tier};
use crate::suites::{REAL_SUITES, Suite};
use crate::tiny::{Tiny, tiny_hash};
use crate::util::*;
use crate::with_suite;
use frost_core as fc;
use frost_core::keys::{IdentifierList, KeyPackage};
use frost_core::round1::{Nonce, SigningNonces};
use frost_core::{CheaterDetection, Identifier, SigningKey, SigningPackage};
use serde::{Deserialize, Serialize};
use serde_json::Value;
use std::collections::BTreeMap;

pub struct C01;

#[derive(Serialize, Deserialize, Clone, Debug)]
#[serde(tag = "layer")]
enum Case {
    /// one signing session on a real ciphersuite
    Real {
        suite: String,
        n: u16,
        t: u16,
        idkind: IdKind,
        src: KeySrc,
        /// bitmask over the group's sorted identifier list
        signers: u32,
        msg: usize,
        seed: String,
    },
    /// one large session: n participants, the LAST `signers` of them sign (identifiers above 255,
    /// hundreds of commitments in the package)
    Large { suite: String, n: u16, t: u16, signers: u16, seed: String },
    /// values whose encodings have a zero first / last byte, forced by seed search: a signing
    /// share, a nonce, and a signature share of the session
    ZeroBytes { suite: String, what: String, first: bool, seed: String },
    /// a 70 000-byte message (longer than any u16 length field) and a 5 000-byte one
    HugeMessage { suite: String, len: usize, seed: String },
    /// key material and messages that went through something else first: wire round trips of every
    /// object of the session (binary / JSON), dealer refresh, distributed refresh, repair
    Provenance { suite: String, n: u16, t: u16, kind: String, signers: u32, seed: String },
    /// tiny field: all keys x coefficient vectors for one (ids, t, S), seeded nonces
    TinyKeys { q: u64, ids: Vec<u64>, t: u16, signers: u32 },
    /// tiny field: every nonce 4-tuple for |S| = 2, seeded keys
    TinyNonces { q: u64, ids: Vec<u64>, t: u16, signers: u32 },
}

pub fn shapes(nmax: u16) -> Vec<(u16, u16)> {
    let mut v = vec![];
    for n in 2..=nmax {
        for t in 2..=n {
            v.push((n, t));
        }
    }
    v
}

impl Prop for C01 {
    fn id(&self) -> &'static str {
        "C01"
    }
    fn level(&self) -> &'static str {
        "exploration"
    }
    fn rule(&self) -> String {
        "complete enumeration: 6 suites x all (n,t) up to the bound x 5 identifier kinds x {dealer, split, DKG} x EVERY signer subset |S|>=t x message alphabet; tiny field GF(q): every identifier set, every (key, coefficient vector), every nonce 4-tuple; plus per suite two LARGE sessions (130-260 signers out of 300; t = n = |S|), 5 000- and 70 000-byte messages, and sessions in which a signing share / nonce / signature share / signature scalar / key has a zero first or last encoded byte (forced by seed search). A case is non-trivial when the session reached aggregate (every sign returned a share)".into()
    }
    fn assumptions(&self) -> Vec<String> {
        vec![
            "scalars on the real curves are covered by an alphabet (seeded, 1, q-1) plus the value-genericity argument (DESIGN 2); all values only on the tiny field".into(),
            "independent verifiers: ed25519-dalek verify_strict, libsecp256k1 verify_schnorr, from-scratch Schnorr on the curve crates".into(),
        ]
    }
    fn bound(&self, tier: Tier) -> String {
        format!(
            "n<={} (ed448 n<={}), all t, all signer subsets, {} seed(s); tiny q in {{7,11}} n<={}",
            tier.pick(6, 8),
            tier.pick(5, 7),
            tier.pick(1, 3),
            tier.pick(3, 4)
        )
    }
    fn required_counters(&self) -> Vec<&'static str> {
        vec!["sessions_aggregated", "tiny_nondegenerate", "ext_verified"]
    }
    fn cases(&self, tier: Tier, seed: u64) -> Vec<Value> {
        let mut out = vec![];
        let seeds: Vec<String> = (0..tier.pick(1, 3)).map(|k| format!("s{seed}.{k}")).collect();
        let srcs = [KeySrc::Dealer, KeySrc::SplitMinusOne, KeySrc::Dkg];
        let mut msg_rr = 0usize;
        // smallest first: iterate shapes outermost
        let nmax_all = tier.pick(6u16, 8u16);
        for (n, t) in shapes(nmax_all) {
            for suite in REAL_SUITES {
                let nmax = if suite == "ed448" { tier.pick(5, 7) } else { nmax_all };
                if n > nmax {
                    continue;
                }
                for sd in &seeds {
                    for idkind in ALL_IDKINDS {
                        for src in srcs {
                            // DKG is expensive for big n: bound it a bit lower
                            if src == KeySrc::Dkg && n > tier.pick(5, 6) {
                                continue;
                            }
                            if n >= 7 && !(idkind == IdKind::Seq || idkind == IdKind::Mixed) {
                                continue;
                            }
                            for s in subsets(n as usize, t as usize, n as usize) {
                                let nm = if (n, t) == (3, 2) { 11 } else { tier.pick(1, 2) };
                                for _ in 0..nm {
                                    out.push(
                                        serde_json::to_value(Case::Real {
                                            suite: suite.to_string(),
                                            n,
                                            t,
                                            idkind,
                                            src,
                                            signers: s,
                                            msg: msg_rr % 11,
                                            seed: sd.clone(),
                                        })
                                        .unwrap(),
                                    );
                                    msg_rr += 1;
                                }
                            }
                        }
                    }
                }
            }
        }
        for suite in REAL_SUITES {
            let (n, k) = if suite == "ed448" { (tier.pick(150u16, 300u16), tier.pick(90u16, 130u16)) } else { (300u16, tier.pick(130u16, 260u16)) };
            out.push(serde_json::to_value(Case::Large { suite: suite.to_string(), n, t: 2, signers: k, seed: format!("s{seed}") }).unwrap());
            out.push(serde_json::to_value(Case::Large { suite: suite.to_string(), n: k, t: k, signers: k, seed: format!("s{seed}") }).unwrap());
        }
        for suite in REAL_SUITES {
            for what in ["share", "nonce", "sigshare", "signature-z", "key"] {
                for first in [true, false] {
                    out.push(serde_json::to_value(Case::ZeroBytes { suite: suite.to_string(), what: what.to_string(), first, seed: format!("s{seed}") }).unwrap());
                }
            }
            for len in [5000usize, 70000] {
                out.push(serde_json::to_value(Case::HugeMessage { suite: suite.to_string(), len, seed: format!("s{seed}") }).unwrap());
            }
        }
        // tiny layers
        for suite in REAL_SUITES {
            for (n, t) in [(3u16, 2u16), (4, 3), (4, 4), (5, 3)] {
                if suite == "ed448" && n > 4 {
                    continue;
                }
                let mut kinds = vec!["wire-bin", "wire-json", "refresh-dealer", "refresh-dkg", "repair", "legacy-pkp", "preprocessed"];
                if suite == "secp256k1-tr" {
                    kinds.extend(["tr-tweak-none", "tr-tweak-empty", "tr-tweak-root"]);
                }
                for kind in kinds {
                    let members = match kind {
                        "refresh-dealer" | "refresh-dkg" => std::cmp::min(n, t + 1),
                        _ => n,
                    };
                    if kind == "repair" && t == n {
                        continue;
                    }
                    for sgn in subsets(members as usize, t as usize, members as usize) {
                        out.push(serde_json::to_value(Case::Provenance { suite: suite.to_string(), n, t, kind: kind.to_string(), signers: sgn, seed: format!("s{seed}") }).unwrap());
                    }
                }
            }
        }
        for q in [7u64, 11] {
            let nmax = tier.pick(3usize, 4usize);
            let universe: Vec<u64> = (1..q).collect();
            for n in 2..=nmax {
                for idmask in subsets(universe.len(), n, n) {
                    let ids: Vec<u64> = mask_indices(idmask).iter().map(|i| universe[*i]).collect();
                    // quick: a third of identifier sets for q=11 (still every set for q=7)
                    if tier == Tier::Quick && q == 11 && idmask % 3 != 0 {
                        continue;
                    }
                    for t in 2..=n as u16 {
                        for s in subsets(n, t as usize, n) {
                            // keys x coefficients: q^t polynomials
                            if (q as usize).pow(t as u32) <= tier.pick(400, 15000) {
                                out.push(
                                    serde_json::to_value(Case::TinyKeys {
                                        q,
                                        ids: ids.clone(),
                                        t,
                                        signers: s,
                                    })
                                    .unwrap(),
                                );
                            }
                            if s.count_ones() == 2 && (q == 7 || tier == Tier::Thorough) {
                                out.push(
                                    serde_json::to_value(Case::TinyNonces {
                                        q,
                                        ids: ids.clone(),
                                        t,
                                        signers: s,
                                    })
                                    .unwrap(),
                                );
                            }
                        }
                    }
                }
            }
        }
        out
    }
    fn run(&self, case: &Value) -> Outcome {
        let c: Case = serde_json::from_value(case.clone()).expect("case");
        match &c {
            Case::Real { suite, .. } => with_suite!(suite.as_str(), run_real, &c),
            Case::Large { suite, .. } => with_suite!(suite.as_str(), run_large, &c),
            Case::Provenance { suite, .. } => with_suite!(suite.as_str(), run_provenance, &c),
            Case::ZeroBytes { suite, .. } | Case::HugeMessage { suite, .. } => with_suite!(suite.as_str(), run_patterns, &c),
            Case::TinyKeys { q, .. } | Case::TinyNonces { q, .. } => match q {
                7 => run_tiny::<7>(&c),
                11 => run_tiny::<11>(&c),
                13 => run_tiny::<13>(&c),
                _ => panic!("q"),
            },
        }
    }
}

/// through its own wire encoding: binary (`json = false`) or JSON
fn wire<T: serde::Serialize + serde::de::DeserializeOwned>(json: bool, x: &T, own: impl Fn(&T) -> Option<T>) -> Option<T> {
    if json {
        serde_json::from_str(&serde_json::to_string(x).ok()?).ok()
    } else {
        own(x)
    }
}

/// One session in which EVERY object crosses the wire before it is used: key packages and the public
/// key package (storage), nonces (kept between the rounds), commitments (signer -> coordinator), the
/// signing package (coordinator -> signers), signature shares (signer -> coordinator), the signature.
fn session_over_the_wire<C: Suite>(
    o: &mut Outcome,
    tag: &str,
    ctx: &str,
    json: bool,
    kps: &BTreeMap<crate::suites::Id<C>, KeyPackage<C>>,
    pkp: &fc::keys::PublicKeyPackage<C>,
    s: &[crate::suites::Id<C>],
    m: &[u8],
    seed: &str,
) {
    macro_rules! tx {
        ($what:expr, $v:expr, $ty:ty) => {
            match wire::<$ty>(json, $v, |x| x.serialize().ok().and_then(|b| <$ty>::deserialize(&b).ok())) {
                Some(v) => v,
                None => {
                    o.fail(format!("{tag}/transport-failed"), format!("{ctx}: {} does not survive its own {} encoding", $what, if json { "JSON" } else { "binary" }));
                    return;
                }
            }
        };
    }
    o.eval(true);
    let pkp_w = tx!("PublicKeyPackage", pkp, fc::keys::PublicKeyPackage<C>);
    let mut kps_w = BTreeMap::new();
    for id in s {
        kps_w.insert(*id, tx!("KeyPackage", &kps[id], KeyPackage<C>));
    }
    let (nonces, comms) = commit_all::<C>(&kps_w, s, seed);
    let mut comms_w = BTreeMap::new();
    for (id, c) in &comms {
        comms_w.insert(*id, tx!("SigningCommitments", c, fc::round1::SigningCommitments<C>));
    }
    let pkg = SigningPackage::<C>::new(comms_w, m);
    let mut shares = BTreeMap::new();
    for id in s {
        // each signer receives its own copy of the signing package and reloads its nonces
        let pkg_w = tx!("SigningPackage", &pkg, SigningPackage<C>);
        let nonces_w = tx!("SigningNonces", &nonces[id], fc::round1::SigningNonces<C>);
        match C::w_sign(&pkg_w, &nonces_w, &kps_w[id]) {
            Ok(sh) => {
                let shw = match if json { serde_json::to_string(&sh).ok().and_then(|j| serde_json::from_str(&j).ok()) } else { fc::round2::SignatureShare::<C>::deserialize(&sh.serialize()).ok() } {
                    Some(v) => v,
                    None => {
                        o.fail(format!("{tag}/transport-failed"), format!("{ctx}: SignatureShare does not survive its own encoding"));
                        return;
                    }
                };
                shares.insert(*id, shw);
            }
            Err(e) => {
                o.fail(format!("{tag}/sign-refused"), format!("{ctx}: honest signer {} refused after transport: {e:?}", id_short::<C>(id)));
                return;
            }
        }
    }
    let sig = match C::w_aggregate(&pkg, &shares, &pkp_w) {
        Ok(s) => s,
        Err(e) => {
            o.fail(format!("{tag}/aggregate-failed"), format!("{ctx}: aggregate of honest shares failed after transport: {e:?}"));
            return;
        }
    };
    // the same session without any transport must give the identical signature
    let mut direct = BTreeMap::new();
    let plain_pkg = SigningPackage::<C>::new(comms.clone(), m);
    for id in s {
        if let Ok(sh) = C::w_sign(&plain_pkg, &nonces[id], &kps[id]) {
            direct.insert(*id, sh);
        }
    }
    match C::w_aggregate(&plain_pkg, &direct, pkp) {
        Ok(d) => {
            if d != sig {
                o.fail(format!("{tag}/transport-changes-signature"), format!("{ctx}: the session over the wire and the in-memory session give different signatures"));
            }
        }
        Err(e) => o.fail(format!("{tag}/aggregate-failed"), format!("{ctx}: in-memory twin: {e:?}")),
    }
    let sig_w = tx!("Signature", &sig, fc::Signature<C>);
    match verify_everywhere::<C>(pkp.verifying_key(), m, &sig_w) {
        Ok(()) => {
            o.count("wire_sessions_verified", 1);
            o.class("ok");
        }
        Err(e) => o.fail(format!("{tag}/signature-does-not-verify"), format!("{ctx}: {e}")),
    }
}

fn run_provenance<C: Suite>(c: &Case) -> Outcome {
    let mut o = Outcome::new();
    let Case::Provenance { n, t, kind, signers, seed, .. } = c else { unreachable!() };
    let tag = format!("C01/{}", C::name());
    let grp = match cached_group::<C>(KeySrc::Dealer, *n, *t, IdKind::U16x, seed) {
        Ok(g) => g,
        Err(e) => {
            o.eval(false);
            o.fail(format!("{tag}/setup"), e);
            return o;
        }
    };
    let ctx = format!("n={n} t={t} {kind} S={signers:b}");
    match kind.as_str() {
        "wire-bin" | "wire-json" => {
            let s = pick::<C>(&grp.ids, *signers);
            session_over_the_wire::<C>(&mut o, &tag, &ctx, kind == "wire-json", &grp.kps, &grp.pkp, &s, &message(3), &format!("{seed}:{signers}"));
        }
        "preprocessed" => {
            // one-round FROST: every signer preprocesses a batch of 4 pairs up front; session j uses the j-th
            // nonces with the j-th published commitments
            let s = pick::<C>(&grp.ids, *signers);
            let mut batches = BTreeMap::new();
            for id in &s {
                let mut rng = crate::rng::ScriptedRng::ctr(format!("{seed}:preprocess:{}", id_hex::<C>(id)));
                batches.insert(*id, fc::round1::preprocess::<C, _>(4, grp.kps[id].signing_share(), &mut rng));
            }
            for j in [0usize, 1, 3] {
                let m = message(j);
                let mut comms = BTreeMap::new();
                for id in &s {
                    let (_, cs) = &batches[id];
                    match cs.get(j) {
                        Some(c) => {
                            comms.insert(*id, *c);
                        }
                        None => {
                            o.fail(format!("{tag}/preprocess-count"), format!("{ctx}: batch of 4 has no commitment #{j}"));
                            return o;
                        }
                    }
                }
                let pkg = SigningPackage::<C>::new(comms, &m);
                let mut shares = BTreeMap::new();
                o.eval(true);
                for id in &s {
                    let (ns, _) = &batches[id];
                    match ns.get(j).map(|nn| C::w_sign(&pkg, nn, &grp.kps[id])) {
                        Some(Ok(sh)) => {
                            shares.insert(*id, sh);
                        }
                        Some(Err(e)) => {
                            o.fail(format!("{tag}/sign-refused"), format!("{ctx}: preprocessed pair #{j} of signer {}: {e:?}", id_short::<C>(id)));
                            return o;
                        }
                        None => {
                            o.fail(format!("{tag}/preprocess-count"), format!("{ctx}: batch of 4 has no nonces #{j}"));
                            return o;
                        }
                    }
                }
                match C::w_aggregate(&pkg, &shares, &grp.pkp) {
                    Ok(sig) => match verify_everywhere::<C>(grp.pkp.verifying_key(), &m, &sig) {
                        Ok(()) => o.count("preprocessed_sessions_verified", 1),
                        Err(e) => o.fail(format!("{tag}/signature-does-not-verify"), format!("{ctx}: preprocessed pair #{j}: {e}")),
                    },
                    Err(e) => o.fail(format!("{tag}/aggregate-failed"), format!("{ctx}: preprocessed pair #{j}: {e:?}")),
                }
            }
            o.class("ok");
        }
        "legacy-pkp" => {
            // the pre-3.0 public key package has no threshold: honest sessions aggregate all the same
            let s = pick::<C>(&grp.ids, *signers);
            let legacy = fc::keys::PublicKeyPackage::<C>::new(grp.pkp.verifying_shares().clone(), *grp.pkp.verifying_key(), None);
            session_check::<C>(&mut o, &tag, &grp.kps, &legacy, &s, &message(3), &format!("{seed}:legacy:{signers}"));
            // a coordinator that holds the group key only (no verifying shares) can still aggregate without
            // cheater detection, as documented for CheaterDetection::Disabled, and gets the same signature
            {
                let m = message(3);
                let (nonces, comms) = commit_all::<C>(&grp.kps, &s, &format!("{seed}:keyonly:{signers}"));
                let pkg = SigningPackage::<C>::new(comms, &m);
                let mut shares = BTreeMap::new();
                for id in &s {
                    if let Ok(sh) = C::w_sign(&pkg, &nonces[id], &grp.kps[id]) {
                        shares.insert(*id, sh);
                    }
                }
                let keyonly = fc::keys::PublicKeyPackage::<C>::new(BTreeMap::new(), *grp.pkp.verifying_key(), Some(*t));
                o.eval(true);
                match (C::w_aggregate(&pkg, &shares, &grp.pkp), C::w_aggregate_custom(&pkg, &shares, &keyonly, CheaterDetection::Disabled)) {
                    (Ok(a), Ok(b)) if a == b => o.count("key_only_package_aggregations", 1),
                    (Ok(_), Ok(_)) => o.fail(format!("{tag}/aggregate-modes-differ"), format!("{ctx}: Disabled with a key-only public key package returns another signature")),
                    (Ok(_), Err(e)) => o.fail(format!("{tag}/aggregate-custom-failed"), format!("{ctx}: aggregate_custom(Disabled) with a public key package that holds only the group key: {e:?}")),
                    (Err(e), _) => o.fail(format!("{tag}/aggregate-failed"), format!("{ctx}: {e:?}")),
                }
            }
        }
        "tr-tweak-none" | "tr-tweak-empty" | "tr-tweak-root" => {
            // the Taproot crate's tweak entry points: signers and coordinator use the same root
            let root: Option<Vec<u8>> = match kind.as_str() {
                "tr-tweak-none" => None,
                "tr-tweak-empty" => Some(vec![]),
                _ => Some(vec![0xa5; 32]),
            };
            let s = pick::<C>(&grp.ids, *signers);
            let m = message(3);
            let (nonces, comms) = commit_all::<C>(&grp.kps, &s, &format!("{seed}:{kind}:{signers}"));
            let pkg = SigningPackage::<C>::new(comms, &m);
            let mut shares = BTreeMap::new();
            o.eval(true);
            for id in &s {
                match C::w_sign_with_tweak(&pkg, &nonces[id], &grp.kps[id], root.as_deref()).expect("taproot suite") {
                    Ok(sh) => {
                        shares.insert(*id, sh);
                    }
                    Err(e) => {
                        o.fail(format!("{tag}/sign-refused"), format!("{ctx}: sign_with_tweak: {e:?}"));
                        return o;
                    }
                }
            }
            match C::w_aggregate_with_tweak(&pkg, &shares, &grp.pkp, root.as_deref()).expect("taproot suite") {
                Ok(sig) => {
                    let tweaked = C::w_tweaked_pkp(&grp.pkp, root.as_deref()).expect("taproot suite");
                    match verify_everywhere::<C>(tweaked.verifying_key(), &m, &sig) {
                        Ok(()) => {
                            o.count("tweaked_sessions_verified", 1);
                            o.class("ok");
                        }
                        Err(e) => o.fail(format!("{tag}/signature-does-not-verify"), format!("{ctx}: under the tweaked key: {e}")),
                    }
                }
                Err(e) => o.fail(format!("{tag}/aggregate-failed"), format!("{ctx}: aggregate_with_tweak of honest sign_with_tweak shares failed: {e:?}")),
            }
        }
        _ => {
            let extra = std::cmp::min(*n, *t + 1) - *t;
            match super::c03::maintained::<C>(&grp, kind, extra, seed) {
                Ok((kps, pkp, ids)) => {
                    let s = pick::<C>(&ids, *signers);
                    if *pkp.verifying_key() != *grp.pkp.verifying_key() {
                        o.fail(format!("{tag}/maintenance-changed-group-key"), ctx.clone());
                    }
                    o.count("maintained_sessions", 1);
                    session_check::<C>(&mut o, &tag, &kps, &pkp, &s, &message(3), &format!("{seed}:{kind}:{signers}"));
                    session_over_the_wire::<C>(&mut o, &tag, &ctx, signers % 2 == 1, &kps, &pkp, &s, &message(4), &format!("{seed}:{kind}:w{signers}"));
                }
                Err(e) => {
                    o.eval(false);
                    o.fail(format!("{tag}/{kind}-failed"), format!("{ctx}: {e}"));
                }
            }
        }
    }
    o
}

fn run_real<C: Suite>(c: &Case) -> Outcome {
    let mut o = Outcome::new();
    let Case::Real {
        n,
        t,
        idkind,
        src,
        signers,
        msg,
        seed,
        ..
    } = c
    else {
        unreachable!()
    };
    let tag = format!("C01/{}", C::name());
    let grp = match cached_group::<C>(*src, *n, *t, *idkind, seed) {
        Ok(g) => g,
        Err(e) => {
            o.eval(false);
            o.fail(format!("{tag}/keygen-failed/{src:?}"), format!("key generation failed: {e}"));
            return o;
        }
    };
    let s = pick::<C>(&grp.ids, *signers);
    let m = message(*msg);
    session_check::<C>(&mut o, &tag, &grp.kps, &grp.pkp, &s, &m, &format!("{seed}:{signers}:{msg}"));
    o
}

fn run_large<C: Suite>(c: &Case) -> Outcome {
    let mut o = Outcome::new();
    let Case::Large { n, t, signers, seed, .. } = c else { unreachable!() };
    let tag = format!("C01/{}", C::name());
    let grp = match make_group::<C>(KeySrc::Dealer, *n, *t, IdKind::Seq, seed) {
        Ok(g) => g,
        Err(e) => {
            o.eval(false);
            o.fail(format!("{tag}/keygen-failed/large"), format!("n={n} t={t}: {e}"));
            return o;
        }
    };
    let s: Vec<_> = grp.ids.iter().rev().take(*signers as usize).rev().copied().collect();
    session_check::<C>(&mut o, &format!("{tag}/large"), &grp.kps, &grp.pkp, &s, &message(2), &format!("{seed}:large"));
    o.count("large_sessions", 1);
    o
}

fn run_patterns<C: Suite>(c: &Case) -> Outcome {
    let mut o = Outcome::new();
    let tag = format!("C01/{}", C::name());
    match c {
        Case::HugeMessage { len, seed, .. } => {
            let grp = cached_group::<C>(KeySrc::Dealer, 3, 2, IdKind::U16x, seed).expect("group");
            let s: Vec<_> = grp.ids.iter().take(2).copied().collect();
            let m: Vec<u8> = (0..*len).map(|i| (i % 251) as u8).collect();
            session_check::<C>(&mut o, &format!("{tag}/huge-message"), &grp.kps, &grp.pkp, &s, &m, seed);
            o.count("huge_messages", 1);
        }
        Case::ZeroBytes { what, first, seed, .. } => {
            let pos = |b: &[u8]| if *first { b[0] == 0 } else { b[b.len() - 1] == 0 };
            let m = message(2);
            let mut found = false;
            for k in 0..4000 {
                let gseed = format!("{seed}.zb.{}", if what == "share" || what == "key" { k } else { 0 });
                let Ok(grp) = make_group::<C>(KeySrc::Dealer, 3, 2, IdKind::U16x, &gseed) else { continue };
                let s: Vec<_> = grp.ids.iter().take(2).copied().collect();
                let hit = match what.as_str() {
                    "share" => pos(&grp.kps[&s[0]].signing_share().serialize()),
                    "key" => pos(&grp.pkp.verifying_key().serialize().unwrap_or(vec![1])[1..]) || (*first && false),
                    _ => {
                        let Ok(sess) = run_session::<C>(&grp.kps, &s, &m, &format!("{seed}.zbs.{k}")) else { continue };
                        match what.as_str() {
                            "nonce" => pos(&sess.nonces[&s[0]].hiding().serialize()) || pos(&sess.nonces[&s[0]].binding().serialize()),
                            "sigshare" => pos(&sess.shares[&s[0]].serialize()),
                            _ => match fc::aggregate(&sess.pkg, &sess.shares, &grp.pkp) {
                                Ok(sig) => pos(&sc_bytes::<C>(sig.z())),
                                Err(_) => false,
                            },
                        }
                    }
                };
                if hit {
                    let sseed = if what == "share" || what == "key" { format!("{seed}.zbs") } else { format!("{seed}.zbs.{k}") };
                    session_check::<C>(&mut o, &format!("{tag}/zero-{}-byte-in-{what}", if *first { "first" } else { "last" }), &grp.kps, &grp.pkp, &s, &m, &sseed);
                    // and through a serialize/deserialize round trip of everything that travels
                    let kp = &grp.kps[&s[0]];
                    if kp.serialize().ok().and_then(|b| KeyPackage::<C>::deserialize(&b).ok()).as_ref() != Some(kp) {
                        o.fail(format!("{tag}/zero-byte-roundtrip"), format!("key package with a zero {} byte in its {what} does not round-trip", if *first { "first" } else { "last" }));
                    }
                    o.count("forced_zero_byte_patterns", 1);
                    found = true;
                    break;
                }
            }
            if !found {
                o.eval(false);
                o.count("zero_byte_pattern_not_reached", 1);
            }
        }
        _ => unreachable!(),
    }
    o
}

/// One honest session with every oracle of C01. Shared with other properties.
pub fn session_check<C: Suite>(
    o: &mut Outcome,
    tag: &str,
    kps: &BTreeMap<crate::suites::Id<C>, KeyPackage<C>>,
    pkp: &fc::keys::PublicKeyPackage<C>,
    s: &[crate::suites::Id<C>],
    m: &[u8],
    seed: &str,
) {
    let (nonces, comms) = commit_all::<C>(kps, s, seed);
    let pkg = SigningPackage::<C>::new(comms, m);
    let mut shares = BTreeMap::new();
    for id in s {
        match C::w_sign(&pkg, &nonces[id], &kps[id]) {
            Ok(sh) => {
                shares.insert(*id, sh);
            }
            Err(e) => {
                o.eval(false);
                o.fail(format!("{tag}/sign-refused"), format!("honest signer {} refused: {e:?}", id_short::<C>(id)));
                o.class("sign-err");
                return;
            }
        }
    }
    o.eval(true);
    o.count("sessions_aggregated", 1);
    o.count(&format!("signers={}", s.len()), 1);
    for id in s {
        let vs = match pkp.verifying_shares().get(id) {
            Some(v) => v,
            None => {
                o.fail(format!("{tag}/pkp-missing-share"), "public key package lacks a signer".to_string());
                return;
            }
        };
        if let Err(e) = fc::verify_signature_share(*id, vs, &shares[id], &pkg, pkp.verifying_key()) {
            o.fail(
                format!("{tag}/honest-share-rejected"),
                format!("verify_signature_share rejected the honest share of {}: {e:?}", id_short::<C>(id)),
            );
        }
    }
    let sig = match C::w_aggregate(&pkg, &shares, pkp) {
        Ok(s) => s,
        Err(e) => {
            o.fail(format!("{tag}/aggregate-failed"), format!("aggregate of honest shares failed: {e:?} culprits={}", e.culprits().len()));
            o.class("aggregate-err");
            return;
        }
    };
    match C::w_aggregate_custom(&pkg, &shares, pkp, CheaterDetection::AllCheaters) {
        Ok(s2) => {
            if s2 != sig {
                o.fail(format!("{tag}/aggregate-modes-differ"), "aggregate and aggregate_custom(AllCheaters) return different signatures".to_string());
            }
        }
        Err(e) => o.fail(format!("{tag}/aggregate-custom-failed"), format!("{e:?}")),
    }
    match C::w_aggregate_custom(&pkg, &shares, pkp, CheaterDetection::Disabled) {
        Ok(s2) => {
            if s2 != sig {
                o.fail(format!("{tag}/aggregate-modes-differ"), "aggregate and aggregate_custom(Disabled) return different signatures".to_string());
            }
        }
        Err(e) => o.fail(format!("{tag}/aggregate-custom-failed"), format!("{e:?}")),
    }
    match verify_everywhere::<C>(pkp.verifying_key(), m, &sig) {
        Ok(()) => {
            o.count("ext_verified", 1);
            o.class("ok");
        }
        Err(e) => {
            o.fail(format!("{tag}/signature-does-not-verify"), e);
            o.class("bad-signature");
        }
    }
    // negative control of the independent verifier on this very signature
    if let (Ok(mut sb), Ok(vkb)) = (sig.serialize(), pkp.verifying_key().serialize()) {
        let l = sb.len();
        sb[l - 1] ^= 1;
        if C::ext_verify(&vkb, m, &sb) {
            o.fail(format!("{tag}/CONTROL-ext-verifier-blind"), "independent verifier accepted a corrupted signature".to_string());
        } else {
            o.count("controls", 1);
        }
    }
}

// ---------------------------------------------------------------------
// tiny layer: plain-u64 reference of the whole signing flow
// ---------------------------------------------------------------------
pub struct TinyRef {
    pub q: u64,
}
impl TinyRef {
    fn inv(&self, a: u64) -> u64 {
        crate::tiny::modpow(a, self.q - 2, self.q)
    }
    /// Returns None when degenerate (zero nonce / zero commitment / zero R), else (R, z).
    pub fn sign(
        &self,
        vk: u64,
        ids: &[u64],
        shares: &[u64],
        nonces: &[(u64, u64)],
        msg: &[u8],
    ) -> Option<(u64, u64)> {
        let q = self.q;
        for (d, e) in nonces {
            if *d == 0 || *e == 0 {
                return None;
            }
        }
        // encode commitment list in ascending id order (ids must be sorted by caller)
        let be = |x: u64| (x as u16).to_be_bytes();
        let mut enc = vec![];
        for (i, id) in ids.iter().enumerate() {
            enc.extend_from_slice(&be(*id));
            enc.extend_from_slice(&be(nonces[i].0)); // D = d*1
            enc.extend_from_slice(&be(nonces[i].1));
        }
        let h4 = tiny_hash32(q, "msg", msg);
        let h5 = tiny_hash32(q, "com", &enc);
        let mut prefix = be(vk).to_vec();
        prefix.extend_from_slice(&h4);
        prefix.extend_from_slice(&h5);
        let mut rhos = vec![];
        let mut r = 0u64;
        for (i, id) in ids.iter().enumerate() {
            let mut pre = prefix.clone();
            pre.extend_from_slice(&be(*id));
            let rho = tiny_hash(q, "rho", &pre);
            rhos.push(rho);
            r = (r + nonces[i].0 + rho * nonces[i].1) % q;
        }
        if r == 0 {
            return None;
        }
        let mut cpre = be(r).to_vec();
        cpre.extend_from_slice(&be(vk));
        cpre.extend_from_slice(msg);
        let c = tiny_hash(q, "chal", &cpre);
        let mut z = 0u64;
        for (i, id) in ids.iter().enumerate() {
            let mut num = 1u64;
            let mut den = 1u64;
            for j in ids {
                if j != id {
                    num = num * j % q;
                    den = den * ((j + q - id) % q) % q;
                }
            }
            let lam = num * self.inv(den) % q;
            z = (z + nonces[i].0 + nonces[i].1 * rhos[i] + lam * shares[i] % q * c) % q;
        }
        Some((r, z))
    }
}
fn tiny_hash32(q: u64, tag: &str, m: &[u8]) -> [u8; 32] {
    use sha2::{Digest, Sha256};
    let mut h = Sha256::new();
    h.update(b"tiny");
    h.update(q.to_be_bytes());
    h.update(tag.as_bytes());
    h.update(m);
    h.finalize().into()
}

fn run_tiny<const Q: u64>(c: &Case) -> Outcome {
    type T<const Q: u64> = Tiny<Q>;
    let mut o = Outcome::new();
    let tag = format!("C01/tiny{Q}");
    let (ids_u, t, signers, all_keys) = match c {
        Case::TinyKeys { ids, t, signers, .. } => (ids.clone(), *t, *signers, true),
        Case::TinyNonces { ids, t, signers, .. } => (ids.clone(), *t, *signers, false),
        _ => unreachable!(),
    };
    let n = ids_u.len() as u16;
    let ids: Vec<Identifier<T<Q>>> = ids_u
        .iter()
        .map(|v| Identifier::<T<Q>>::new(crate::tiny::Sc::<Q>(*v)).unwrap())
        .collect();
    let sidx = mask_indices(signers);
    let msg = b"tiny message";
    let rf = TinyRef { q: Q };
    // enumerate polynomials
    let polys: Vec<Vec<usize>> = if all_keys {
        product(Q as usize, t as usize).collect()
    } else {
        // three seeded polynomials
        (0..3)
            .map(|k| {
                (0..t as usize)
                    .map(|j| 1 + (tiny_hash(Q - 1, "poly", format!("{k}.{j}.{ids_u:?}").as_bytes()) as usize))
                    .collect()
            })
            .collect()
    };
    for poly in polys {
        if poly[0] == 0 {
            continue; // zero key is not a valid signing key
        }
        let key = SigningKey::<T<Q>>::from_scalar(crate::tiny::Sc::<Q>(poly[0] as u64)).unwrap();
        // script: split() draws t-1 coefficients, one u32 each
        let mut rng = crate::rng::ScriptedRng::ctr("unused");
        for (k, cf) in poly.iter().skip(1).enumerate() {
            rng = rng.with_dev(k, crate::rng::Dev::Bytes((*cf as u32).to_le_bytes().to_vec()));
        }
        let (shares, pkp) = match fc::keys::split(&key, n, t, IdentifierList::Custom(&ids), &mut rng) {
            Ok(x) => x,
            Err(e) => {
                o.eval(false);
                o.fail(format!("{tag}/split-failed"), format!("{e:?} poly={poly:?}"));
                continue;
            }
        };
        if rng.calls.len() != t as usize - 1 {
            o.fail(format!("{tag}/MACHINERY-script-misaligned"), format!("split made {} draws, expected {}", rng.calls.len(), t - 1));
        }
        let mut kps = BTreeMap::new();
        let mut ok = true;
        for (id, s) in &shares {
            match KeyPackage::<T<Q>>::try_from(s.clone()) {
                Ok(kp) => {
                    kps.insert(*id, kp);
                }
                Err(e) => {
                    o.fail(format!("{tag}/dealer-share-rejected"), format!("{e:?} poly={poly:?}"));
                    ok = false;
                }
            }
        }
        if !ok {
            continue;
        }
        // reference shares
        let coeffs: Vec<u64> = poly.iter().map(|x| *x as u64).collect();
        let evalp = |x: u64| -> u64 {
            let mut acc = 0u64;
            let mut p = 1u64;
            for cf in &coeffs {
                acc = (acc + cf * p) % Q;
                p = p * x % Q;
            }
            acc
        };
        let s_ids_u: Vec<u64> = sidx.iter().map(|i| ids_u[*i]).collect();
        let s_ids: Vec<_> = sidx.iter().map(|i| ids[*i]).collect();
        let s_shares: Vec<u64> = s_ids_u.iter().map(|x| evalp(*x)).collect();
        for (k, id) in s_ids.iter().enumerate() {
            if kps[id].signing_share().to_scalar().0 != s_shares[k] {
                o.fail(format!("{tag}/share-not-on-polynomial"), format!("poly={poly:?} id={}", s_ids_u[k]));
            }
        }
        // nonce tuples
        let nonce_sets: Vec<Vec<(u64, u64)>> = if all_keys {
            // seeded non-zero nonces (2 sets)
            (0..2)
                .map(|k| {
                    s_ids_u
                        .iter()
                        .map(|i| {
                            (
                                1 + tiny_hash(Q - 1, "nd", format!("{k}.{i}.{poly:?}").as_bytes()),
                                1 + tiny_hash(Q - 1, "ne", format!("{k}.{i}.{poly:?}").as_bytes()),
                            )
                        })
                        .collect()
                })
                .collect()
        } else {
            product(Q as usize, 4)
                .map(|v| vec![(v[0] as u64, v[1] as u64), (v[2] as u64, v[3] as u64)])
                .collect()
        };
        for ns in nonce_sets {
            let mut nonces = BTreeMap::new();
            let mut comms = BTreeMap::new();
            for (k, id) in s_ids.iter().enumerate() {
                let sn = SigningNonces::<T<Q>>::from_nonces(
                    Nonce::from_scalar(crate::tiny::Sc::<Q>(ns[k].0)),
                    Nonce::from_scalar(crate::tiny::Sc::<Q>(ns[k].1)),
                );
                comms.insert(*id, *sn.commitments());
                nonces.insert(*id, sn);
            }
            let pkg = SigningPackage::<T<Q>>::new(comms, msg);
            let expect = rf.sign(poly[0] as u64, &s_ids_u, &s_shares, &ns, msg);
            let mut shares_map = BTreeMap::new();
            let mut sign_err = None;
            for id in &s_ids {
                match fc::round2::sign(&pkg, &nonces[id], &kps[id]) {
                    Ok(sh) => {
                        shares_map.insert(*id, sh);
                    }
                    Err(e) => {
                        sign_err = Some(e);
                        break;
                    }
                }
            }
            let res = match sign_err {
                Some(e) => Err(e),
                None => fc::aggregate(&pkg, &shares_map, &pkp),
            };
            match (expect, res) {
                (Some((r, z)), Ok(sig)) => {
                    o.eval(true);
                    o.count("tiny_nondegenerate", 1);
                    let sb = sig.serialize().unwrap();
                    let want = [(r as u16).to_be_bytes(), (z as u16).to_be_bytes()].concat();
                    if sb != want {
                        o.fail(format!("{tag}/signature-differs-from-reference"), format!("poly={poly:?} nonces={ns:?} S={s_ids_u:?} got={} want={}", hex::encode(&sb), hex::encode(&want)));
                    }
                    let vkb = pkp.verifying_key().serialize().unwrap();
                    if !T::<Q>::ext_verify(&vkb, msg, &sb) || pkp.verifying_key().verify(msg, &sig).is_err() {
                        o.fail(format!("{tag}/signature-does-not-verify"), format!("poly={poly:?} nonces={ns:?} S={s_ids_u:?}"));
                    } else {
                        o.count("ext_verified", 1);
                    }
                    o.class("ok");
                }
                (Some(_), Err(e)) => {
                    o.eval(true);
                    o.fail(format!("{tag}/honest-session-failed"), format!("non-degenerate session failed: {e:?} poly={poly:?} nonces={ns:?} S={s_ids_u:?} ids={ids_u:?}"));
                }
                (None, Ok(sig)) => {
                    // degenerate by reference but library produced a signature: it must verify
                    o.eval(false);
                    o.count("tiny_degenerate", 1);
                    if pkp.verifying_key().verify(msg, &sig).is_err() {
                        o.fail(format!("{tag}/degenerate-released-invalid"), format!("poly={poly:?} nonces={ns:?}"));
                    }
                    o.class("degenerate-ok");
                }
                (None, Err(_)) => {
                    o.eval(false);
                    o.count("tiny_degenerate", 1);
                    o.class("degenerate-refused");
                }
            }
        }
    }
    o
}
