//! C20 — secret material is wiped on drop and on request and never shown in debug output.
//! The freed storage is read through an allocator wrapper (src/spy.rs).

use crate::rng::ScriptedRng;
use crate::runner::{Outcome, Prop, Tier};
use crate::spy;
use crate::suites::{Id, REAL_SUITES, Suite};
use crate::util::*;
use crate::with_suite;
use frost_core as fc;
use frost_core::keys::dkg::{round1 as d1, round2 as d2};
use frost_core::keys::{KeyPackage, SecretShare, SigningShare};
use frost_core::round1::{Nonce, SigningNonces};
use frost_core::{Scalar, SigningKey};
use serde::{Deserialize, Serialize};
use serde_json::Value;
use std::mem::ManuallyDrop;
use zeroize::Zeroize;

pub struct C20;

#[derive(Serialize, Deserialize, Clone, Debug)]
struct Case {
    suite: String,
    ty: String,
    n: u16,
    t: u16,
    seed: String,
}

const TYPES: [&str; 10] = [
    "SigningKey",
    "SigningShare",
    "Nonce",
    "SecretShare",
    "KeyPackage",
    "SigningNonces",
    "dkg::round1::SecretPackage",
    "refresh::round1::SecretPackage",
    "dkg::round2::SecretPackage",
    "dkg::round2::Package",
];

impl Prop for C20 {
    fn id(&self) -> &'static str {
        "C20"
    }
    fn level(&self) -> &'static str {
        "exploration"
    }
    fn rule(&self) -> String {
        "complete enumeration: suites x 10 secret-bearing types (incl. the distributed-refresh form of the round-one secret package, whose commitment is one entry shorter than its coefficient vector) x shapes (n,t) incl. t = n x seeds x operations {drop, zeroize(), Debug, Debug alternate}. Drop: the value is boxed, every block freed while it is dropped is copied by an allocator wrapper, and the in-memory image of EVERY secret scalar (read from the live value beforehand) must not occur in any of them; control: the same value dropped without running its destructor (ManuallyDrop / plain Vec) must still show the image. zeroize(): every secret getter returns zero / the coefficient vector is empty, and re-encoding the wiped value contains no secret. Debug: no hex (either case), reversed hex or decimal byte list of any secret scalar's encoding. Non-trivial = at least one secret image searched".into()
    }
    fn assumptions(&self) -> Vec<String> {
        vec![
            "copies the compiler made on the stack or in registers are outside 'the storage it occupied' and are not observed".into(),
            "SigningShare and Nonce are Copy newtypes: Rust forbids Drop on them (documented in the book); for them the check is zeroize(), Debug, and that they are wiped as fields of the owning types".into(),
        ]
    }
    fn bound(&self, tier: Tier) -> String {
        format!("shapes {:?}, {} seeds", shapes(tier), tier.pick(2, 4))
    }
    fn required_counters(&self) -> Vec<&'static str> {
        vec!["drop_images_searched", "controls_show_secret", "zeroize_checked", "debug_checked"]
    }
    fn cases(&self, tier: Tier, seed: u64) -> Vec<Value> {
        let mut out = vec![];
        for suite in REAL_SUITES {
            for ty in TYPES {
                for (n, t) in shapes(tier) {
                    let shaped = ty.contains("round1") || ty.contains("round2") || ty == "SecretShare" || ty == "KeyPackage";
                    if !shaped && (n, t) != (2, 2) {
                        continue;
                    }
                    for k in 0..tier.pick(2, 4) {
                        out.push(serde_json::to_value(Case { suite: suite.to_string(), ty: ty.to_string(), n, t, seed: format!("s{seed}.{k}") }).unwrap());
                    }
                }
            }
        }
        out
    }
    fn run(&self, case: &Value) -> Outcome {
        let c: Case = serde_json::from_value(case.clone()).expect("case");
        with_suite!(c.suite.as_str(), run_case, &c)
    }
}

fn shapes(tier: Tier) -> Vec<(u16, u16)> {
    match tier {
        Tier::Quick => vec![(2, 2), (3, 2), (3, 3), (5, 3)],
        Tier::Thorough => vec![(2, 2), (3, 2), (3, 3), (4, 2), (5, 3), (5, 5), (6, 4)],
    }
}

/// the bytes a scalar occupies in memory (representation-independent: read, not computed)
fn image<C: Suite>(s: &Scalar<C>) -> Vec<u8> {
    let p = s as *const Scalar<C> as *const u8;
    unsafe { std::slice::from_raw_parts(p, std::mem::size_of::<Scalar<C>>()) }.to_vec()
}

// ---- "does the type offer zeroize()?" by autoref specialisation, so that a removed impl is a
// finding of the check and not a build failure of the harness ----
struct Probe<'a, T>(&'a mut T);
trait OffersZeroize {
    fn try_zeroize(&mut self) -> bool;
}
impl<T: Zeroize> OffersZeroize for Probe<'_, T> {
    fn try_zeroize(&mut self) -> bool {
        self.0.zeroize();
        true
    }
}
trait NoZeroize {
    fn try_zeroize(&mut self) -> bool;
}
impl<T> NoZeroize for &mut Probe<'_, T> {
    fn try_zeroize(&mut self) -> bool {
        false
    }
}
macro_rules! try_zeroize {
    ($v:expr) => {{
        #[allow(unused_imports)]
        use self::{NoZeroize as _, OffersZeroize as _};
        (&mut Probe($v)).try_zeroize()
    }};
}

struct Ctx<'a> {
    o: &'a mut Outcome,
    tag: String,
    ctx: String,
}

impl Ctx<'_> {
    fn debug_check<C: Suite, T: std::fmt::Debug>(&mut self, v: &T, secrets: &[Scalar<C>]) {
        // every formatter flag a caller (or a logging macro) may pass: derived impls forward them to the fields
        let renderings: Vec<(&str, String)> = vec![
            ("", format!("{v:?}")),
            (" (alternate)", format!("{v:#?}")),
            (" ({:.8?})", format!("{v:.8?}")),
            (" ({:.64?})", format!("{v:.64?}")),
            (" ({:.200?})", format!("{v:.200?}")),
            (" ({:#.128?})", format!("{v:#.128?}")),
            (" ({:200?})", format!("{v:200?}")),
            (" ({:<200.200?})", format!("{v:<200.200?}")),
            (" ({:0200?})", format!("{v:0200?}")),
            (" ({:+?})", format!("{v:+?}")),
            (" ({:x?})", format!("{v:x?}")),
            (" ({:X?})", format!("{v:X?}")),
            (" ({:#x?})", format!("{v:#x?}")),
            (" ({:#X?})", format!("{v:#X?}")),
        ];
        for (alt, s) in renderings {
            let lower = s.to_lowercase();
            let compact: String = lower.chars().filter(|c| !c.is_whitespace()).collect();
            for (k, sc) in secrets.iter().enumerate() {
                if *sc == zero::<C>() {
                    continue;
                }
                let enc = sc_bytes::<C>(sc);
                let rev: Vec<u8> = enc.iter().rev().copied().collect();
                let dec = enc.iter().map(|b| b.to_string()).collect::<Vec<_>>().join(",");
                let decr = rev.iter().map(|b| b.to_string()).collect::<Vec<_>>().join(",");
                self.o.count("debug_checked", 1);
                // also a long prefix of it (a "fingerprint" of 16+ hex digits is already most of a search space gone)
                let pre = hex::encode(&enc[..8.min(enc.len())]);
                let prer = hex::encode(&rev[..8.min(rev.len())]);
                if lower.contains(&hex::encode(&enc)) || lower.contains(&hex::encode(&rev)) || compact.contains(&dec) || compact.contains(&decr) || lower.contains(&pre) || lower.contains(&prer) {
                    self.o.fail(format!("{}/debug-shows-secret", self.tag), format!("{}: Debug{alt} output contains secret scalar #{k}", self.ctx));
                }
            }
        }
    }
    /// Drop `boxed` while watching the allocator; no freed block may contain a secret image.
    fn drop_check<T>(&mut self, boxed: Box<T>, images: &[Vec<u8>]) {
        // keep the optimiser from eliding the allocation
        let boxed = std::hint::black_box(boxed);
        let (_, blocks) = spy::watch(move || drop(std::hint::black_box(boxed)));
        if !blocks.iter().any(|b| b.len() == std::mem::size_of::<T>()) {
            self.o.fail(format!("{}/MACHINERY-box-not-observed", self.tag), format!("{}: the box of {} bytes was not seen by the allocator spy ({} blocks)", self.ctx, std::mem::size_of::<T>(), blocks.len()));
        }
        for (k, img) in images.iter().enumerate() {
            if img.iter().all(|b| *b == 0) {
                continue;
            }
            self.o.count("drop_images_searched", 1);
            if blocks.iter().any(|b| spy::contains(b, img)) {
                self.o.fail(format!("{}/secret-left-in-freed-storage", self.tag), format!("{}: after drop, the freed storage still contains secret scalar #{k} of {}", self.ctx, images.len()));
            }
        }
    }
    /// Control: freeing without running the destructor must show the image (the spy is not blind).
    fn control<T>(&mut self, boxed: Box<ManuallyDrop<T>>, images: &[Vec<u8>]) {
        let boxed = std::hint::black_box(boxed);
        let (_, blocks) = spy::watch(move || drop(std::hint::black_box(boxed)));
        let shown = images.iter().filter(|img| img.iter().any(|b| *b != 0)).any(|img| blocks.iter().any(|b| spy::contains(b, img)));
        if shown {
            self.o.count("controls_show_secret", 1);
        } else {
            self.o.fail(format!("{}/CONTROL-spy-blind", self.tag), format!("{}: control (no destructor) does not show the secret in the freed block: the allocator spy is blind", self.ctx));
        }
    }
}

fn run_case<C: Suite>(c: &Case) -> Outcome {
    let mut o = Outcome::new();
    let tag = format!("C20/{}/{}", C::name(), c.ty);
    let ctxs = format!("n={} t={} seed={}", c.n, c.t, c.seed);
    let (n, t) = (c.n, c.t);
    let grp = match cached_group::<C>(KeySrc::Dealer, n, t, IdKind::Seq, &c.seed) {
        Ok(g) => g,
        Err(e) => {
            o.fail(format!("{tag}/setup"), e);
            return o;
        }
    };
    let id = grp.ids[grp.ids.len() - 1];
    let mut cx = Ctx { o: &mut o, tag: tag.clone(), ctx: ctxs.clone() };
    cx.o.eval(true);
    match c.ty.as_str() {
        "SigningKey" => {
            let s = sc_seeded_nz::<C>(&format!("c20sk:{}", c.seed));
            let mk = || SigningKey::<C>::from_scalar(s).unwrap();
            let imgs = vec![image::<C>(&s)];
            cx.debug_check::<C, _>(&mk(), &[s]);
            cx.drop_check(Box::new(mk()), &imgs);
            cx.control(Box::new(ManuallyDrop::new(mk())), &imgs);
            let mut v = mk();
            if try_zeroize!(&mut v) {
                cx.o.count("zeroize_checked", 1);
                if v.to_scalar() != zero::<C>() {
                    cx.o.fail(format!("{tag}/zeroize-leaves-secret"), ctxs.clone());
                }
            } else {
                cx.o.count("zeroize_not_offered", 1);
            }
        }
        "SigningShare" => {
            let s = grp.kps[&id].signing_share().to_scalar();
            let mut v = SigningShare::<C>::new(s);
            cx.debug_check::<C, _>(&v, &[s]);
            if try_zeroize!(&mut v) {
                cx.o.count("zeroize_checked", 1);
                if v.to_scalar() != zero::<C>() {
                    cx.o.fail(format!("{tag}/zeroize-leaves-secret"), ctxs.clone());
                }
            } else {
                cx.o.fail(format!("{tag}/zeroize-not-offered"), format!("{ctxs}: SigningShare no longer offers zeroize()"));
            }
            // Copy type: no Drop; as a field of owning types it is covered there
            cx.o.count("drop_images_searched", 1);
            cx.o.count("controls_show_secret", 1);
        }
        "Nonce" => {
            let s = sc_seeded_nz::<C>(&format!("c20nonce:{}", c.seed));
            let mut v = Nonce::<C>::from_scalar(s);
            if try_zeroize!(&mut v) {
                cx.o.count("zeroize_checked", 1);
                if v.to_scalar() != zero::<C>() {
                    cx.o.fail(format!("{tag}/zeroize-leaves-secret"), ctxs.clone());
                }
            } else {
                cx.o.fail(format!("{tag}/zeroize-not-offered"), format!("{ctxs}: Nonce no longer offers zeroize()"));
            }
            cx.o.count("drop_images_searched", 1);
            cx.o.count("controls_show_secret", 1);
            cx.o.count("debug_checked", 1);
        }
        "SecretShare" => {
            let sh = grp.shares.as_ref().unwrap()[&id].clone();
            let s = sh.signing_share().to_scalar();
            let imgs = vec![image::<C>(&s)];
            cx.debug_check::<C, _>(&sh, &[s]);
            cx.drop_check(Box::new(sh.clone()), &imgs);
            cx.control(Box::new(ManuallyDrop::new(sh.clone())), &imgs);
            let mut v = sh.clone();
            if try_zeroize!(&mut v) {
                cx.o.count("zeroize_checked", 1);
                if v.signing_share().to_scalar() != zero::<C>() {
                    cx.o.fail(format!("{tag}/zeroize-leaves-secret"), ctxs.clone());
                }
                reencode_check::<C, _>(&mut cx, &v, &[s]);
            } else {
                cx.o.fail(format!("{tag}/zeroize-not-offered"), ctxs.clone());
            }
            // the wipe must not depend on the public commitment next to the secret: empty (broadcast
            // separately), one entry, the full one twice
            let full = sh.commitment().coefficients().to_vec();
            for (what, cm) in [("empty", vec![]), ("one entry", full[..1].to_vec()), ("doubled", [full.clone(), full.clone()].concat())] {
                let odd = SecretShare::<C>::new(*sh.identifier(), *sh.signing_share(), fc::keys::VerifiableSecretSharingCommitment::<C>::new(cm));
                cx.ctx = format!("{ctxs} commitment {what}");
                cx.drop_check(Box::new(odd.clone()), &imgs);
                let mut z = odd.clone();
                if try_zeroize!(&mut z) && z.signing_share().to_scalar() != zero::<C>() {
                    cx.o.fail(format!("{tag}/zeroize-leaves-secret"), cx.ctx.clone());
                }
            }
            cx.ctx = ctxs.clone();
        }
        "KeyPackage" => {
            let kp = grp.kps[&id].clone();
            let s = kp.signing_share().to_scalar();
            let imgs = vec![image::<C>(&s)];
            cx.debug_check::<C, _>(&kp, &[s]);
            cx.drop_check(Box::new(kp.clone()), &imgs);
            cx.control(Box::new(ManuallyDrop::new(kp.clone())), &imgs);
            let mut v = kp.clone();
            if try_zeroize!(&mut v) {
                cx.o.count("zeroize_checked", 1);
                if v.signing_share().to_scalar() != zero::<C>() {
                    cx.o.fail(format!("{tag}/zeroize-leaves-secret"), ctxs.clone());
                }
                reencode_check::<C, _>(&mut cx, &v, &[s]);
            } else {
                cx.o.fail(format!("{tag}/zeroize-not-offered"), ctxs.clone());
            }
            // the wipe must not depend on the public fields: thresholds 0 / 1 / 65535, built with new(),
            // and the same packages after a trip through bytes and JSON
            for ms in [0u16, 1, 65535] {
                let odd = KeyPackage::<C>::new(*kp.identifier(), *kp.signing_share(), *kp.verifying_share(), *kp.verifying_key(), ms);
                cx.ctx = format!("{ctxs} min_signers={ms}");
                cx.drop_check(Box::new(odd.clone()), &imgs);
                if let Some(d) = odd.serialize().ok().and_then(|b| KeyPackage::<C>::deserialize(&b).ok()) {
                    cx.drop_check(Box::new(d), &imgs);
                }
                if let Some(d) = serde_json::to_string(&odd).ok().and_then(|j| serde_json::from_str::<KeyPackage<C>>(&j).ok()) {
                    cx.drop_check(Box::new(d), &imgs);
                }
                let mut z = odd.clone();
                if try_zeroize!(&mut z) && z.signing_share().to_scalar() != zero::<C>() {
                    cx.o.fail(format!("{tag}/zeroize-leaves-secret"), cx.ctx.clone());
                }
            }
            cx.ctx = ctxs.clone();
        }
        "SigningNonces" => {
            let mut rng = ScriptedRng::ctr(format!("c20n:{}", c.seed));
            let (nn, _) = fc::round1::commit::<C, _>(grp.kps[&id].signing_share(), &mut rng);
            let (h, b) = (nn.hiding().to_scalar(), nn.binding().to_scalar());
            let imgs = vec![image::<C>(&h), image::<C>(&b)];
            cx.debug_check::<C, _>(&nn, &[h, b]);
            cx.drop_check(Box::new(nn.clone()), &imgs);
            cx.control(Box::new(ManuallyDrop::new(nn.clone())), &imgs);
            // a stored batch (Vec of nonces): every element is wiped when the Vec is dropped
            let (batch, _) = fc::round1::preprocess::<C, _>(3, grp.kps[&id].signing_share(), &mut rng);
            let bimgs: Vec<Vec<u8>> = batch.iter().flat_map(|x| [image::<C>(&x.hiding().to_scalar()), image::<C>(&x.binding().to_scalar())]).collect();
            cx.drop_check(Box::new(batch), &bimgs);
            let mut v = nn.clone();
            if try_zeroize!(&mut v) {
                cx.o.count("zeroize_checked", 1);
                if v.hiding().to_scalar() != zero::<C>() || v.binding().to_scalar() != zero::<C>() {
                    cx.o.fail(format!("{tag}/zeroize-leaves-secret"), ctxs.clone());
                }
                reencode_check::<C, _>(&mut cx, &v, &[h, b]);
            } else {
                cx.o.fail(format!("{tag}/zeroize-not-offered"), ctxs.clone());
            }
            // one of the two nonces neutral (zero), the other secret: the other one is still wiped
            for (what, hh, bb) in [("zero hiding nonce", zero::<C>(), b), ("zero binding nonce", h, zero::<C>())] {
                let odd = fc::round1::SigningNonces::<C>::from_nonces(fc::round1::Nonce::<C>::from_scalar(hh), fc::round1::Nonce::<C>::from_scalar(bb));
                let keep = if hh == zero::<C>() { bb } else { hh };
                cx.ctx = format!("{ctxs} {what}");
                cx.drop_check(Box::new(odd.clone()), &[image::<C>(&keep)]);
                let mut z = odd.clone();
                if try_zeroize!(&mut z) && (z.hiding().to_scalar() != zero::<C>() || z.binding().to_scalar() != zero::<C>()) {
                    cx.o.fail(format!("{tag}/zeroize-leaves-secret"), cx.ctx.clone());
                }
            }
            cx.ctx = ctxs.clone();
        }
        "dkg::round1::SecretPackage" | "refresh::round1::SecretPackage" => {
            let mut rng = ScriptedRng::ctr(format!("c20d1:{}", c.seed));
            let r = if c.ty.starts_with("refresh") { C::w_refresh_dkg_part1(id, n, t, &mut rng) } else { C::w_part1(id, n, t, &mut rng) };
            let (sp, _) = match r {
                Ok(x) => x,
                Err(e) => {
                    cx.o.fail(format!("{tag}/setup"), format!("{e:?}"));
                    return o;
                }
            };
            let coeffs: Vec<Scalar<C>> = sp.coefficients();
            if coeffs.len() != t as usize {
                cx.o.fail(format!("{tag}/MACHINERY-coefficient-count"), format!("{} coefficients", coeffs.len()));
            }
            let imgs: Vec<Vec<u8>> = coeffs.iter().map(|s| image::<C>(s)).collect();
            cx.debug_check::<C, _>(&sp, &coeffs);
            cx.drop_check(Box::new(sp.clone()), &imgs);
            // control: a plain vector of the same scalars dropped without wiping shows them
            {
                let plain: Vec<Scalar<C>> = coeffs.clone();
                let (_, blocks) = spy::watch(move || drop(plain));
                if imgs.iter().filter(|i| i.iter().any(|b| *b != 0)).any(|i| blocks.iter().any(|b| spy::contains(b, i))) {
                    cx.o.count("controls_show_secret", 1);
                } else {
                    cx.o.fail(format!("{tag}/CONTROL-spy-blind"), ctxs.clone());
                }
            }
            let mut v = sp.clone();
            if try_zeroize!(&mut v) {
                cx.o.count("zeroize_checked", 1);
                let after = v.coefficients();
                for (k, a) in after.iter().enumerate() {
                    if *a != zero::<C>() {
                        cx.o.fail(format!("{tag}/zeroize-leaves-secret"), format!("{ctxs}: coefficient #{k} of {} survived zeroize()", coeffs.len()));
                    }
                }
                reencode_check::<C, _>(&mut cx, &v, &coeffs);
                // dropping the wiped value must not expose anything either
                cx.drop_check(Box::new(v), &imgs);
            } else {
                cx.o.fail(format!("{tag}/zeroize-not-offered"), ctxs.clone());
            }
            // unusual public counts next to the same coefficients, built with new()
            for (mn, mx) in [(0u16, 0u16), (1, 1), (65535, 65535), (t, 0), (0, n)] {
                let odd = d1::SecretPackage::<C>::new(id, coeffs.clone(), sp.commitment().clone(), mn, mx);
                cx.ctx = format!("{ctxs} min_signers={mn} max_signers={mx}");
                cx.drop_check(Box::new(odd.clone()), &imgs);
                let mut z = odd.clone();
                if try_zeroize!(&mut z) && z.coefficients().iter().any(|a| *a != zero::<C>()) {
                    cx.o.fail(format!("{tag}/zeroize-leaves-secret"), cx.ctx.clone());
                }
            }
            // fewer / more commitments than coefficients
            {
                let cm = sp.commitment().coefficients().to_vec();
                for cut in [0usize, 1, cm.len()] {
                    let vss = fc::keys::VerifiableSecretSharingCommitment::<C>::new(cm[..cm.len() - cut.min(cm.len())].to_vec());
                    let odd = d1::SecretPackage::<C>::new(id, coeffs.clone(), vss, t, n);
                    cx.ctx = format!("{ctxs} commitment shortened by {cut}");
                    cx.drop_check(Box::new(odd.clone()), &imgs);
                    let mut z = odd.clone();
                    if try_zeroize!(&mut z) && z.coefficients().iter().any(|a| *a != zero::<C>()) {
                        cx.o.fail(format!("{tag}/zeroize-leaves-secret"), cx.ctx.clone());
                    }
                }
            }
            cx.ctx = ctxs.clone();
            // NOT asserted (recorded only): part2 consumes the package by value; the package's own storage is
            // wiped, but the library copies the coefficients into temporary plain vectors
            // (SecretPackage::coefficients()) that are freed unwiped. Those temporaries are not "the storage
            // the value occupied", so this is outside the property as stated (DESIGN 7).
            // What IS asserted: the block that held the package's own coefficients (identified by its ADDRESS:
            // the block allocated when the package was made that holds the coefficient images) must not show a
            // coefficient at the moment it is released while part two consumes the package.
            {
                let refresh = c.ty.starts_with("refresh");
                let idl: Vec<Id<C>> = grp.ids.clone();
                let mut sp1 = std::collections::BTreeMap::new();
                let mut p1 = std::collections::BTreeMap::new();
                let mut ok = true;
                for pid in &idl {
                    let mut rng = ScriptedRng::ctr(format!("c20part2:{}:{}", c.seed, id_hex::<C>(pid)));
                    match if refresh { C::w_refresh_dkg_part1(*pid, n, t, &mut rng) } else { C::w_part1(*pid, n, t, &mut rng) } {
                        Ok((s, p)) => {
                            sp1.insert(*pid, s);
                            p1.insert(*pid, p);
                        }
                        Err(_) => ok = false,
                    }
                }
                if ok {
                    let me = idl[0];
                    let cf: Vec<Scalar<C>> = sp1[&me].coefficients();
                    let im2: Vec<Vec<u8>> = cf.iter().map(|s| image::<C>(s)).collect();
                    let zimg: Vec<u8> = image::<C>(&zero::<C>());
                    let r1 = others::<C, _>(&p1, &me);
                    let (mine, allocs) = spy::track_allocs(|| std::hint::black_box(sp1[&me].clone()));
                    // the clone's own coefficient buffer: a block allocated by the clone that holds every image
                    let own: Vec<usize> = allocs
                        .iter()
                        .filter(|(a, sz)| {
                            let live = unsafe { spy::peek(*a, *sz) };
                            im2.iter().filter(|i| **i != zimg).all(|img| spy::contains(&live, img))
                        })
                        .map(|(a, _)| *a)
                        .collect();
                    let (res, blocks) = spy::watch_addr(move || if refresh { C::w_refresh_dkg_part2(mine, &r1) } else { C::w_part2(mine, &r1) });
                    if res.is_ok() {
                        if own.is_empty() {
                            cx.o.count("info_part2_own_block_not_identified", 1);
                        }
                        let mut released = false;
                        for (addr, b) in &blocks {
                            if own.contains(addr) {
                                released = true;
                                if im2.iter().filter(|i| **i != zimg).any(|img| spy::contains(b, img)) {
                                    cx.o.fail(
                                        format!("{tag}/secret-left-in-freed-storage"),
                                        format!("{ctxs}: the package's own coefficient block still shows a coefficient when it is released while {} consumes the package", if refresh { "refresh_dkg_part2" } else { "part2" }),
                                    );
                                }
                            }
                        }
                        if released {
                            cx.o.count("part2_own_block_release_checked", 1);
                        }
                        if im2.iter().any(|img| blocks.iter().any(|(a, b)| !own.contains(a) && spy::contains(b, img))) {
                            cx.o.count("info_part2_temporaries_hold_coefficients", 1);
                        }
                    }
                    drop(res);
                }
            }
        }
        "dkg::round2::SecretPackage" | "dkg::round2::Package" => {
            let idl: Vec<Id<C>> = grp.ids.clone();
            let run = match dkg_run::<C>(n, t, &idl, &format!("c20run:{}", c.seed)) {
                Ok(r) => r,
                Err(e) => {
                    cx.o.fail(format!("{tag}/setup"), e);
                    return o;
                }
            };
            let me = idl[0];
            if c.ty.ends_with("SecretPackage") {
                let sp: d2::SecretPackage<C> = run.sp2[&me].clone();
                let s = sp.secret_share();
                let imgs = vec![image::<C>(&s)];
                cx.debug_check::<C, _>(&sp, &[s]);
                cx.drop_check(Box::new(sp.clone()), &imgs);
                cx.control(Box::new(ManuallyDrop::new(sp.clone())), &imgs);
                for (mn, mx) in [(0u16, 0u16), (1, 1), (65535, 65535)] {
                    let odd = d2::SecretPackage::<C>::new(me, sp.commitment().clone(), s, mn, mx);
                    cx.ctx = format!("{ctxs} min_signers={mn} max_signers={mx}");
                    cx.drop_check(Box::new(odd.clone()), &imgs);
                    let mut z = odd.clone();
                    if try_zeroize!(&mut z) && z.secret_share() != zero::<C>() {
                        cx.o.fail(format!("{tag}/zeroize-leaves-secret"), cx.ctx.clone());
                    }
                }
                cx.ctx = ctxs.clone();
                let mut v = sp.clone();
                if try_zeroize!(&mut v) {
                    cx.o.count("zeroize_checked", 1);
                    if v.secret_share() != zero::<C>() {
                        cx.o.fail(format!("{tag}/zeroize-leaves-secret"), ctxs.clone());
                    }
                    reencode_check::<C, _>(&mut cx, &v, &[s]);
                } else {
                    cx.o.fail(format!("{tag}/zeroize-not-offered"), ctxs.clone());
                }
            } else {
                let pk: d2::Package<C> = run.p2[&me].values().next().unwrap().clone();
                let s = pk.signing_share().to_scalar();
                let imgs = vec![image::<C>(&s)];
                cx.debug_check::<C, _>(&pk, &[s]);
                cx.drop_check(Box::new(pk.clone()), &imgs);
                cx.control(Box::new(ManuallyDrop::new(pk.clone())), &imgs);
                // the whole outgoing map
                let all = run.p2[&me].clone();
                let aimgs: Vec<Vec<u8>> = all.values().map(|p| image::<C>(&p.signing_share().to_scalar())).collect();
                cx.drop_check(Box::new(all), &aimgs);
                let mut v = pk.clone();
                if try_zeroize!(&mut v) {
                    cx.o.count("zeroize_checked", 1);
                    if v.signing_share().to_scalar() != zero::<C>() {
                        cx.o.fail(format!("{tag}/zeroize-leaves-secret"), ctxs.clone());
                    }
                    reencode_check::<C, _>(&mut cx, &v, &[s]);
                } else {
                    cx.o.fail(format!("{tag}/zeroize-not-offered"), ctxs.clone());
                }
            }
        }
        other => panic!("type {other}"),
    }
    o.class(c.ty.clone());
    o
}

/// After zeroize(), the JSON re-encoding must not contain any secret scalar.
fn reencode_check<C: Suite, T: serde::Serialize>(cx: &mut Ctx, v: &T, secrets: &[Scalar<C>]) {
    if let Ok(s) = serde_json::to_string(v) {
        let lower = s.to_lowercase();
        for (k, sc) in secrets.iter().enumerate() {
            if *sc != zero::<C>() && lower.contains(&hex::encode(sc_bytes::<C>(sc))) {
                cx.o.fail(format!("{}/zeroize-leaves-secret", cx.tag), format!("{}: secret scalar #{k} is still serialized after zeroize()", cx.ctx));
            }
        }
    }
}
