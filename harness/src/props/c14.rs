//! C14 — untrusted bytes and untrusted protocol messages never cause a panic.
//! Every call into the library is wrapped in catch_unwind; the build has overflow checks and
//! debug assertions on.

use crate::corpus::*;
use crate::rng::ScriptedRng;
use crate::runner::{Outcome, Prop, Tier};
use crate::suites::{Id, REAL_SUITES, Suite};
use crate::util::*;
use crate::with_suite;
use frost_core as fc;
use frost_core::keys::dkg::{round1 as d1, round2 as d2};
use frost_core::keys::repairable::{Delta, Sigma};
use frost_core::keys::{
    CoefficientCommitment, KeyPackage, PublicKeyPackage, SecretShare, SigningShare,
    VerifiableSecretSharingCommitment, VerifyingShare,
};
use frost_core::round1::{NonceCommitment, SigningCommitments};
use frost_core::round2::SignatureShare;
use frost_core::{CheaterDetection, Identifier, Signature, SigningPackage, VerifyingKey};
use serde::{Deserialize, Serialize};
use serde_json::Value;
use std::collections::{BTreeMap, BTreeSet};
use std::panic::{AssertUnwindSafe, catch_unwind};

pub struct C14;

#[derive(Serialize, Deserialize, Clone, Debug)]
#[serde(tag = "part")]
enum Case {
    /// byte-level deviations of one valid encoding fed to its decoder
    Decoder { suite: String, item: usize, full: bool },
    /// every valid encoding of `other` fed to every decoder of `suite`
    Cross { suite: String, other: String },
    /// degenerate inputs (empty, 1 MiB of 0x00 / 0xff, deep varints) to every decoder
    Degenerate { suite: String },
    /// hostile well-typed inputs to one protocol entry point: full product of per-argument menus
    Entry { suite: String, entry: String, big: usize },
}

const ENTRIES: [&str; 14] = [
    "sign",
    "aggregate",
    "verify_signature_share",
    "keypackage_try_from",
    "refresh_share",
    "dkg_part2",
    "dkg_part3",
    "refresh_dkg",
    "repair",
    "reconstruct",
    "batch",
    "rerandomized",
    "from_commitments",
    "identifiers",
];

impl Prop for C14 {
    fn id(&self) -> &'static str {
        "C14"
    }
    fn level(&self) -> &'static str {
        "fault_enumeration"
    }
    fn rule(&self) -> String {
        "decoders: for every wire type x decoding path x suite, starting from a valid encoding: every truncation, every 1-byte extension, at EVERY position a byte substitution (quick: 8 boundary values; thorough: all 255) and an injected extreme length varint (9 values up to 2^64-1); empty / 1 MiB inputs; every suite's encodings into every other suite's decoders; JSON single-character deletions and replacements. Protocol steps: for each of 14 entry-point groups the FULL PRODUCT of per-argument menus of well-typed hostile values (empty / singleton / missing-one / surplus / very large maps and lists, duplicated values, own or unknown identifiers, identity elements, zero scalars, empty / over-long commitments, thresholds None/0/1/65535, empty / 1 MiB messages; commitment vectors of 65 536 / 65 537 entries at every consumer that reads the length first) with the caller's own secret state honest. Oracle: no unwind (overflow checks + debug assertions on), no hang. Non-trivial = call executed on a deviating input".into()
    }
    fn assumptions(&self) -> Vec<String> {
        vec![
            "byte strings more than one deviation from a valid encoding are outside the bound".into(),
            "an allocation abort cannot be caught in-process; the check script reports a dying process as a violation of C14".into(),
        ]
    }
    fn bound(&self, tier: Tier) -> String {
        format!("1 byte-level deviation per input ({} values per position); menu products with maps of up to {} entries", tier.pick(8, 255), tier.pick(300, 1000))
    }
    fn required_counters(&self) -> Vec<&'static str> {
        vec!["decoder_calls", "entry_calls", "returned_err", "returned_ok"]
    }
    fn cases(&self, tier: Tier, _seed: u64) -> Vec<Value> {
        let mut out = vec![];
        for suite in REAL_SUITES {
            for item in 0..N_ITEMS {
                out.push(serde_json::to_value(Case::Decoder { suite: suite.to_string(), item, full: tier == Tier::Thorough }).unwrap());
            }
            for other in REAL_SUITES {
                if other != suite {
                    out.push(serde_json::to_value(Case::Cross { suite: suite.to_string(), other: other.to_string() }).unwrap());
                }
            }
            out.push(serde_json::to_value(Case::Degenerate { suite: suite.to_string() }).unwrap());
            for e in ENTRIES {
                out.push(serde_json::to_value(Case::Entry { suite: suite.to_string(), entry: e.to_string(), big: tier.pick(300, 1000) }).unwrap());
            }
        }
        out
    }
    fn run(&self, case: &Value) -> Outcome {
        let c: Case = serde_json::from_value(case.clone()).expect("case");
        let suite = match &c {
            Case::Decoder { suite, .. } | Case::Cross { suite, .. } | Case::Degenerate { suite } | Case::Entry { suite, .. } => suite.clone(),
        };
        with_suite!(suite.as_str(), run_case, &c)
    }
}

/// upper bound on the number of wire items (indices beyond the real count are empty cases)
const N_ITEMS: usize = 90;

fn guarded<R>(o: &mut Outcome, tag: &str, what: &str, input: &dyn Fn() -> String, f: impl FnOnce() -> R) -> Option<R> {
    match catch_unwind(AssertUnwindSafe(f)) {
        Ok(r) => Some(r),
        Err(e) => {
            let msg = if let Some(s) = e.downcast_ref::<String>() { s.clone() } else if let Some(s) = e.downcast_ref::<&str>() { s.to_string() } else { "<panic>".into() };
            o.fail(format!("{tag}/panic/{what}"), format!("{what} panicked: {msg}; input: {}", input()));
            None
        }
    }
}

fn run_case<C: Suite>(c: &Case) -> Outcome {
    let mut o = Outcome::new();
    let tag = format!("C14/{}", C::name());
    match c {
        Case::Decoder { item, full, .. } => {
            let m = material::<C>(3, 2, IdKind::U16x, "c14").expect("material");
            let items = wire_items::<C>(&m);
            let Some(it) = items.get(*item) else {
                o.eval(false);
                o.class("no-item");
                return o;
            };
            decoder_sweep(&mut o, &tag, it, *full);
            o.class("decoder");
        }
        Case::Cross { other, .. } => {
            let foreign: Vec<(String, WPath, Vec<u8>)> = with_suite!(other.as_str(), all_bytes);
            let m = material::<C>(3, 2, IdKind::U16x, "c14").expect("material");
            let items = wire_items::<C>(&m);
            for (name, path, bytes) in &foreign {
                // every foreign encoding into every decoder of the same path (not only the same type)
                for it in items.iter().filter(|i| i.path == *path) {
                    let what = format!("{}:{:?}", it.name, it.path);
                    let r = guarded(&mut o, &tag, &what, &|| format!("{other}'s {name}: {}", hex::encode(&bytes[..bytes.len().min(64)])), || (it.dec)(bytes));
                    o.eval(true);
                    o.count("decoder_calls", 1);
                    match r {
                        Some(Some(_)) => o.count("returned_ok", 1),
                        Some(None) => o.count("returned_err", 1),
                        None => {}
                    }
                }
            }
            o.class("cross");
        }
        Case::Degenerate { .. } => {
            let m = material::<C>(3, 2, IdKind::U16x, "c14").expect("material");
            let items = wire_items::<C>(&m);
            let mut inputs: Vec<(String, Vec<u8>)> = vec![("empty".into(), vec![]), ("1MiB-zero".into(), vec![0u8; 1 << 20]), ("1MiB-ff".into(), vec![0xffu8; 1 << 20])];
            // valid header followed by maximal varints
            let own = crc32(C::ID.as_bytes()).to_be_bytes();
            let mut hv = vec![0u8];
            hv.extend_from_slice(&own);
            hv.extend_from_slice(&[0xff; 64]);
            inputs.push(("header+ff".into(), hv));
            inputs.push(("json-open-brace".into(), b"{".to_vec()));
            inputs.push(("json-deep".into(), "[".repeat(100_000).into_bytes()));
            inputs.push(("json-null".into(), b"null".to_vec()));
            inputs.push(("json-long-hex".into(), format!("\"{}\"", "ab".repeat(1 << 19)).into_bytes()));
            for it in &items {
                for (name, b) in &inputs {
                    let what = format!("{}:{:?}", it.name, it.path);
                    let r = guarded(&mut o, &tag, &what, &|| name.clone(), || (it.dec)(b));
                    o.eval(true);
                    o.count("decoder_calls", 1);
                    match r {
                        Some(Some(_)) => o.count("returned_ok", 1),
                        Some(None) => o.count("returned_err", 1),
                        None => {}
                    }
                }
            }
            o.class("degenerate");
        }
        Case::Entry { entry, big, .. } => {
            entry_points::<C>(&mut o, &tag, entry, *big);
            o.class(format!("entry-{entry}"));
        }
    }
    o
}

fn all_bytes<C: Suite>() -> Vec<(String, WPath, Vec<u8>)> {
    let m = material::<C>(3, 2, IdKind::U16x, "c14").expect("material");
    wire_items::<C>(&m).into_iter().map(|i| (i.name, i.path, i.bytes)).collect()
}

const VARINTS: [&[u8]; 9] = [
    &[0x00],
    &[0x01],
    &[0x7f],
    &[0x80, 0x01],
    &[0xff, 0x01],
    &[0xff, 0xff, 0x03],
    &[0x80, 0x80, 0x80, 0x80, 0x10],
    &[0xff, 0xff, 0xff, 0xff, 0x0f],
    &[0xff, 0xff, 0xff, 0xff, 0xff, 0xff, 0xff, 0xff, 0xff, 0x01],
];

fn decoder_sweep(o: &mut Outcome, tag: &str, it: &WireItem, full: bool) {
    let base = &it.bytes;
    let what = format!("{}:{:?}", it.name, it.path);
    let mut call = |o: &mut Outcome, b: &[u8], desc: &dyn Fn() -> String| {
        let r = guarded(o, tag, &what, desc, || (it.dec)(b));
        o.eval(b != &base[..]);
        o.count("decoder_calls", 1);
        match r {
            Some(Some(_)) => o.count("returned_ok", 1),
            Some(None) => o.count("returned_err", 1),
            None => {}
        }
    };
    call(o, base, &|| "valid".into());
    for len in 0..base.len() {
        call(o, &base[..len], &|| format!("truncated to {len}: {}", hex::encode(&base[..len.min(80)])));
    }
    for ext in [0u8, 1, 0x80, 0xff] {
        let mut b = base.clone();
        b.push(ext);
        call(o, &b, &|| format!("extended by {ext:#04x}"));
    }
    let json = it.path == WPath::Json && it.kind == WKind::Container;
    for pos in 0..base.len() {
        let orig = base[pos];
        let vals: Vec<u8> = if full {
            (0..=255u8).filter(|v| *v != orig).collect()
        } else if json {
            vec![b'"', b'{', b'}', b'[', b']', b',', b':', b'0', b'g', b' ', b'\\', 0x00, 0xff, orig ^ 1]
        } else {
            let mut v = vec![0x00, 0x01, 0x7f, 0x80, 0xff, orig ^ 0x01, orig ^ 0x80, orig.wrapping_add(1)];
            v.retain(|x| *x != orig);
            v.dedup();
            v
        };
        for v in vals {
            let mut b = base.clone();
            b[pos] = v;
            call(o, &b, &|| format!("byte {pos} := {v:#04x} in {}", hex::encode(&base[..base.len().min(80)])));
        }
        if json {
            // single-character deletion
            let mut b = base.clone();
            b.remove(pos);
            call(o, &b, &|| format!("character {pos} deleted"));
        } else if it.path != WPath::Json {
            for vi in VARINTS {
                let mut b = base[..pos].to_vec();
                b.extend_from_slice(vi);
                b.extend_from_slice(&base[pos + 1..]);
                call(o, &b, &|| format!("varint {} injected at {pos} in {}", hex::encode(vi), hex::encode(&base[..base.len().min(80)])));
            }
        }
    }
}

// ---------------------------------------------------------------------
// protocol entry points
// ---------------------------------------------------------------------
struct W<C: Suite> {
    g: Grp<C>,
    s: Vec<Id<C>>,
    sess: Sess<C>,
    stranger: Id<C>,
}

fn ident<C: Suite>() -> frost_core::Element<C> {
    G::<C>::identity()
}

fn many_ids<C: Suite>(k: usize) -> Vec<Id<C>> {
    (0..k).map(|i| Identifier::<C>::try_from(1000 + i as u16).unwrap()).collect()
}

fn commitment_menus<C: Suite>(w: &W<C>, big: usize) -> Vec<(String, BTreeMap<Id<C>, SigningCommitments<C>>)> {
    let base = w.sess.comms.clone();
    let mut v: Vec<(String, BTreeMap<Id<C>, SigningCommitments<C>>)> = vec![("honest".into(), base.clone()), ("empty".into(), BTreeMap::new())];
    let own = w.s[0];
    v.push(("only-own".into(), [(own, base[&own])].into_iter().collect()));
    let mut m = base.clone();
    m.remove(&own);
    v.push(("own-missing".into(), m));
    let mut m = base.clone();
    m.remove(&w.s[1]);
    v.push(("peer-missing".into(), m));
    let mut m = base.clone();
    m.insert(w.stranger, base[&own]);
    v.push(("surplus-unknown-id-duplicate-value".into(), m));
    let mut m = base.clone();
    for id in &w.s {
        m.insert(*id, base[&own]);
    }
    v.push(("all-same-value".into(), m));
    let idc = SigningCommitments::<C>::new(NonceCommitment::new(ident::<C>()), NonceCommitment::new(ident::<C>()));
    let mut m = base.clone();
    m.insert(w.s[1], idc);
    v.push(("peer-identity".into(), m));
    let mut m = base.clone();
    m.insert(own, idc);
    v.push(("own-identity".into(), m));
    let mut m = BTreeMap::new();
    for id in &w.s {
        m.insert(*id, idc);
    }
    v.push(("all-identity".into(), m));
    let mut m = base.clone();
    for id in many_ids::<C>(big) {
        m.insert(id, base[&w.s[1]]);
    }
    v.push((format!("huge-{big}"), m));
    v
}

fn share_menus<C: Suite>(w: &W<C>, big: usize) -> Vec<(String, BTreeMap<Id<C>, SignatureShare<C>>)> {
    let base = w.sess.shares.clone();
    let mut v = vec![("honest".to_string(), base.clone()), ("empty".to_string(), BTreeMap::new())];
    let mut m = base.clone();
    m.remove(&w.s[0]);
    v.push(("missing-one".into(), m));
    let mut m = base.clone();
    m.insert(w.stranger, base[&w.s[0]]);
    v.push(("surplus-unknown".into(), m));
    let mut m = base.clone();
    for id in &w.s {
        m.insert(*id, share_from_scalar::<C>(zero::<C>()));
    }
    v.push(("all-zero".into(), m));
    let mut m = base.clone();
    for id in many_ids::<C>(big) {
        m.insert(id, base[&w.s[0]]);
    }
    v.push((format!("huge-{big}"), m));
    // same size as honest but other identifiers
    let mut m = BTreeMap::new();
    for (k, id) in many_ids::<C>(w.s.len()).into_iter().enumerate() {
        m.insert(id, base[&w.s[k]]);
    }
    v.push(("other-identifiers".into(), m));
    v
}

fn pkp_menus<C: Suite>(w: &W<C>, big: usize) -> Vec<(String, PublicKeyPackage<C>)> {
    let vs = w.g.pkp.verifying_shares().clone();
    let vk = *w.g.pkp.verifying_key();
    let mut v: Vec<(String, PublicKeyPackage<C>)> = vec![("honest".into(), w.g.pkp.clone())];
    for ms in [None, Some(0u16), Some(1), Some(65535)] {
        v.push((format!("threshold-{ms:?}"), PublicKeyPackage::new(vs.clone(), vk, ms)));
    }
    v.push(("no-shares".into(), PublicKeyPackage::new(BTreeMap::new(), vk, Some(2))));
    let mut m = vs.clone();
    m.remove(&w.s[0]);
    v.push(("signer-missing".into(), PublicKeyPackage::new(m, vk, Some(2))));
    let mut m = vs.clone();
    for id in &w.s {
        m.insert(*id, VerifyingShare::new(ident::<C>()));
    }
    v.push(("identity-shares".into(), PublicKeyPackage::new(m, vk, Some(2))));
    v.push(("identity-key".into(), PublicKeyPackage::new(vs.clone(), VerifyingKey::new(ident::<C>()), Some(2))));
    let mut m = vs.clone();
    for id in many_ids::<C>(big) {
        m.insert(id, vs[&w.s[0]]);
    }
    v.push((format!("huge-{big}"), PublicKeyPackage::new(m, vk, Some(2))));
    v
}

fn msgs() -> Vec<(String, Vec<u8>)> {
    vec![("normal".into(), b"m".to_vec()), ("empty".into(), vec![]), ("1MiB".into(), vec![0xa5; 1 << 20])]
}

fn vss_menus<C: Suite>(w: &W<C>, big: usize) -> Vec<(String, VerifiableSecretSharingCommitment<C>)> {
    let sh = w.g.shares.as_ref().unwrap().values().next().unwrap();
    let ce = commitment_elems::<C>(sh.commitment());
    let mk = |v: Vec<frost_core::Element<C>>| VerifiableSecretSharingCommitment::<C>::new(v.into_iter().map(CoefficientCommitment::new).collect());
    vec![
        ("honest".into(), sh.commitment().clone()),
        ("empty".into(), mk(vec![])),
        ("single".into(), mk(vec![ce[0]])),
        ("identity-entries".into(), mk(vec![ident::<C>(); ce.len()])),
        ("first-identity".into(), mk([vec![ident::<C>()], ce[1..].to_vec()].concat())),
        (format!("over-long-{}", big), mk(vec![ce[0]; big])),
    ]
}

/// commitment vectors whose length wraps the u16 threshold (expensive: used once each)
fn vss_wrapping<C: Suite>(w: &W<C>) -> Vec<(String, VerifiableSecretSharingCommitment<C>)> {
    let sh = w.g.shares.as_ref().unwrap().values().next().unwrap();
    let ce = commitment_elems::<C>(sh.commitment());
    let mk = |v: Vec<frost_core::Element<C>>| VerifiableSecretSharingCommitment::<C>::new(v.into_iter().map(CoefficientCommitment::new).collect());
    vec![("length-65536".into(), mk(vec![ce[0]; 65536])), ("length-65537".into(), mk(vec![ce[0]; 65537]))]
}

fn entry_points<C: Suite>(o: &mut Outcome, tag: &str, entry: &str, big: usize) {
    let g = make_group::<C>(KeySrc::Dealer, 3, 2, IdKind::U16x, "c14w").expect("group");
    let s: Vec<_> = g.ids.iter().take(2).copied().collect();
    let sess = run_session::<C>(&g.kps, &s, b"m", "c14w").expect("session");
    let w = W::<C> { g, s, sess, stranger: Identifier::<C>::try_from(31337u16).unwrap() };
    let own = w.s[0];
    let kp = w.g.kps[&own].clone();
    macro_rules! run {
        ($what:expr, $desc:expr, $f:expr) => {{
            let d = $desc;
            let r = guarded(o, tag, $what, &|| d.clone(), $f);
            o.eval(true);
            o.count("entry_calls", 1);
            match r {
                Some(true) => o.count("returned_ok", 1),
                Some(false) => o.count("returned_err", 1),
                None => {}
            }
        }};
    }
    match entry {
        "sign" => {
            for (cn, cm) in commitment_menus::<C>(&w, big) {
                for (mn, m) in msgs() {
                    let pkg = SigningPackage::<C>::new(cm.clone(), &m);
                    for ms in [0u16, 1, 2, 65535] {
                        let k2 = KeyPackage::new(*kp.identifier(), *kp.signing_share(), *kp.verifying_share(), *kp.verifying_key(), ms);
                        run!("sign", format!("commitments={cn} msg={mn} own min_signers={ms}"), || C::w_sign(&pkg, &w.sess.nonces[&own], &k2).is_ok());
                    }
                }
            }
        }
        "aggregate" => {
            let pk = pkp_menus::<C>(&w, big);
            let shm = share_menus::<C>(&w, big);
            for (cn, cm) in commitment_menus::<C>(&w, big) {
                for (mn, m) in msgs().into_iter().take(2) {
                    let pkg = SigningPackage::<C>::new(cm.clone(), &m);
                    for (sn, sm) in &shm {
                        for (pn, p) in &pk {
                            for mode in 0..3 {
                                let cd = match mode {
                                    0 => CheaterDetection::Disabled,
                                    1 => CheaterDetection::FirstCheater,
                                    _ => CheaterDetection::AllCheaters,
                                };
                                run!("aggregate_custom", format!("commitments={cn} msg={mn} shares={sn} pkp={pn} mode={mode}"), || C::w_aggregate_custom(&pkg, sm, p, cd).is_ok());
                            }
                        }
                    }
                }
            }
            // shares map same keys as package but built over the huge package
            let (_, hc) = commitment_menus::<C>(&w, big).pop().unwrap();
            let pkg = SigningPackage::<C>::new(hc.clone(), b"m");
            let sm: BTreeMap<_, _> = hc.keys().map(|k| (*k, w.sess.shares[&own])).collect();
            for (pn, p) in &pk {
                run!("aggregate", format!("huge package + matching shares pkp={pn}"), || C::w_aggregate(&pkg, &sm, p).is_ok());
            }
        }
        "verify_signature_share" => {
            for (cn, cm) in commitment_menus::<C>(&w, big) {
                for (mn, m) in msgs().into_iter().take(2) {
                    let pkg = SigningPackage::<C>::new(cm.clone(), &m);
                    for (idn, id) in [("own", own), ("stranger", w.stranger)] {
                        for (vn, vs) in [("honest", w.g.pkp.verifying_shares()[&own]), ("identity", VerifyingShare::new(ident::<C>()))] {
                            for (kn, vk) in [("honest", *w.g.pkp.verifying_key()), ("identity", VerifyingKey::new(ident::<C>()))] {
                                for (zn, z) in [("honest", w.sess.shares[&own]), ("zero", share_from_scalar::<C>(zero::<C>()))] {
                                    run!("verify_signature_share", format!("commitments={cn} msg={mn} id={idn} vs={vn} vk={kn} share={zn}"), || fc::verify_signature_share(id, &vs, &z, &pkg, &vk).is_ok());
                                }
                            }
                        }
                    }
                }
            }
        }
        "keypackage_try_from" | "refresh_share" => {
            for (vn, vss) in vss_menus::<C>(&w, big) {
                for (sn, sc) in [("honest", kp.signing_share().to_scalar()), ("zero", zero::<C>())] {
                    for (idn, id) in [("own", own), ("stranger", w.stranger)] {
                        let sh = SecretShare::<C>::new(id, SigningShare::new(sc), vss.clone());
                        if entry == "keypackage_try_from" {
                            run!("KeyPackage::try_from", format!("commitment={vn} share={sn} id={idn}"), || KeyPackage::<C>::try_from(sh.clone()).is_ok());
                            run!("SecretShare::verify", format!("commitment={vn} share={sn} id={idn}"), || sh.verify().is_ok());
                        } else {
                            for ms in [0u16, 1, 2, 65535] {
                                let k2 = KeyPackage::new(*kp.identifier(), *kp.signing_share(), *kp.verifying_share(), *kp.verifying_key(), ms);
                                run!("refresh_share", format!("commitment={vn} share={sn} id={idn} own min_signers={ms}"), || C::w_refresh_share(sh.clone(), &k2).is_ok());
                            }
                        }
                    }
                }
            }
            if entry == "keypackage_try_from" && C::NAME != "ed448" {
                for (vn, vss) in vss_wrapping::<C>(&w) {
                    let sh = SecretShare::<C>::new(own, *kp.signing_share(), vss.clone());
                    run!("KeyPackage::try_from", format!("commitment={vn}"), || KeyPackage::<C>::try_from(sh.clone()).is_ok());
                }
            }
            if entry == "refresh_share" {
                // the dealer side with hostile public key packages / identifier lists
                for (pn, p) in pkp_menus::<C>(&w, big) {
                    for (ln, l) in [("honest", w.g.ids.clone()), ("empty", vec![]), ("one", vec![own]), ("dups", vec![own, own, own]), ("unknown", vec![w.stranger, own]), ("huge", many_ids::<C>(big))] {
                        let mut rng = ScriptedRng::ctr("c14");
                        run!("compute_refreshing_shares", format!("pkp={pn} ids={ln}"), || C::w_compute_refreshing_shares(p.clone(), &l, &mut rng).is_ok());
                    }
                }
            }
        }
        "dkg_part2" | "dkg_part3" | "refresh_dkg" => {
            let idl = make_ids::<C>(IdKind::U16x, 3);
            let run = dkg_run::<C>(3, 2, &idl, "c14dkg").expect("dkg");
            let me = run.ids[0];
            let peer = run.ids[1];
            let honest_r1 = others::<C, _>(&run.p1, &me);
            let honest_r2 = r2_for::<C>(&run, &me);
            let pok = *honest_r1[&peer].proof_of_knowledge();
            let mut r1_pkgs: Vec<(String, d1::Package<C>)> = vec![];
            for (vn, vss) in vss_menus::<C>(&w, big) {
                r1_pkgs.push((format!("commitment={vn}"), d1::Package::new(vss, pok)));
            }
            r1_pkgs.push(("proof-identity-R".into(), d1::Package::new(honest_r1[&peer].commitment().clone(), Signature::new(ident::<C>(), *pok.z()))));
            r1_pkgs.push(("proof-zero-z".into(), d1::Package::new(honest_r1[&peer].commitment().clone(), Signature::new(*pok.R(), zero::<C>()))));
            let mut r1_maps: Vec<(String, BTreeMap<Id<C>, d1::Package<C>>)> = vec![("honest".into(), honest_r1.clone()), ("empty".into(), BTreeMap::new())];
            for (pn, p) in &r1_pkgs {
                let mut m = honest_r1.clone();
                m.insert(peer, p.clone());
                r1_maps.push((format!("peer:{pn}"), m));
            }
            let mut m = honest_r1.clone();
            m.remove(&peer);
            r1_maps.push(("missing-one".into(), m));
            let mut m = honest_r1.clone();
            m.insert(me, run.p1[&me].clone());
            r1_maps.push(("own-included".into(), m));
            let mut m = honest_r1.clone();
            m.insert(w.stranger, run.p1[&peer].clone());
            r1_maps.push(("surplus".into(), m));
            let mut m = honest_r1.clone();
            for id in many_ids::<C>(big) {
                m.insert(id, run.p1[&peer].clone());
            }
            r1_maps.push((format!("huge-{big}"), m));
            let mut r2_maps: Vec<(String, BTreeMap<Id<C>, d2::Package<C>>)> = vec![("honest".into(), honest_r2.clone()), ("empty".into(), BTreeMap::new())];
            let mut m = honest_r2.clone();
            m.insert(peer, d2::Package::new(SigningShare::new(zero::<C>())));
            r2_maps.push(("zero-share".into(), m));
            let mut m = honest_r2.clone();
            m.remove(&peer);
            r2_maps.push(("missing-one".into(), m));
            let mut m = honest_r2.clone();
            m.insert(me, honest_r2[&peer].clone());
            r2_maps.push(("own-included".into(), m));
            let mut m = honest_r2.clone();
            m.remove(&peer);
            m.insert(w.stranger, honest_r2[&peer].clone());
            r2_maps.push(("unknown-sender".into(), m));
            let mut m = honest_r2.clone();
            for id in many_ids::<C>(big) {
                m.insert(id, honest_r2[&peer].clone());
            }
            r2_maps.push((format!("huge-{big}"), m));
            match entry {
                "dkg_part2" => {
                    for (n1, m1) in &r1_maps {
                        run!("dkg::part2", format!("round1={n1}"), || C::w_part2(run.sp1[&me].clone(), m1).is_ok());
                    }
                    // commitment vectors whose length wraps the u16 threshold (65536 -> 0, 65537 -> 1)
                    for (vn, vss) in vss_wrapping::<C>(&w) {
                        let mut m = honest_r1.clone();
                        m.insert(peer, d1::Package::new(vss.clone(), pok));
                        run!("dkg::part2", format!("round1=peer:commitment={vn}"), || C::w_part2(run.sp1[&me].clone(), &m).is_ok());
                        let mut rng = ScriptedRng::ctr("c14rw");
                        if let Ok((rsp1, _)) = C::w_refresh_dkg_part1(me, 3, 2, &mut rng) {
                            run!("refresh_dkg_part2", format!("round1=peer:commitment={vn}"), || C::w_refresh_dkg_part2(rsp1.clone(), &m).is_ok());
                        }
                        let one: BTreeSet<Id<C>> = [me].into_iter().collect();
                        let none: BTreeSet<Id<C>> = BTreeSet::new();
                        run!("PublicKeyPackage::from_commitment", format!("ids=none commitment={vn}"), || PublicKeyPackage::<C>::from_commitment(&none, &vss).is_ok());
                        if C::NAME != "ed448" && C::NAME != "p256" {
                            run!("PublicKeyPackage::from_commitment", format!("ids=one commitment={vn}"), || PublicKeyPackage::<C>::from_commitment(&one, &vss).is_ok());
                        }
                        let sh = SecretShare::<C>::new(me, *kp.signing_share(), vss.clone());
                        let bytes = sh.serialize();
                        run!("SecretShare::serialize+deserialize", format!("commitment={vn}"), || bytes.as_ref().map(|b| SecretShare::<C>::deserialize(b).is_ok()).unwrap_or(false));
                    }
                    // own secret package with hostile counts is the caller's own state: honest only
                }
                "dkg_part3" => {
                    for (n1, m1) in &r1_maps {
                        for (n2, m2) in &r2_maps {
                            run!("dkg::part3", format!("round1={n1} round2={n2}"), || C::w_part3(&run.sp2[&me], m1, m2).is_ok());
                        }
                    }
                }
                _ => {
                    // distributed refresh with the same hostile maps
                    let mut rng = ScriptedRng::ctr("c14r");
                    let (rsp1, _) = C::w_refresh_dkg_part1(me, 3, 2, &mut rng).expect("refresh part1");
                    let okp = w.g.kps.get(&me).cloned().unwrap_or_else(|| kp.clone());
                    for (n1, m1) in &r1_maps {
                        run!("refresh_dkg_part2", format!("round1={n1}"), || C::w_refresh_dkg_part2(rsp1.clone(), m1).is_ok());
                    }
                    // a valid round-2 secret package of the refresh
                    let mut sp1s = BTreeMap::new();
                    let mut p1s = BTreeMap::new();
                    for id in &w.g.ids {
                        let mut rng = ScriptedRng::ctr(format!("c14r:{}", id_hex::<C>(id)));
                        let (a, b) = C::w_refresh_dkg_part1(*id, 3, 2, &mut rng).expect("refresh part1");
                        sp1s.insert(*id, a);
                        p1s.insert(*id, b);
                    }
                    let meg = w.g.ids[0];
                    if let Ok((rsp2, _)) = C::w_refresh_dkg_part2(sp1s[&meg].clone(), &others::<C, _>(&p1s, &meg)) {
                        for (n1, m1) in &r1_maps {
                            for (n2, m2) in &r2_maps {
                                for (pn, p) in pkp_menus::<C>(&w, 10) {
                                    run!("refresh_dkg_shares", format!("round1={n1} round2={n2} old pkp={pn}"), || C::w_refresh_dkg_shares(&rsp2, m1, m2, p.clone(), w.g.kps[&meg].clone()).is_ok());
                                }
                            }
                        }
                    }
                    let _ = okp;
                }
            }
        }
        "repair" => {
            let lists: Vec<(String, Vec<Id<C>>)> = vec![
                ("honest".into(), w.s.clone()),
                ("empty".into(), vec![]),
                ("only-self".into(), vec![own]),
                ("without-self".into(), vec![w.s[1], w.g.ids[2]]),
                ("duplicates".into(), vec![own, own, w.s[1]]),
                ("all-same".into(), vec![own; 5]),
                ("with-target".into(), vec![own, w.stranger]),
                (format!("huge-{big}"), [vec![own], many_ids::<C>(big)].concat()),
            ];
            for (ln, l) in &lists {
                for (tn, target) in [("stranger", w.stranger), ("self", own), ("peer", w.s[1])] {
                    for ms in [0u16, 1, 2, 65535] {
                        let k2 = KeyPackage::new(*kp.identifier(), *kp.signing_share(), *kp.verifying_share(), *kp.verifying_key(), ms);
                        let mut rng = ScriptedRng::ctr("c14rep");
                        run!("repair_share_part1", format!("helpers={ln} target={tn} own min_signers={ms}"), || C::w_repair1(l, &k2, &mut rng, target).is_ok());
                    }
                }
            }
            let d = Delta::<C>::new(one::<C>());
            for k in [0usize, 1, 2, big * 10] {
                run!("repair_share_part2", format!("{k} deltas"), || {
                    let _ = C::w_repair2(&vec![d; k]);
                    true
                });
                let sg = Sigma::<C>::new(zero::<C>());
                for (pn, p) in pkp_menus::<C>(&w, 10) {
                    run!("repair_share_part3", format!("{k} sigmas pkp={pn}"), || C::w_repair3(&vec![sg; k], w.stranger, &p).is_ok());
                }
            }
        }
        "reconstruct" => {
            let kps: Vec<KeyPackage<C>> = w.g.kps.values().cloned().collect();
            let with_min = |k: &KeyPackage<C>, ms: u16| KeyPackage::new(*k.identifier(), *k.signing_share(), *k.verifying_share(), *k.verifying_key(), ms);
            let mut lists: Vec<(String, Vec<KeyPackage<C>>)> = vec![("honest".into(), kps.clone()), ("empty".into(), vec![]), ("one".into(), vec![kps[0].clone()]), ("duplicates".into(), vec![kps[0].clone(), kps[0].clone(), kps[1].clone()])];
            for ms in [0u16, 1, 65535] {
                lists.push((format!("min_signers={ms}"), kps.iter().map(|k| with_min(k, ms)).collect()));
                lists.push((format!("one-min_signers={ms}"), vec![with_min(&kps[0], ms)]));
            }
            lists.push((format!("huge-{big}"), many_ids::<C>(big).into_iter().map(|id| KeyPackage::new(id, *kps[0].signing_share(), *kps[0].verifying_share(), *kps[0].verifying_key(), 2)).collect()));
            lists.push(("zero-shares".into(), kps.iter().map(|k| KeyPackage::new(*k.identifier(), SigningShare::new(zero::<C>()), *k.verifying_share(), *k.verifying_key(), 2)).collect()));
            for (ln, l) in &lists {
                run!("reconstruct", format!("packages={ln}"), || C::w_reconstruct(l).is_ok());
            }
        }
        "batch" => {
            let sig = fc::aggregate(&w.sess.pkg, &w.sess.shares, &w.g.pkp).expect("sig");
            let vk = *w.g.pkp.verifying_key();
            let sigs: Vec<(String, Signature<C>)> = vec![
                ("honest".into(), sig),
                ("identity-R".into(), Signature::new(ident::<C>(), *sig.z())),
                ("zero-z".into(), Signature::new(*sig.R(), zero::<C>())),
            ];
            let vks = [("honest", vk), ("identity", VerifyingKey::new(ident::<C>()))];
            let mut items = vec![];
            for (sn, sg) in &sigs {
                for (kn, k) in &vks {
                    for (mn, m) in msgs() {
                        let desc = format!("Item::new sig={sn} vk={kn} msg={mn}");
                        let r = guarded(o, tag, "batch::Item::new", &|| desc.clone(), || fc::batch::Item::<C>::new(*k, *sg, &m));
                        o.eval(true);
                        o.count("entry_calls", 1);
                        if let Some(Ok(it)) = r {
                            o.count("returned_ok", 1);
                            let it2 = it.clone();
                            run!("batch::Item::verify_single", desc.clone(), || it2.verify_single().is_ok());
                            items.push(it);
                        } else {
                            o.count("returned_err", 1);
                        }
                    }
                }
            }
            for k in [0usize, 1, items.len(), big] {
                let mut v = fc::batch::Verifier::<C>::new();
                for i in 0..k {
                    if !items.is_empty() {
                        v.queue(items[i % items.len()].clone());
                    }
                }
                let mut rng = ScriptedRng::ctr("c14batch");
                run!("batch::Verifier::verify", format!("{k} items"), || v.verify(&mut rng).is_ok());
            }
        }
        "rerandomized" => {
            for (cn, cm) in commitment_menus::<C>(&w, big) {
                let pkg = SigningPackage::<C>::new(cm.clone(), b"m");
                for (sn, seed) in [("empty", vec![]), ("normal", vec![7u8; 32]), ("1MiB", vec![1u8; 1 << 20])] {
                    run!("sign_with_randomizer_seed", format!("commitments={cn} seed={sn}"), || C::w_rr_sign(&pkg, &w.sess.nonces[&own], &kp, &seed).is_ok());
                    run!("RandomizedParams::regenerate", format!("commitments={cn} seed={sn}"), || frost_rerandomized::RandomizedParams::<C>::regenerate_from_seed_and_commitments(w.g.pkp.verifying_key(), &seed, &cm).is_ok());
                    let mut rng = ScriptedRng::ctr("c14rr");
                    run!("RandomizedParams::new_from_commitments", format!("commitments={cn}"), || frost_rerandomized::RandomizedParams::<C>::new_from_commitments(w.g.pkp.verifying_key(), &cm, &mut rng).is_ok());
                }
                let params = frost_rerandomized::RandomizedParams::<C>::from_randomizer(w.g.pkp.verifying_key(), frost_rerandomized::Randomizer::<C>::from_scalar(zero::<C>()));
                for (sn, sm) in share_menus::<C>(&w, 10) {
                    for (pn, p) in pkp_menus::<C>(&w, 10) {
                        run!("rerandomized::aggregate", format!("commitments={cn} shares={sn} pkp={pn}"), || C::w_rr_aggregate(&pkg, &sm, &p, &params).is_ok());
                    }
                }
            }
        }
        "from_commitments" => {
            let idsets: Vec<(String, BTreeSet<Id<C>>)> = vec![
                ("honest".into(), w.g.ids.iter().copied().collect()),
                ("empty".into(), BTreeSet::new()),
                (format!("huge-{big}"), many_ids::<C>(big).into_iter().collect()),
            ];
            let vm = vss_menus::<C>(&w, 3);
            for (vn, vss) in &vm {
                for (inn, ids) in &idsets {
                    run!("PublicKeyPackage::from_commitment", format!("ids={inn} commitment={vn}"), || PublicKeyPackage::<C>::from_commitment(ids, vss).is_ok());
                }
            }
            for (an, a) in &vm {
                for (bn, b) in &vm {
                    let m: BTreeMap<Id<C>, &VerifiableSecretSharingCommitment<C>> = [(w.s[0], a), (w.s[1], b)].into_iter().collect();
                    run!("PublicKeyPackage::from_dkg_commitments", format!("first={an} second={bn}"), || PublicKeyPackage::<C>::from_dkg_commitments(&m).is_ok());
                }
            }
            let empty: BTreeMap<Id<C>, &VerifiableSecretSharingCommitment<C>> = BTreeMap::new();
            run!("PublicKeyPackage::from_dkg_commitments", "empty map".to_string(), || PublicKeyPackage::<C>::from_dkg_commitments(&empty).is_ok());
            let g_enc = el_bytes::<C>(&G::<C>::generator()).unwrap();
            for len in 0..=(3 * g_enc.len() + 1) {
                let b: Vec<u8> = g_enc.iter().cycle().take(len).copied().collect();
                run!("VssCommitment::deserialize_whole", format!("{len} bytes"), || VerifiableSecretSharingCommitment::<C>::deserialize_whole(&b).is_ok());
            }
            let nested: Vec<Vec<u8>> = vec![vec![], g_enc.clone(), vec![0xff; 1000]];
            run!("VssCommitment::deserialize", "mixed-length entries".to_string(), || VerifiableSecretSharingCommitment::<C>::deserialize(nested.clone()).is_ok());
        }
        "identifiers" => {
            for n in 0..=65535u16 {
                let r = guarded(o, tag, "Identifier::try_from(u16)", &|| format!("{n}"), || Identifier::<C>::try_from(n));
                o.eval(true);
                o.count("entry_calls", 1);
                match r {
                    Some(Ok(id)) => {
                        o.count("returned_ok", 1);
                        if n == 0 {
                            o.fail(format!("{tag}/zero-identifier-accepted"), "Identifier::try_from(0) is Ok".to_string());
                        }
                        let _ = id;
                    }
                    Some(Err(_)) => {
                        o.count("returned_err", 1);
                        if n != 0 {
                            o.fail(format!("{tag}/identifier-refused"), format!("Identifier::try_from({n}) is Err"));
                        }
                    }
                    None => {}
                }
            }
            for (sn, s) in [("empty", vec![]), ("short", b"a".to_vec()), ("1MiB", vec![0u8; 1 << 20])] {
                run!("Identifier::derive", format!("{sn}"), || Identifier::<C>::derive(&s).is_ok());
            }
        }
        other => panic!("unknown entry {other}"),
    }
}
