//! C19 — batch verification accepts exactly the batches whose every item verifies.

use crate::rng::{Dev, ScriptedRng};
use crate::runner::{Outcome, Prop, Tier};
use crate::suites::{REAL_SUITES, Suite};
use crate::tiny::{Sc, Tiny};
use crate::util::*;
use crate::with_suite;
use frost_core as fc;
use frost_core::batch::{Item, Verifier};
use frost_core::{Signature, SigningKey, VerifyingKey};
use serde::{Deserialize, Serialize};
use serde_json::Value;

pub struct C19;

#[derive(Serialize, Deserialize, Clone, Copy, Debug, PartialEq, Eq)]
pub enum Bad {
    WrongMessage,
    WrongKey,
    ZPlusOne,
    RPlusG,
    ROfAnotherItem,
    /// a valid signature under this key for ANOTHER message of the batch
    SignatureOfOtherMessage,
}
const BADS: [Bad; 6] = [Bad::WrongMessage, Bad::WrongKey, Bad::ZPlusOne, Bad::RPlusG, Bad::ROfAnotherItem, Bad::SignatureOfOtherMessage];

#[derive(Serialize, Deserialize, Clone, Debug)]
#[serde(tag = "part")]
enum Case {
    /// all valid / one invalid at every position x kinds, for one batch size and key layout
    Size { suite: String, size: usize, layout: usize, seed: String },
    /// every pair of positions with complementary (cancelling) errors
    Pairs { suite: String, size: usize, layout: usize, seed: String },
    /// tiny field: EVERY blinder vector
    Tiny { q: u64, k: usize, pattern: Vec<i64> },
    /// boundary blinder VALUES (digit-boundary scalars of the multiscalar routine) fed through the
    /// scripted source on the real suites: valid batches accepted, invalid rejected
    BoundaryBlinders { suite: String, seed: String },
}

impl Prop for C19 {
    fn id(&self) -> &'static str {
        "C19"
    }
    fn level(&self) -> &'static str {
        "exploration"
    }
    fn rule(&self) -> String {
        "complete enumeration: suites x batch sizes 0..N x 3 key layouts (all distinct keys; 3 keys round-robin; same key on adjacent items) x 3+ messages: the valid batch; one invalid item at EVERY position x 6 kinds; EVERY pair of positions with complementary errors (z+d, z-d) and with swapped responses; oracle: accept <=> every item verifies individually (VerifyingKey::verify and Item::verify_single agree, incl. Taproot odd-R / odd-key items). Boundary blinder VALUES (digit boundaries of the multiscalar routine: 2^k, 2^k +- 1, q-1, bit patterns, runs across limb boundaries) are injected through the scripted source. Tiny field (the probabilistic clause, exactly): EVERY blinder vector in GF(q)^k through the scripted source: a valid batch is accepted by all q^k vectors, an invalid batch (every error pattern incl. cancelling ones) by at most q^(k-1). Non-trivial = batch of >= 1 item verified".into()
    }
    fn assumptions(&self) -> Vec<String> {
        vec!["on the real curves the 2^-128 bound is inferred from the generic code + one fresh full-width draw per item (C16); it is decided exactly only on the tiny field; a blinder narrowed after a full-width draw would escape".into()]
    }
    fn bound(&self, tier: Tier) -> String {
        format!("sizes 0..{}; pairs for sizes <= {}; tiny q in {{7,11,13}}, k<={}", tier.pick(9, 64), tier.pick(8, 16), tier.pick(3, 4))
    }
    fn required_counters(&self) -> Vec<&'static str> {
        vec!["valid_batches_accepted", "invalid_batches_rejected", "cancelling_pairs_rejected", "tiny_blinder_vectors", "tiny_invalid_patterns"]
    }
    fn cases(&self, tier: Tier, seed: u64) -> Vec<Value> {
        let mut out = vec![];
        let sizes: Vec<usize> = match tier {
            Tier::Quick => (0..=9).chain([17, 32, 300]).collect(),
            Tier::Thorough => (0..=64).chain([128, 300, 1000]).collect(),
        };
        for suite in REAL_SUITES {
            for &size in &sizes {
                for layout in 0..3 {
                    if suite == "ed448" && size > tier.pick(9, 32) {
                        continue;
                    }
                    if size > 64 && layout != 1 {
                        continue;
                    }
                    out.push(serde_json::to_value(Case::Size { suite: suite.to_string(), size, layout, seed: format!("s{seed}") }).unwrap());
                    if size >= 2 && size <= tier.pick(8, 16) {
                        out.push(serde_json::to_value(Case::Pairs { suite: suite.to_string(), size, layout, seed: format!("s{seed}") }).unwrap());
                    }
                }
            }
        }
        for suite in REAL_SUITES {
            out.push(serde_json::to_value(Case::BoundaryBlinders { suite: suite.to_string(), seed: format!("s{seed}") }).unwrap());
        }
        for q in [7u64, 11, 13] {
            for k in 1..=tier.pick(3usize, 4usize) {
                if (q as u64).pow(k as u32) > 30000 {
                    continue;
                }
                // error patterns on z: all vectors over {0, 1, -1, 2} with at least ... (0 vector = valid batch)
                for pat in product(4, k) {
                    let pattern: Vec<i64> = pat.iter().map(|x| [0i64, 1, -1, 2][*x]).collect();
                    out.push(serde_json::to_value(Case::Tiny { q, k, pattern }).unwrap());
                }
            }
        }
        out
    }
    fn run(&self, case: &Value) -> Outcome {
        let c: Case = serde_json::from_value(case.clone()).expect("case");
        match &c {
            Case::Size { suite, .. } | Case::Pairs { suite, .. } => with_suite!(suite.as_str(), run_real, &c),
            Case::BoundaryBlinders { suite, .. } => with_suite!(suite.as_str(), run_boundary, &c),
            Case::Tiny { q, .. } => match q {
                7 => run_tiny::<7>(&c),
                11 => run_tiny::<11>(&c),
                13 => run_tiny::<13>(&c),
                _ => panic!("q"),
            },
        }
    }
}

#[derive(Clone)]
struct Entry<C: Suite> {
    vk: VerifyingKey<C>,
    sig: Signature<C>,
    msg: Vec<u8>,
}

/// keys and signatures of the batch. layout 0: distinct keys; 1: three keys round-robin;
/// 2: pairs of adjacent items share a key. For Taproot both key parities and R parities occur.
fn batch<C: Suite>(size: usize, layout: usize, seed: &str) -> (Vec<Entry<C>>, Vec<SigningKey<C>>) {
    let mut entries = vec![];
    let mut keys = vec![];
    for i in 0..size {
        let kidx = match layout {
            0 => i,
            1 => i % 3,
            _ => i / 2,
        };
        let sk = SigningKey::<C>::from_scalar(sc_seeded_nz::<C>(&format!("{seed}.key{kidx}"))).unwrap();
        let msg = message(i % 4 + if i % 5 == 0 { 7 } else { 0 });
        let mut msg = msg;
        msg.extend_from_slice(format!("#{}", i % 3).as_bytes());
        let mut rng = ScriptedRng::ctr(format!("{seed}.sig{i}"));
        let mut sig = sk.sign(&mut rng, &msg);
        if C::TAPROOT && i % 2 == 1 {
            // the same x-only signature held in memory with the other Y for R (what aggregate() returns for
            // about half of the sessions): VerifyingKey::verify accepts it, so must the batch paths
            sig = Signature::<C>::new(G::<C>::identity() - *sig.R(), *sig.z());
        }
        entries.push(Entry { vk: VerifyingKey::<C>::from(&sk), sig, msg });
        keys.push(sk);
    }
    (entries, keys)
}

fn judge<C: Suite>(o: &mut Outcome, tag: &str, ctx: &str, entries: &[Entry<C>], label: &str) -> bool {
    // reference: conjunction of single verifications
    let mut all = true;
    let mut v = Verifier::<C>::new();
    let mut item_err = false;
    for (i, e) in entries.iter().enumerate() {
        let single = e.vk.verify(&e.msg, &e.sig).is_ok();
        // independent verifier on bytes as well
        if let (Ok(sb), Ok(vb)) = (e.sig.serialize(), e.vk.serialize()) {
            let ext = C::ext_verify(&vb, &e.msg, &sb);
            if ext != single {
                o.fail(format!("{tag}/verify-vs-independent-verifier"), format!("{ctx}: item {i}: library verify={single}, independent={ext}"));
            }
        }
        all &= single;
        match Item::<C>::new(e.vk, e.sig, &e.msg) {
            Ok(it) => {
                let vs = it.clone().verify_single().is_ok();
                if vs != single {
                    o.fail(format!("{tag}/verify_single-disagrees"), format!("{ctx}: item {i}: verify_single={vs} but VerifyingKey::verify={single}"));
                }
                v.queue(it);
            }
            Err(_) => {
                item_err = true;
                if single {
                    o.fail(format!("{tag}/item-refused"), format!("{ctx}: Item::new refused a valid item {i}"));
                }
            }
        }
    }
    if item_err {
        return all;
    }
    let mut rng = ScriptedRng::ctr(format!("blinders:{label}"));
    let got = v.verify(&mut rng).is_ok();
    let expect = all && !entries.is_empty();
    o.eval(!entries.is_empty());
    if got != expect {
        o.fail(
            format!("{tag}/{}", if expect { "valid-batch-rejected" } else if entries.is_empty() { "empty-batch-accepted" } else { "invalid-batch-accepted" }),
            format!("{ctx}: batch verification returned ok={got}, every item verifies={all}, size={}", entries.len()),
        );
    }
    if expect {
        o.count("valid_batches_accepted", 1);
    } else {
        o.count("invalid_batches_rejected", 1);
    }
    all
}

fn run_real<C: Suite>(c: &Case) -> Outcome {
    let mut o = Outcome::new();
    let tag = format!("C19/{}", C::name());
    match c {
        Case::Size { size, layout, seed, .. } => {
            let (entries, keys) = batch::<C>(*size, *layout, seed);
            let ctx = format!("size={size} layout={layout}");
            if !judge::<C>(&mut o, &tag, &format!("{ctx} all-valid"), &entries, "valid") && *size > 0 {
                o.fail(format!("{tag}/MACHINERY-base-batch-invalid"), ctx.clone());
                return o;
            }
            // the queue order must not matter for a valid batch: reversed
            if *size > 1 {
                let mut r = entries.clone();
                r.reverse();
                judge::<C>(&mut o, &tag, &format!("{ctx} all-valid reversed"), &r, "valid-rev");
            }
            for pos in 0..*size {
                if *size > 64 && !(pos == 0 || pos == 127 || pos == 128 || pos == 255 || pos == 256 || pos + 1 == *size) {
                    continue;
                }
                for bad in BADS {
                    let mut e = entries.clone();
                    let other = (pos + 1) % *size;
                    match bad {
                        Bad::WrongMessage => e[pos].msg.push(b'!'),
                        Bad::WrongKey => e[pos].vk = VerifyingKey::<C>::new(e[pos].vk.to_element() + G::<C>::generator()),
                        Bad::ZPlusOne => e[pos].sig = Signature::<C>::new(*e[pos].sig.R(), *e[pos].sig.z() + one::<C>()),
                        Bad::RPlusG => e[pos].sig = Signature::<C>::new(*e[pos].sig.R() + G::<C>::generator(), *e[pos].sig.z()),
                        Bad::ROfAnotherItem => {
                            if other == pos {
                                continue;
                            }
                            e[pos].sig = Signature::<C>::new(*entries[other].sig.R(), *e[pos].sig.z())
                        }
                        Bad::SignatureOfOtherMessage => {
                            let mut rng = ScriptedRng::ctr(format!("{seed}.other{pos}"));
                            e[pos].sig = keys[pos].sign(&mut rng, b"a different message");
                        }
                    }
                    let all = judge::<C>(&mut o, &tag, &format!("{ctx} item {pos} {bad:?}"), &e, &format!("{pos}{bad:?}"));
                    if all {
                        o.fail(format!("{tag}/MACHINERY-corruption-ineffective"), format!("{ctx}: {bad:?} at {pos} still verifies individually"));
                    }
                }
            }
            o.class(format!("layout{layout}"));
        }
        Case::Pairs { size, layout, seed, .. } => {
            let (entries, _) = batch::<C>(*size, *layout, seed);
            let ctx = format!("size={size} layout={layout}");
            let d = sc_seeded_nz::<C>("delta");
            for a in 0..*size {
                for b in 0..*size {
                    if a == b {
                        continue;
                    }
                    // complementary errors
                    let mut e = entries.clone();
                    e[a].sig = Signature::<C>::new(*e[a].sig.R(), *e[a].sig.z() + d);
                    e[b].sig = Signature::<C>::new(*e[b].sig.R(), *e[b].sig.z() - d);
                    let all = judge::<C>(&mut o, &tag, &format!("{ctx} complementary z errors at {a},{b}"), &e, &format!("{a}.{b}"));
                    if !all {
                        o.count("cancelling_pairs_rejected", 1);
                    }
                    if a < b {
                        // swapped responses, swapped commitments
                        let mut e = entries.clone();
                        let (za, zb) = (*e[a].sig.z(), *e[b].sig.z());
                        e[a].sig = Signature::<C>::new(*e[a].sig.R(), zb);
                        e[b].sig = Signature::<C>::new(*e[b].sig.R(), za);
                        judge::<C>(&mut o, &tag, &format!("{ctx} responses swapped between {a},{b}"), &e, &format!("s{a}.{b}"));
                        let mut e = entries.clone();
                        let (ra, rb) = (*e[a].sig.R(), *e[b].sig.R());
                        e[a].sig = Signature::<C>::new(rb, *e[a].sig.z());
                        e[b].sig = Signature::<C>::new(ra, *e[b].sig.z());
                        judge::<C>(&mut o, &tag, &format!("{ctx} commitments swapped between {a},{b}"), &e, &format!("r{a}.{b}"));
                    }
                }
            }
            o.class("pairs");
        }
        _ => unreachable!(),
    }
    o
}

fn run_tiny<const Q: u64>(c: &Case) -> Outcome {
    let mut o = Outcome::new();
    let Case::Tiny { k, pattern, .. } = c else { unreachable!() };
    type T<const Q: u64> = Tiny<Q>;
    let tag = format!("C19/tiny{Q}");
    // k valid items with distinct keys (two of them sharing a key when k >= 3)
    let mut items = vec![];
    let mut any_invalid = false;
    for i in 0..*k {
        let kidx = if i == 2 { 1 } else { i };
        // search a key/nonce giving a non-degenerate valid signature
        let mut found = None;
        for s in 0..200 {
            let Ok(sk) = SigningKey::<T<Q>>::from_scalar(Sc::<Q>(1 + crate::tiny::tiny_hash(Q - 1, "c19key", format!("{kidx}").as_bytes()))) else { continue };
            let mut rng = ScriptedRng::ctr(format!("c19tiny{i}.{s}"));
            let msg = format!("tiny item {i}");
            let r = std::panic::catch_unwind(std::panic::AssertUnwindSafe(|| sk.sign(&mut rng, msg.as_bytes())));
            let Ok(sig) = r else { continue };
            let vk = VerifyingKey::<T<Q>>::from(&sk);
            if vk.verify(msg.as_bytes(), &sig).is_ok() {
                found = Some((vk, sig, msg));
                break;
            }
        }
        let Some((vk, sig, msg)) = found else {
            o.fail(format!("{tag}/MACHINERY-no-item"), format!("item {i}"));
            return o;
        };
        let e = pattern[i];
        let sig = if e == 0 {
            sig
        } else {
            any_invalid = true;
            let delta = Sc::<Q>(((e % Q as i64 + Q as i64) % Q as i64) as u64);
            Signature::<T<Q>>::new(*sig.R(), *sig.z() + delta)
        };
        match Item::<T<Q>>::new(vk, sig, msg.as_bytes()) {
            Ok(it) => items.push(it),
            Err(e) => {
                o.fail(format!("{tag}/MACHINERY-item"), format!("{e:?}"));
                return o;
            }
        }
    }
    // every blinder vector
    let mut accepted = 0u64;
    let mut total = 0u64;
    for bv in product(Q as usize, *k) {
        let mut rng = ScriptedRng::ctr("unused");
        for (j, b) in bv.iter().enumerate() {
            rng = rng.with_dev(j, Dev::Bytes((*b as u32).to_le_bytes().to_vec()));
        }
        let mut v = Verifier::<T<Q>>::new();
        for it in &items {
            v.queue(it.clone());
        }
        let r = v.verify(&mut rng);
        total += 1;
        o.eval(true);
        o.count("tiny_blinder_vectors", 1);
        if rng.calls.len() != *k {
            o.fail(format!("{tag}/blinder-draws"), format!("{} draws for {k} items", rng.calls.len()));
            return o;
        }
        if r.is_ok() {
            accepted += 1;
        }
    }
    let ctx = format!("tiny q={Q} k={k} error pattern on z={pattern:?}");
    if !any_invalid {
        if accepted != total {
            o.fail(format!("{tag}/valid-batch-rejected-for-some-blinders"), format!("{ctx}: accepted by {accepted} of {total} blinder vectors"));
        }
        o.class("tiny-valid");
    } else {
        o.count("tiny_invalid_patterns", 1);
        let bound = total / Q;
        if accepted > bound {
            o.fail(
                format!("{tag}/invalid-batch-accepted-too-often"),
                format!("{ctx}: accepted by {accepted} of {total} blinder vectors, bound q^(k-1) = {bound} (blinders reused / shared / an item skipped)"),
            );
        }
        if accepted != bound {
            // exactly a hyperplane is expected; fewer is not a violation but is recorded
            o.count("tiny_accept_below_hyperplane", 1);
        }
        o.class("tiny-invalid");
    }
    o
}


/// bytes that make `Field::random` return exactly `v` under the scripted source (calibrated on the
/// suite itself: little-endian padded to the draw size, or big-endian), None if neither works
fn bytes_for_scalar<C: Suite>(v: &frost_core::Scalar<C>) -> Option<Vec<u8>> {
    let enc = sc_bytes::<C>(v);
    let one_enc = sc_bytes::<C>(&one::<C>());
    let little = one_enc[0] == 1;
    let mut probe = ScriptedRng::ctr("probe");
    let _ = F::<C>::random(&mut probe);
    if probe.calls.len() != 1 {
        return None;
    }
    let draw = probe.calls[0].bytes.len();
    let mut cands: Vec<Vec<u8>> = vec![];
    let le: Vec<u8> = if little { enc.clone() } else { enc.iter().rev().copied().collect() };
    let mut a = le.clone();
    a.resize(draw.max(a.len()), 0);
    a.truncate(draw);
    cands.push(a.clone());
    let mut b: Vec<u8> = le.iter().rev().copied().collect();
    while b.len() < draw {
        b.insert(0, 0);
    }
    cands.push(b);
    for c in cands {
        let mut rng = ScriptedRng::ctr("x").with_dev(0, Dev::Bytes(c.clone()));
        if F::<C>::random(&mut rng) == *v && rng.calls.len() == 1 {
            return Some(c);
        }
    }
    None
}

fn boundary_scalars<C: Suite>() -> Vec<(String, frost_core::Scalar<C>)> {
    let mut v: Vec<(String, frost_core::Scalar<C>)> = vec![];
    for k in [0u64, 1, 2, 3, 7, 8, 9, 15, 16, 17, 31, 32, 33, 255, 256, 257] {
        v.push((format!("{k}"), sc_u64::<C>(k)));
    }
    let bits = sc_bytes::<C>(&one::<C>()).len() as u32 * 8;
    for k in [4u32, 5, 10, 59, 60, 63, 64, 65, 69, 70, 127, 128, 129, 191, 192, 193, 245, 249, 250, 251] {
        if k + 4 < bits {
            v.push((format!("2^{k}-1"), pow2::<C>(k) - one::<C>()));
            v.push((format!("2^{k}"), pow2::<C>(k)));
            v.push((format!("2^{k}+1"), pow2::<C>(k) + one::<C>()));
            v.push((format!("2^{k}+2^{}-1", k - 3), pow2::<C>(k) + pow2::<C>(k - 3) - one::<C>()));
        }
    }
    v.push(("q-1".into(), neg::<C>(one::<C>())));
    v.push(("q-2".into(), neg::<C>(sc_u64::<C>(2))));
    v.push(("q-16".into(), neg::<C>(sc_u64::<C>(16))));
    v.push(("q-17".into(), neg::<C>(sc_u64::<C>(17))));
    // bit patterns: 0x55.., 0xAA.., 0x0F.., 0xFF.. (reduced by construction through arithmetic)
    for (name, byte) in [("0x55..", 0x55u64), ("0xaa..", 0xaa), ("0x0f..", 0x0f), ("0xff..", 0xff), ("0x80..", 0x80), ("0x11..", 0x11)] {
        let mut acc = zero::<C>();
        let b256 = sc_u64::<C>(256);
        for _ in 0..(bits / 8 - 1) {
            acc = acc * b256 + sc_u64::<C>(byte);
        }
        v.push((name.to_string(), acc));
    }
    // runs of ones crossing 64-bit limb boundaries
    v.push(("2^70-2^58".into(), pow2::<C>(70) - pow2::<C>(58)));
    v.push(("2^134-2^122".into(), pow2::<C>(134) - pow2::<C>(122)));
    v.push(("2^198-2^186".into(), pow2::<C>(198) - pow2::<C>(186)));
    v
}

fn run_boundary<C: Suite>(c: &Case) -> Outcome {
    let mut o = Outcome::new();
    let Case::BoundaryBlinders { seed, .. } = c else { unreachable!() };
    let tag = format!("C19/{}", C::name());
    let (entries, _) = batch::<C>(2, 0, seed);
    let mk = |e: &[Entry<C>]| -> Option<Verifier<C>> {
        let mut v = Verifier::<C>::new();
        for x in e {
            v.queue(Item::<C>::new(x.vk, x.sig, &x.msg).ok()?);
        }
        Some(v)
    };
    let mut bad = entries.clone();
    bad[1].sig = Signature::<C>::new(*bad[1].sig.R(), *bad[1].sig.z() + one::<C>());
    for (name, sc) in boundary_scalars::<C>() {
        let Some(bytes) = bytes_for_scalar::<C>(&sc) else {
            o.count("boundary_values_not_injectable", 1);
            continue;
        };
        for pos in 0..2 {
            for (valid, set) in [(true, &entries), (false, &bad)] {
                let Some(v) = mk(set) else {
                    o.machinery_error("items");
                    return o;
                };
                let mut rng = ScriptedRng::ctr(format!("bb:{name}")).with_dev(pos, Dev::Bytes(bytes.clone()));
                let got = v.verify(&mut rng).is_ok();
                o.eval(true);
                o.count("boundary_blinder_runs", 1);
                // a zero blinder on the invalid item legitimately hides it (probability 2^-252 in reality)
                let zero_on_bad = !valid && pos == 1 && sc == zero::<C>();
                if got != valid && !zero_on_bad {
                    o.fail(
                        format!("{tag}/boundary-blinder/{}", if valid { "valid-batch-rejected" } else { "invalid-batch-accepted" }),
                        format!("blinder value {name} at item {pos}: batch verification returned ok={got} for a batch that is {}", if valid { "valid" } else { "invalid" }),
                    );
                }
            }
        }
    }
    // raw source answers outside the scalar range, none congruent to 0 (all ones; order + 1, in both byte
    // orders): whatever the suite does with them (reduce, or draw again), the verdict must not change
    let qm1 = sc_bytes::<C>(&neg::<C>(one::<C>()));
    let mut raws: Vec<(String, Vec<u8>)> = vec![("0xff-bytes".into(), vec![0xff; 256])];
    for (nm, add) in [("q+1", 2u8)] {
        let mut a = qm1.clone();
        let l = a.len();
        a[0] = a[0].wrapping_add(add);
        let mut b = qm1.clone();
        b[l - 1] = b[l - 1].wrapping_add(add);
        let mut ar = a.clone();
        ar.reverse();
        let mut br = b.clone();
        br.reverse();
        for (j, x) in [a, b, ar, br].into_iter().enumerate() {
            raws.push((format!("{nm}#{j}"), x));
        }
    }
    for (name, bytes) in raws {
        for pos in 0..2 {
            for (valid, set) in [(true, &entries), (false, &bad)] {
                let Some(v) = mk(set) else {
                    o.machinery_error("items");
                    return o;
                };
                let mut rng = ScriptedRng::ctr(format!("bb:{name}")).with_dev(pos, Dev::Bytes(bytes.clone()));
                // what the suite makes of this answer (machinery: a zero here would legitimately hide the item)
                let as_scalar = {
                    let mut r = ScriptedRng::ctr("x").with_dev(0, Dev::Bytes(bytes.clone()));
                    let s = F::<C>::random(&mut r);
                    (s, r.calls.len())
                };
                let got = v.verify(&mut rng).is_ok();
                o.eval(true);
                o.count("out_of_range_blinder_answers", 1);
                if got != valid {
                    o.fail(
                        format!("{tag}/boundary-blinder/{}", if valid { "valid-batch-rejected" } else { "invalid-batch-accepted" }),
                        format!("source answer {name} at item {pos} (Field::random makes zero of it: {}, draws: {}): batch verification returned ok={got} for a batch that is {}", as_scalar.0 == zero::<C>(), as_scalar.1, if valid { "valid" } else { "invalid" }),
                    );
                }
            }
        }
    }
    o.class("boundary-blinders");
    o
}
