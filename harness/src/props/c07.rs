//! C07 — honest distributed key generation ends with one group key and matching shares.

use crate::runner::{Outcome, Prop, Tier};
use crate::suites::{Id, REAL_SUITES, Suite};
use crate::util::*;
use crate::with_suite;
use frost_core as fc;
use frost_core::{Element, Scalar};
use serde::{Deserialize, Serialize};
use serde_json::Value;
use sha2::{Digest, Sha256};
use std::collections::BTreeMap;

pub struct C07;

#[derive(Serialize, Deserialize, Clone, Debug)]
struct Case {
    suite: String,
    n: u16,
    t: u16,
    idkind: IdKind,
    seed: String,
    /// very large threshold: only the first and the last participant run part 3 (everybody runs parts 1
    /// and 2; round-one packages cross the wire); no subset enumeration
    #[serde(default)]
    partial: bool,
    /// the first participant's polynomial has a ROOT at the second participant's identifier (and, for t >= 3,
    /// a zero second coefficient would not be encodable, so only t = 2 shapes): the round-two share it sends
    /// there is legitimately the zero scalar
    #[serde(default)]
    zero_share: bool,
}

impl Prop for C07 {
    fn id(&self) -> &'static str {
        "C07"
    }
    fn level(&self) -> &'static str {
        "exploration"
    }
    fn rule(&self) -> String {
        "complete enumeration: suites x all (n,t) up to the bound x 5 identifier kinds (non-contiguous, derived, arbitrary scalars; every participant's view is checked, so each is smallest / middle / largest somewhere) x seeds, full three-part run through each crate's wrappers (incl. tiny field); oracles: identical public packages, package consistency, group key = sum of constant-term commitments (Taproot: BIP-341 tweak recomputed with libsecp256k1), entries = summed commitment polynomial evaluated independently, EVERY t-subset interpolates to the key and signs; plus t = n = 20 and (40,2) groups. Non-trivial = all n participants completed part3".into()
    }
    fn assumptions(&self) -> Vec<String> {
        vec!["per-participant polynomials are seeded streams (all values are covered for dealer sharing in C06 on the tiny field; the DKG sums the same evaluations)".into()]
    }
    fn bound(&self, tier: Tier) -> String {
        format!("n<={} (ed448 n<={}), all t, 5 id kinds, {} seed(s)", tier.pick(5, 8), tier.pick(4, 6), tier.pick(1, 3))
    }
    fn required_counters(&self) -> Vec<&'static str> {
        vec!["dkg_completed", "t_subsets_interpolated", "sessions_aggregated"]
    }
    fn cases(&self, tier: Tier, seed: u64) -> Vec<Value> {
        let mut out = vec![];
        let nmax = tier.pick(5u16, 8u16);
        for (n, t) in super::c01::shapes(nmax) {
            for suite in REAL_SUITES.iter().copied().chain(["tiny11", "tiny13"]) {
                if suite == "ed448" && n > tier.pick(4, 6) {
                    continue;
                }
                for idkind in ALL_IDKINDS {
                    if n >= 6 && !(idkind == IdKind::Seq || idkind == IdKind::Mixed) {
                        continue;
                    }
                    for k in 0..tier.pick(1, 3) {
                        out.push(serde_json::to_value(Case { suite: suite.to_string(), n, t, idkind, seed: format!("s{seed}.{k}"), partial: false, zero_share: false }).unwrap());
                    }
                }
            }
        }
        // larger groups: t = n = 20 and (40, 2) (ed448: 12 / 20)
        for suite in REAL_SUITES {
            let (a, b) = if suite == "ed448" { (12u16, 20u16) } else { (20u16, 40u16) };
            out.push(serde_json::to_value(Case { suite: suite.to_string(), n: a, t: a, idkind: IdKind::Mixed, seed: format!("s{seed}.big"), partial: false, zero_share: false }).unwrap());
            out.push(serde_json::to_value(Case { suite: suite.to_string(), n: b, t: 2, idkind: IdKind::U16x, seed: format!("s{seed}.big"), partial: false, zero_share: false }).unwrap());
        }
        for suite in REAL_SUITES {
            for (n, idkind) in [(2u16, IdKind::Seq), (3, IdKind::Seq), (3, IdKind::U16x), (4, IdKind::Derived)] {
                out.push(serde_json::to_value(Case { suite: suite.to_string(), n, t: 2, idkind, seed: format!("s{seed}.zero"), partial: false, zero_share: true }).unwrap());
            }
        }
        // thresholds above 255 (ed25519 in the quick tier)
        for suite in if tier == Tier::Thorough { vec!["ed25519", "secp256k1-tr", "p256"] } else { vec!["ed25519"] } {
            out.push(serde_json::to_value(Case { suite: suite.to_string(), n: 257, t: 256, idkind: IdKind::Seq, seed: format!("s{seed}.t256"), partial: true, zero_share: false }).unwrap());
        }
        out
    }
    fn run(&self, case: &Value) -> Outcome {
        let c: Case = serde_json::from_value(case.clone()).expect("case");
        with_suite!(c.suite.as_str(), run_case, &c)
    }
}

pub fn tagged_hash(tag: &str, parts: &[&[u8]]) -> [u8; 32] {
    let th = Sha256::digest(tag.as_bytes());
    let mut h = Sha256::new();
    h.update(th);
    h.update(th);
    for p in parts {
        h.update(p);
    }
    h.finalize().into()
}

/// BIP-341 output key from an internal key (33-byte SEC1) and optional merkle root, by libsecp256k1.
/// Returns (x-only output key, output parity odd, tweak bytes).
pub fn bip341_output_key(internal_sec1: &[u8], merkle_root: Option<&[u8]>) -> Option<([u8; 32], bool, [u8; 32])> {
    use secp256k1::{Scalar as SScalar, Secp256k1, XOnlyPublicKey};
    let x: [u8; 32] = internal_sec1[1..].try_into().ok()?;
    let t = match merkle_root {
        None => tagged_hash("TapTweak", &[&x]),
        Some(r) => tagged_hash("TapTweak", &[&x, r]),
    };
    let secp = Secp256k1::verification_only();
    let pk = XOnlyPublicKey::from_byte_array(x).ok()?;
    let tw = SScalar::from_be_bytes(t).ok()?;
    let (q, parity) = pk.add_tweak(&secp, &tw).ok()?;
    Some((q.serialize(), parity == secp256k1::Parity::Odd, t))
}

/// parts 1 and 2 for everybody, in parallel; every round-one package crosses the wire (binary for even
/// positions, JSON for odd ones) before anybody uses it
fn dkg_run_parallel_wire<C: Suite>(n: u16, t: u16, idlist: &[Id<C>], seed: &str) -> Result<DkgRun<C>, String> {
    use rayon::prelude::*;
    let (sp1, p1) = dkg_round1::<C>(n, t, idlist, seed)?;
    let mut p1w = BTreeMap::new();
    for (k, (id, p)) in p1.iter().enumerate() {
        let d = if k % 2 == 0 {
            p.serialize().ok().and_then(|b| fc::keys::dkg::round1::Package::<C>::deserialize(&b).ok())
        } else {
            serde_json::to_string(p).ok().and_then(|j| serde_json::from_str(&j).ok())
        };
        p1w.insert(*id, d.ok_or_else(|| format!("round-one package of participant #{k} does not survive its own encoding"))?);
    }
    let r: Vec<Result<_, String>> = idlist
        .par_iter()
        .map(|id| {
            let r1 = others::<C, _>(&p1w, id);
            C::w_part2(sp1[id].clone(), &r1).map(|(s, p)| (*id, s, p)).map_err(e2s("part2"))
        })
        .collect();
    let mut sp2 = BTreeMap::new();
    let mut p2 = BTreeMap::new();
    for x in r {
        let (id, s, p) = x?;
        sp2.insert(id, s);
        p2.insert(id, p);
    }
    let mut ids = idlist.to_vec();
    ids.sort();
    Ok(DkgRun { ids, sp1, p1: p1w, sp2, p2 })
}

/// t = 2: the numerically first participant uses f(x) = a0 + a1 x with a1 = -a0 / x2, x2 the second participant's
/// identifier, so f(x2) = 0; everything else is an ordinary honest run through the crate wrappers.
fn dkg_run_zero_share<C: Suite>(n: u16, idlist: &[Id<C>], seed: &str) -> Result<DkgRun<C>, String> {
    use frost_core::Field;
    let (mut sp1, mut p1) = dkg_round1::<C>(n, 2, idlist, seed)?;
    let mut ids = idlist.to_vec();
    ids.sort();
    let (first, second) = (ids[0], ids[1]);
    let a0 = sc_seeded_nz::<C>(&format!("zero-share:{seed}"));
    let x2 = id_scalar::<C>(&second);
    let inv = <F<C> as Field>::invert(&x2).map_err(|_| "invert".to_string())?;
    let a1 = neg::<C>(a0 * inv);
    let coeffs = vec![a0, a1];
    let commitment = fc::keys::VerifiableSecretSharingCommitment::<C>::new(coeffs.iter().map(|c| fc::keys::CoefficientCommitment::new(gen_mul::<C>(*c))).collect());
    let mut rng = crate::rng::ScriptedRng::ctr(format!("zero-share-pok:{seed}"));
    let pok = fc::keys::dkg::compute_proof_of_knowledge(first, &coeffs, &commitment, &mut rng).map_err(e2s("pok"))?;
    sp1.insert(first, fc::keys::dkg::round1::SecretPackage::<C>::new(first, coeffs, commitment.clone(), 2, n));
    p1.insert(first, fc::keys::dkg::round1::Package::<C>::new(commitment, pok));
    let mut sp2 = BTreeMap::new();
    let mut p2 = BTreeMap::new();
    for id in idlist {
        let r1 = others::<C, _>(&p1, id);
        let (s, p) = C::w_part2(sp1[id].clone(), &r1).map_err(e2s("part2"))?;
        sp2.insert(*id, s);
        p2.insert(*id, p);
    }
    // the share is really zero (machinery)
    let z: &BTreeMap<Id<C>, fc::keys::dkg::round2::Package<C>> = &p2[&first];
    if z[&second].signing_share().to_scalar() != zero::<C>() {
        return Err("MACHINERY: the crafted share is not zero".into());
    }
    Ok(DkgRun { ids, sp1, p1, sp2, p2 })
}

fn run_case<C: Suite>(c: &Case) -> Outcome {
    let mut o = Outcome::new();
    let tag = format!("C07/{}", C::name());
    let ctx = format!("n={} t={} ids={:?} seed={}", c.n, c.t, c.idkind, c.seed);
    let idlist = make_ids::<C>(c.idkind, c.n as usize);
    let run = match if c.partial {
        dkg_run_parallel_wire::<C>(c.n, c.t, &idlist, &c.seed)
    } else if c.zero_share {
        dkg_run_zero_share::<C>(c.n, &idlist, &c.seed)
    } else {
        dkg_run::<C>(c.n, c.t, &idlist, &c.seed)
    } {
        Ok(r) => r,
        Err(e) => {
            o.eval(false);
            // a zero coefficient draw legitimately makes the round-one package unusable on the tiny field
            if C::TINY {
                o.class("tiny-degenerate");
                o.count("tiny_degenerate", 1);
                return o;
            }
            o.fail(format!("{tag}/honest-run-failed"), format!("{ctx}: {e}"));
            return o;
        }
    };
    let mut kps = BTreeMap::new();
    let mut pkps = vec![];
    let finishers: Vec<Id<C>> = if c.partial { vec![run.ids[0], *run.ids.last().unwrap()] } else { run.ids.clone() };
    for id in &finishers {
        match C::w_part3(&run.sp2[id], &others::<C, _>(&run.p1, id), &r2_for::<C>(&run, id)) {
            Ok((kp, pkp)) => {
                kps.insert(*id, kp);
                pkps.push(pkp);
            }
            Err(e) => {
                o.eval(false);
                if C::TINY {
                    o.class("tiny-degenerate");
                    o.count("tiny_degenerate", 1);
                    return o;
                }
                o.fail(format!("{tag}/honest-part3-failed"), format!("{ctx}: participant {}: {e:?}", id_short::<C>(id)));
                return o;
            }
        }
    }
    o.eval(true);
    o.count("dkg_completed", 1);
    let pkp = pkps[0].clone();
    for (i, p) in pkps.iter().enumerate() {
        if *p != pkp {
            o.fail(format!("{tag}/public-packages-differ"), format!("{ctx}: participant #{i} holds a different public key package"));
        }
    }
    if pkp.min_signers() != Some(c.t) {
        o.fail(format!("{tag}/pkp-threshold"), format!("{ctx}: {:?}", pkp.min_signers()));
    }
    if pkp.verifying_shares().keys().copied().collect::<Vec<_>>() != run.ids {
        o.fail(format!("{tag}/pkp-members"), format!("{ctx}: public package does not list exactly the participants"));
    }
    // summed commitments
    let mut sum: Vec<Element<C>> = vec![G::<C>::identity(); c.t as usize];
    for p in run.p1.values() {
        let ce = commitment_elems::<C>(p.commitment());
        if ce.len() != c.t as usize {
            o.fail(format!("{tag}/commitment-length"), format!("{ctx}: {}", ce.len()));
            return o;
        }
        for (k, e) in ce.iter().enumerate() {
            sum[k] = sum[k] + *e;
        }
    }
    // expected key and entries, with the Taproot normalisation + key-path-only tweak
    let p_el = sum[0];
    let mut flip = false;
    let mut tweak_s: Scalar<C> = zero::<C>();
    let mut expected_key = p_el;
    if C::TAPROOT {
        let pb = el_bytes::<C>(&p_el).expect("P");
        match bip341_output_key(&pb, None) {
            Some((qx, q_odd, t)) => {
                flip = pb[0] == 3;
                tweak_s = sc_from_bytes::<C>(&t).expect("tweak < n");
                let base = if flip { G::<C>::identity() - p_el } else { p_el };
                expected_key = base + gen_mul::<C>(tweak_s);
                let got = el_bytes::<C>(&pkp.verifying_key().to_element()).expect("vk");
                if got[1..] != qx || (got[0] == 3) != q_odd {
                    o.fail(format!("{tag}/taproot-output-key"), format!("{ctx}: DKG group key is not the BIP-341 key-path-only output key computed by libsecp256k1"));
                } else {
                    o.count("taproot_tweak_checked", 1);
                    o.count(&format!("internal_odd={flip} output_odd={q_odd}"), 1);
                }
            }
            None => o.fail(format!("{tag}/MACHINERY-libsecp"), "add_tweak failed".to_string()),
        }
    }
    if pkp.verifying_key().to_element() != expected_key {
        o.fail(format!("{tag}/group-key-not-sum-of-constant-terms"), format!("{ctx}: group key != sum of the participants' constant-term commitments"));
    }
    for (id, kp) in &kps {
        let s = kp.signing_share().to_scalar();
        let gs = gen_mul::<C>(s);
        let ev = ref_eval_commitment::<C>(id_scalar::<C>(id), &sum);
        let want = (if flip { G::<C>::identity() - ev } else { ev }) + gen_mul::<C>(tweak_s);
        let entry = pkp.verifying_shares().get(id).map(|v| v.to_element());
        if entry != Some(want) {
            o.fail(format!("{tag}/entry-off-sum-polynomial"), format!("{ctx}: public-package entry of {} != summed commitment polynomial at its identifier", id_short::<C>(id)));
        }
        if kp.verifying_share().to_element() != gs || entry != Some(gs) {
            o.fail(format!("{tag}/key-package-inconsistent"), format!("{ctx}: participant {}: verifying share / G*share / public entry differ", id_short::<C>(id)));
        }
        if kp.verifying_key() != pkp.verifying_key() || *kp.min_signers() != c.t || kp.identifier() != id {
            o.fail(format!("{tag}/key-package-fields"), format!("{ctx}: participant {}", id_short::<C>(id)));
        }
    }
    // every t-subset interpolates to the key and signs
    let m = message(2);
    let all_subsets: Vec<u32> = if c.partial {
        o.count("partial_runs", 1);
        vec![]
    } else if c.n <= 8 {
        subsets(c.n as usize, c.t as usize, c.t as usize)
    } else if c.n <= 31 {
        // big shapes: the first t, the last t
        vec![(1u32 << c.t) - 1, ((1u32 << c.t) - 1) << (c.n - c.t)]
    } else {
        vec![(1u32 << c.t) - 1]
    };
    for sm in all_subsets {
        let sel = pick::<C>(&run.ids, sm);
        let xs: Vec<_> = sel.iter().map(|i| id_scalar::<C>(i)).collect();
        let mut acc = zero::<C>();
        for i in &sel {
            acc = acc + ref_lagrange::<C>(&xs, id_scalar::<C>(i), None) * kps[i].signing_share().to_scalar();
        }
        if gen_mul::<C>(acc) != pkp.verifying_key().to_element() {
            o.fail(format!("{tag}/t-subset-off-key"), format!("{ctx}: subset {sm:b} does not interpolate to the group key"));
        }
        o.count("t_subsets_interpolated", 1);
        if C::TINY {
            // degenerate sessions are legitimate on the tiny field (C01 handles them exactly)
            if let Ok(sess) = run_session::<C>(&kps, &sel, &m, &format!("{}:{sm}", c.seed)) {
                if let Ok(sig) = fc::aggregate(&sess.pkg, &sess.shares, &pkp) {
                    if verify_everywhere::<C>(pkp.verifying_key(), &m, &sig).is_err() {
                        o.fail(format!("{tag}/signature-does-not-verify"), format!("{ctx}: subset {sm:b}"));
                    }
                    o.count("sessions_aggregated", 1);
                }
            }
        } else {
            super::c01::session_check::<C>(&mut o, &tag, &kps, &pkp, &sel, &m, &format!("{}:{sm}", c.seed));
        }
    }
    o.class("completed");
    o
}
