//! C11 — share repair returns exactly the lost share and needs a threshold of helpers.

use crate::rng::{Dev, ScriptedRng};
use crate::runner::{Outcome, Prop, Tier};
use crate::suites::{Id, REAL_SUITES, Suite};
use crate::tiny::{Sc, Tiny};
use crate::util::*;
use crate::with_suite;
use frost_core as fc;
use frost_core::Identifier;
use frost_core::keys::repairable::{Delta, Sigma};
use serde::{Deserialize, Serialize};
use serde_json::Value;
use std::collections::BTreeMap;

pub struct C11;

#[derive(Serialize, Deserialize, Clone, Debug)]
#[serde(tag = "layer")]
enum Case {
    Real {
        suite: String,
        n: u16,
        t: u16,
        idkind: IdKind,
        src: KeySrc,
        /// index of the repaired participant in the group's id list, or n.. for new identifiers
        target: usize,
        /// helper set as bitmask over the group's id list
        helpers: u32,
        seed: String,
    },
    Refusals { suite: String, n: u16, t: u16, seed: String },
    /// a large helper set (all other participants of a group of n)
    ManyHelpers { suite: String, n: u16, t: u16, seed: String },
    /// repair in a group that went through a refresh first: with the refreshed public key package, with a
    /// legacy (threshold-less) package upgraded by the distributed refresh, and with a public key package
    /// that predates the refresh (group key and threshold are all part 3 needs from it)
    AfterRefresh { suite: String, n: u16, t: u16, kind: String, target: usize, seed: String },
    /// every blinding vector on the tiny field
    Tiny { q: u64, n: u16, t: u16, target: u64, helpers: u32 },
}

impl Prop for C11 {
    fn id(&self) -> &'static str {
        "C11"
    }
    fn level(&self) -> &'static str {
        "exploration"
    }
    fn rule(&self) -> String {
        "complete enumeration: suites x (n,t) x id kinds x EVERY repaired identifier (each existing participant, three new ones) x EVERY helper set with t<=|H| not containing the target, through the three parts via the crate wrappers; refusals (|H|=t-1, every duplicated position, caller omitted); large helper sets (59 helpers; t = n-1 = 29); tiny field: EVERY blinding vector. Non-trivial = part3 produced a key package".into()
    }
    fn assumptions(&self) -> Vec<String> {
        vec!["blinding values on real curves are seeded streams; all values only on the tiny field".into()]
    }
    fn bound(&self, tier: Tier) -> String {
        format!("n<={}, all t, every target x every helper set; tiny q in {{7,11}} |H|<={}", tier.pick(6, 8), tier.pick(3, 4))
    }
    fn required_counters(&self) -> Vec<&'static str> {
        vec!["repairs_existing", "repairs_new_id", "refusals", "tiny_blinding_vectors"]
    }
    fn cases(&self, tier: Tier, seed: u64) -> Vec<Value> {
        let mut out = vec![];
        let nmax = tier.pick(6u16, 8u16);
        for (n, t) in super::c01::shapes(nmax) {
            if n < 3 && t == n {
                // n=2,t=2: helpers must exclude the target -> only new-id repair possible; keep
            }
            for suite in REAL_SUITES {
                if suite == "ed448" && n > tier.pick(5, 6) {
                    continue;
                }
                for idkind in [IdKind::Seq, IdKind::U16x, IdKind::Derived] {
                    if tier == Tier::Quick && n >= 5 && idkind == IdKind::Derived {
                        continue;
                    }
                    for src in [KeySrc::Dealer, KeySrc::Dkg] {
                        if src == KeySrc::Dkg && (n > tier.pick(3, 4) || idkind != IdKind::U16x) {
                            continue;
                        }
                        for target in 0..(n as usize + 3) {
                            for h in subsets(n as usize, t as usize, n as usize) {
                                if target < n as usize && h & (1 << target) != 0 {
                                    continue;
                                }
                                if target >= n as usize && tier == Tier::Quick && n >= 4 && h % 2 == 0 {
                                    continue;
                                }
                                out.push(
                                    serde_json::to_value(Case::Real {
                                        suite: suite.to_string(),
                                        n,
                                        t,
                                        idkind,
                                        src,
                                        target,
                                        helpers: h,
                                        seed: format!("s{seed}"),
                                    })
                                    .unwrap(),
                                );
                            }
                        }
                    }
                }
                out.push(
                    serde_json::to_value(Case::Refusals {
                        suite: suite.to_string(),
                        n,
                        t,
                        seed: format!("s{seed}"),
                    })
                    .unwrap(),
                );
            }
        }
        for suite in REAL_SUITES {
            let n = if suite == "ed448" { 20u16 } else { 60u16 };
            for (n2, t2) in [(3u16, 2u16), (4, 3)] {
                if suite == "ed448" && n2 > 3 {
                    continue;
                }
                for kind in ["dealer/refreshed-pkp", "dkg/refreshed-pkp", "dkg/legacy-pkp-upgraded", "dealer/stale-pkp", "dkg/stale-pkp"] {
                    for target in 0..n2 as usize {
                        out.push(serde_json::to_value(Case::AfterRefresh { suite: suite.to_string(), n: n2, t: t2, kind: kind.to_string(), target, seed: format!("s{seed}") }).unwrap());
                    }
                }
            }
            out.push(serde_json::to_value(Case::ManyHelpers { suite: suite.to_string(), n, t: 2, seed: format!("s{seed}") }).unwrap());
            out.push(serde_json::to_value(Case::ManyHelpers { suite: suite.to_string(), n: n / 2, t: n / 2 - 1, seed: format!("s{seed}") }).unwrap());
            if suite != "ed448" {
                // threshold above 255 (two-byte varint in the transported public key package)
                out.push(serde_json::to_value(Case::ManyHelpers { suite: suite.to_string(), n: 260, t: 256, seed: format!("s{seed}") }).unwrap());
            }
        }
        for q in [7u64, 11] {
            for (n, t) in [(3u16, 2u16), (4, 2), (4, 3), (5, 3)] {
                if n as u64 >= q - 1 {
                    continue;
                }
                for h in subsets(n as usize, t as usize, std::cmp::min(n as usize, tier.pick(3, 4))) {
                    for target in 1..q {
                        // target must not be a helper
                        if target <= n as u64 && h & (1 << (target - 1)) != 0 {
                            continue;
                        }
                        if (q as u64).pow(h.count_ones() - 1) > tier.pick(200, 2000) {
                            continue;
                        }
                        out.push(serde_json::to_value(Case::Tiny { q, n, t, target, helpers: h }).unwrap());
                    }
                }
            }
        }
        out
    }
    fn run(&self, case: &Value) -> Outcome {
        let c: Case = serde_json::from_value(case.clone()).expect("case");
        match &c {
            Case::Real { suite, .. } | Case::Refusals { suite, .. } | Case::ManyHelpers { suite, .. } => with_suite!(suite.as_str(), run_real, &c),
            Case::AfterRefresh { suite, .. } => with_suite!(suite.as_str(), run_after_refresh, &c),
            Case::Tiny { q, .. } => match q {
                7 => run_tiny::<7>(&c),
                11 => run_tiny::<11>(&c),
                _ => panic!("q"),
            },
        }
    }
}

fn run_after_refresh<C: Suite>(c: &Case) -> Outcome {
    use super::c10::{Node, refresh_dealer, refresh_dkg};
    let mut o = Outcome::new();
    let Case::AfterRefresh { n, t, kind, target, seed, .. } = c else { unreachable!() };
    let tag = format!("C11/{}", C::name());
    let ctx = format!("n={n} t={t} repair after refresh ({kind}) target #{target}");
    let grp = match cached_group::<C>(KeySrc::Dealer, *n, *t, IdKind::U16x, seed) {
        Ok(g) => g,
        Err(e) => {
            o.eval(false);
            o.fail(format!("{tag}/setup"), e);
            return o;
        }
    };
    let legacy = kind.contains("legacy");
    let old_pkp = if legacy { fc::keys::PublicKeyPackage::<C>::new(grp.pkp.verifying_shares().clone(), *grp.pkp.verifying_key(), None) } else { grp.pkp.clone() };
    let root = Node::<C> { t: *t, kps: grp.kps.clone(), pkp: old_pkp.clone(), prev: None };
    let node = if kind.starts_with("dealer") { refresh_dealer::<C>(&root, &grp.ids, seed) } else { refresh_dkg::<C>(&root, &grp.ids, seed, *t) };
    let node = match node {
        Ok(x) => x,
        Err(e) => {
            o.eval(false);
            o.fail(format!("{tag}/refresh-failed"), format!("{ctx}: {e}"));
            return o;
        }
    };
    o.eval(true);
    let tid = grp.ids[*target];
    // the first t other members help
    let helpers: Vec<Id<C>> = grp.ids.iter().filter(|i| **i != tid).take(*t as usize).copied().collect();
    let mut per_helper: BTreeMap<Id<C>, Vec<Delta<C>>> = BTreeMap::new();
    for h in &helpers {
        let mut rng = ScriptedRng::ctr(format!("c11-after-refresh:{seed}:{}", id_hex::<C>(h)));
        match C::w_repair1(&helpers, &node.kps[h], &mut rng, tid) {
            Ok(d) => {
                for (to, delta) in d {
                    per_helper.entry(to).or_default().push(delta);
                }
            }
            Err(e) => {
                o.fail(format!("{tag}/part1-refused"), format!("{ctx}: {e:?}"));
                return o;
            }
        }
    }
    let sigmas: Vec<Sigma<C>> = helpers.iter().map(|h| C::w_repair2(&per_helper[h])).collect();
    let pkp_for_part3 = if kind.ends_with("stale-pkp") { &old_pkp } else { &node.pkp };
    match C::w_repair3(&sigmas, tid, pkp_for_part3) {
        Ok(kp) => {
            o.count("repairs_after_refresh", 1);
            let want = &node.kps[&tid];
            if kp.signing_share() != want.signing_share() {
                o.fail(format!("{tag}/repaired-share-differs"), format!("{ctx}: the repaired signing share is not the refreshed share of the participant"));
            }
            if kp.verifying_share().to_element() != gen_mul::<C>(kp.signing_share().to_scalar()) {
                o.fail(format!("{tag}/repaired-package-inconsistent"), format!("{ctx}: verifying share of the repaired package != G * its signing share"));
            }
            if kp.verifying_key() != grp.pkp.verifying_key() || *kp.min_signers() != *t || *kp.identifier() != tid {
                o.fail(format!("{tag}/repaired-package-inconsistent"), format!("{ctx}: group key / threshold / identifier wrong in the repaired package"));
            }
            // and it signs with the others under the refreshed public key package
            let mut kps = node.kps.clone();
            kps.insert(tid, kp);
            let mut s: Vec<Id<C>> = vec![tid];
            s.extend(helpers.iter().take(*t as usize - 1));
            s.sort();
            super::c01::session_check::<C>(&mut o, &tag, &kps, &node.pkp, &s, &message(2), &format!("{seed}:after-refresh:{target}"));
        }
        Err(e) => o.fail(format!("{tag}/part3-refused"), format!("{ctx}: {e:?}")),
    }
    o.class("after-refresh");
    o
}

fn new_id<C: Suite>(k: usize, n: u16) -> Id<C> {
    match k {
        0 => Identifier::<C>::try_from(n + 1).unwrap_or_else(|_| Identifier::<C>::try_from(77u16).unwrap()),
        1 => {
            if C::TINY {
                Identifier::<C>::new(neg::<C>(one::<C>())).unwrap()
            } else {
                Identifier::<C>::try_from(65533u16).unwrap()
            }
        }
        _ => Identifier::<C>::derive(b"a brand new participant").unwrap(),
    }
}

/// Run the three repair parts with the given helper set; check every oracle.
fn repair_and_check<C: Suite>(
    o: &mut Outcome,
    tag: &str,
    ctx: &str,
    grp: &Grp<C>,
    helpers: &[Id<C>],
    target: Id<C>,
    existing: bool,
    seed: &str,
    devs_for_first_helper: Option<&[(usize, Dev)]>,
) {
    // part 1 at every helper
    let mut deltas: BTreeMap<Id<C>, BTreeMap<Id<C>, Delta<C>>> = BTreeMap::new();
    let xs: Vec<_> = helpers.iter().map(|i| id_scalar::<C>(i)).collect();
    // present the helper list in a non-sorted order (rotated) to the library
    let mut hlist = helpers.to_vec();
    hlist.rotate_left(1);
    for (hi, h) in helpers.iter().enumerate() {
        let mut rng = ScriptedRng::ctr(format!("repair:{seed}:{}", id_hex::<C>(h)));
        if hi == 0 {
            if let Some(d) = devs_for_first_helper {
                rng = rng.with_devs(d);
            }
        }
        let r = C::w_repair1(&hlist, &grp.kps[h], &mut rng, target);
        let dm = match r {
            Ok(d) => d,
            Err(e) => {
                o.fail(format!("{tag}/part1-failed"), format!("{ctx}: helper {}: {e:?}", id_short::<C>(h)));
                return;
            }
        };
        // key set = helper set
        let ks: Vec<_> = dm.keys().copied().collect();
        let mut hs = helpers.to_vec();
        hs.sort();
        if ks != hs {
            o.fail(format!("{tag}/delta-recipients"), format!("{ctx}: helper {} addressed deltas to a different set than the helpers", id_short::<C>(h)));
            return;
        }
        // sum of deltas = lambda_h(target; H) * s_h  (independent Lagrange)
        let mut sum = zero::<C>();
        for d in dm.values() {
            sum = sum + d.to_scalar();
        }
        let lam = ref_lagrange::<C>(&xs, id_scalar::<C>(h), Some(id_scalar::<C>(&target)));
        if sum != lam * grp.kps[h].signing_share().to_scalar() {
            o.fail(format!("{tag}/delta-sum"), format!("{ctx}: deltas of helper {} do not sum to its Lagrange-weighted share", id_short::<C>(h)));
        }
        deltas.insert(*h, dm);
    }
    // part 2 at every helper
    let mut sigmas = vec![];
    for h in helpers {
        let recv: Vec<Delta<C>> = helpers.iter().map(|from| deltas[from][h]).collect();
        sigmas.push(C::w_repair2(&recv));
    }
    // part 3: the public key package reaches the repairing participant over the wire
    // (toy groups: a share equal to 0 has the identity as verifying share, which has no encoding; those
    // packages are handed over in memory)
    let wire_pkp = match grp.pkp.serialize().ok().and_then(|b| fc::keys::PublicKeyPackage::<C>::deserialize(&b).ok()) {
        Some(p) => p,
        None if C::TINY => grp.pkp.clone(),
        None => {
            o.fail(format!("{tag}/public-key-package-transport"), format!("{ctx}: the public key package does not survive its binary encoding"));
            return;
        }
    };
    let json_pkp = serde_json::to_string(&grp.pkp).ok().and_then(|j| serde_json::from_str::<fc::keys::PublicKeyPackage<C>>(&j).ok());
    if let Some(jp) = &json_pkp {
        if let Ok(kj) = C::w_repair3(&sigmas, target, jp) {
            if *kj.min_signers() != grp.t {
                o.fail(format!("{tag}/repaired-package-inconsistent"), format!("{ctx}: threshold {} after transporting the public key package as JSON", kj.min_signers()));
            }
        }
    }
    let kp = match C::w_repair3(&sigmas, target, &wire_pkp) {
        Ok(k) => k,
        Err(e) => {
            o.fail(format!("{tag}/part3-failed"), format!("{ctx}: {e:?}"));
            return;
        }
    };
    let s = kp.signing_share().to_scalar();
    if existing {
        o.count("repairs_existing", 1);
        let orig = &grp.kps[&target];
        if s != orig.signing_share().to_scalar() {
            o.fail(format!("{tag}/repaired-share-differs"), format!("{ctx}: repaired signing share != lost share"));
        }
        if kp != *orig {
            o.fail(format!("{tag}/repaired-package-differs"), format!("{ctx}: repaired key package != original key package"));
        }
    } else {
        o.count("repairs_new_id", 1);
        // valid new share: lies on the group polynomial. Reference: interpolate from t original shares at target.
        let sel: Vec<_> = grp.ids.iter().take(grp.t as usize).copied().collect();
        let sx: Vec<_> = sel.iter().map(|i| id_scalar::<C>(i)).collect();
        let mut want = zero::<C>();
        for i in &sel {
            want = want + ref_lagrange::<C>(&sx, id_scalar::<C>(i), Some(id_scalar::<C>(&target))) * grp.kps[i].signing_share().to_scalar();
        }
        if s != want {
            o.fail(format!("{tag}/new-share-off-polynomial"), format!("{ctx}: new share is not the group polynomial at the new identifier"));
        }
        if let Some(sh) = &grp.shares {
            let ce = commitment_elems::<C>(sh.values().next().unwrap().commitment());
            if gen_mul::<C>(s) != ref_eval_commitment::<C>(id_scalar::<C>(&target), &ce) {
                o.fail(format!("{tag}/new-share-vs-commitment"), format!("{ctx}: G*share != commitment evaluated at the new identifier"));
            }
        }
    }
    if kp.verifying_share().to_element() != gen_mul::<C>(s)
        || kp.verifying_key() != grp.pkp.verifying_key()
        || *kp.min_signers() != grp.t
        || *kp.identifier() != target
    {
        o.fail(format!("{tag}/repaired-package-inconsistent"), format!("{ctx}: verifying share / group key / threshold / identifier wrong in repaired package"));
    }
    if existing && grp.pkp.verifying_shares().get(&target).map(|v| v.to_element()) != Some(gen_mul::<C>(s)) {
        o.fail(format!("{tag}/repaired-vs-public-package"), format!("{ctx}: repaired verifying share != public key package entry"));
    }
    o.class(if existing { "repaired-existing" } else { "repaired-new" });
}

fn run_real<C: Suite>(c: &Case) -> Outcome {
    let mut o = Outcome::new();
    let tag = format!("C11/{}", C::name());
    match c {
        Case::Real { n, t, idkind, src, target, helpers, seed, .. } => {
            let grp = match cached_group::<C>(*src, *n, *t, *idkind, seed) {
                Ok(g) => g,
                Err(e) => {
                    o.eval(false);
                    o.fail(format!("{tag}/setup"), e);
                    return o;
                }
            };
            let hs = pick::<C>(&grp.ids, *helpers);
            let existing = *target < *n as usize;
            let tid = if existing { grp.ids[*target] } else { new_id::<C>(*target - *n as usize, *n) };
            if !existing && grp.ids.contains(&tid) {
                o.eval(false);
                return o;
            }
            let ctx = format!(
                "n={n} t={t} ids={idkind:?} src={src:?} target={} H={:?}",
                id_short::<C>(&tid),
                hs.iter().map(|i| id_short::<C>(i)).collect::<Vec<_>>()
            );
            o.eval(true);
            repair_and_check::<C>(&mut o, &tag, &ctx, &grp, &hs, tid, existing, &format!("{seed}:{target}:{helpers}"), None);
            // the repaired member signs in a t-subset containing it (existing members, smallest helper prefix)
            if existing && o.findings.is_empty() && *helpers == subsets(*n as usize, *t as usize, *n as usize).into_iter().find(|h| h & (1 << target) == 0).unwrap_or(0) {
                let mut s: Vec<_> = hs.iter().take(*t as usize - 1).copied().collect();
                s.push(tid);
                s.sort();
                super::c01::session_check::<C>(&mut o, &tag, &grp.kps, &grp.pkp, &s, b"after repair", "rep");
            }
        }
        Case::ManyHelpers { n, t, seed, .. } => {
            let made = if *t > 100 {
                // a few hundred participants with a threshold above 255: key packages are assembled from the
                // dealer output without the O(n*t) commitment check (C06 covers that)
                let mut rng = ScriptedRng::ctr(format!("c11big:{seed}"));
                C::w_generate_with_dealer(*n, *t, frost_core::keys::IdentifierList::Default, &mut rng).map_err(e2s("dealer")).map(|(shares, pkp)| {
                    let kps: BTreeMap<Id<C>, fc::keys::KeyPackage<C>> = shares
                        .iter()
                        .map(|(id, s)| (*id, fc::keys::KeyPackage::<C>::new(*id, *s.signing_share(), pkp.verifying_shares()[id], *pkp.verifying_key(), *t)))
                        .collect();
                    Grp { n: *n, t: *t, ids: kps.keys().copied().collect(), kps, pkp, shares: Some(shares), key: None, dkg_r1: None }
                })
            } else {
                make_group::<C>(KeySrc::Dealer, *n, *t, IdKind::U16x, seed)
            };
            let grp = match made {
                Ok(g) => g,
                Err(e) => {
                    o.eval(false);
                    o.fail(format!("{tag}/setup"), e);
                    return o;
                }
            };
            // repair the middle participant with ALL others helping; and a brand-new identifier with everyone helping
            let mid = grp.ids[grp.ids.len() / 2];
            let hs: Vec<_> = grp.ids.iter().filter(|i| **i != mid).copied().collect();
            o.eval(true);
            repair_and_check::<C>(&mut o, &tag, &format!("many helpers n={n} t={t} existing target"), &grp, &hs, mid, true, &format!("{seed}:many"), None);
            let newid = new_id::<C>(2, *n);
            if !grp.ids.contains(&newid) {
                o.eval(true);
                repair_and_check::<C>(&mut o, &tag, &format!("many helpers n={n} t={t} new target"), &grp, &grp.ids, newid, false, &format!("{seed}:manynew"), None);
            }
        }
        Case::Refusals { n, t, seed, .. } => {
            let grp = match cached_group::<C>(KeySrc::Dealer, *n, *t, IdKind::U16x, seed) {
                Ok(g) => g,
                Err(e) => {
                    o.eval(false);
                    o.fail(format!("{tag}/setup"), e);
                    return o;
                }
            };
            let target = new_id::<C>(1, *n);
            // |H| = t-1
            let hs: Vec<_> = grp.ids.iter().take(*t as usize - 1).copied().collect();
            let mut rng = ScriptedRng::ctr("ref");
            o.eval(true);
            if C::w_repair1(&hs, &grp.kps[&hs[0]], &mut rng, target).is_ok() {
                o.fail(format!("{tag}/too-few-helpers-accepted"), format!("n={n} t={t}: {} helpers accepted", hs.len()));
            } else {
                o.count("refusals", 1);
            }
            // duplicates at every pair of positions (|H| = t and t+1 when possible)
            for hl in [*t as usize, std::cmp::min(*t as usize + 1, *n as usize)] {
                let base: Vec<_> = grp.ids.iter().take(hl).copied().collect();
                for a in 0..hl {
                    for b in 0..hl {
                        if a == b {
                            continue;
                        }
                        let mut l = base.clone();
                        l[b] = l[a];
                        // caller = a (still in the list)
                        let mut rng = ScriptedRng::ctr("ref");
                        o.eval(true);
                        if C::w_repair1(&l, &grp.kps[&base[a]], &mut rng, target).is_ok() {
                            o.fail(format!("{tag}/duplicate-helpers-accepted"), format!("n={n} t={t} |H|={hl}: positions {a},{b} duplicated"));
                        } else {
                            o.count("refusals", 1);
                        }
                    }
                }
                // helper list without the caller
                if (hl as u16) < *n {
                    let caller = grp.ids[hl];
                    let mut rng = ScriptedRng::ctr("ref");
                    o.eval(true);
                    if C::w_repair1(&base, &grp.kps[&caller], &mut rng, target).is_ok() {
                        o.fail(format!("{tag}/caller-not-in-helpers-accepted"), format!("n={n} t={t}"));
                    } else {
                        o.count("refusals", 1);
                    }
                }
            }
            // part3 without threshold in the public key package
            let lp = fc::keys::PublicKeyPackage::<C>::new(grp.pkp.verifying_shares().clone(), *grp.pkp.verifying_key(), None);
            let sig = vec![Sigma::<C>::new(one::<C>())];
            o.eval(true);
            if C::w_repair3(&sig, target, &lp).is_ok() {
                o.fail(format!("{tag}/part3-without-threshold"), "repair_share_part3 accepted a public key package without threshold".to_string());
            } else {
                o.count("refusals", 1);
            }
            o.class("refusals");
        }
        _ => unreachable!(),
    }
    o
}

fn run_tiny<const Q: u64>(c: &Case) -> Outcome {
    let mut o = Outcome::new();
    let Case::Tiny { n, t, target, helpers, .. } = c else { unreachable!() };
    type T<const Q: u64> = Tiny<Q>;
    let tag = format!("C11/tiny{Q}");
    let grp = match make_group::<T<Q>>(KeySrc::Dealer, *n, *t, IdKind::Seq, "c11") {
        Ok(g) => g,
        Err(e) => {
            o.eval(false);
            o.fail(format!("{tag}/setup"), e);
            return o;
        }
    };
    let hs = pick::<T<Q>>(&grp.ids, *helpers);
    let tid = Identifier::<T<Q>>::new(Sc::<Q>(*target)).unwrap();
    let existing = *target <= *n as u64;
    for bv in product(Q as usize, hs.len() - 1) {
        let devs: Vec<(usize, Dev)> = bv.iter().enumerate().map(|(k, v)| (k, Dev::Bytes((*v as u32).to_le_bytes().to_vec()))).collect();
        let ctx = format!("tiny q={Q} n={n} t={t} target={target} H={helpers:b} blinding={bv:?}");
        o.eval(true);
        o.count("tiny_blinding_vectors", 1);
        repair_and_check::<T<Q>>(&mut o, &tag, &ctx, &grp, &hs, tid, existing, "tiny", Some(&devs));
        if o.findings.len() > 5 {
            break;
        }
    }
    o
}
