//! C06 — dealer key generation yields consistent, verifiable shares of the given key.

use crate::rng::ScriptedRng;
use crate::runner::{Outcome, Prop, Tier};
use crate::suites::{Id, REAL_SUITES, Suite};
use crate::tiny::{Sc, Tiny};
use crate::util::*;
use crate::with_suite;
use frost_core as fc;
use frost_core::keys::{
    CoefficientCommitment, IdentifierList, KeyPackage, SecretShare, SigningShare,
    VerifiableSecretSharingCommitment,
};
use frost_core::{Identifier, SigningKey};
use serde::{Deserialize, Serialize};
use serde_json::Value;
use std::collections::BTreeMap;

pub struct C06;

#[derive(Serialize, Deserialize, Clone, Debug)]
#[serde(tag = "layer")]
enum Case {
    Group { suite: String, n: u16, t: u16, idkind: IdKind, src: KeySrc, seed: String },
    /// invalid parameters must be refused
    Params { suite: String },
    /// n = 65535 boundary (thorough)
    Huge { suite: String },
    /// custom identifier lists whose members differ in a single bit, every bit position
    IdBits { suite: String, seed: String },
    /// a few hundred participants, thresholds 2 and 40 (quick too)
    Big { suite: String, n: u16, t: u16, seed: String },
    /// all keys x all coefficient vectors on the tiny field
    Tiny { q: u64, n: u16, t: u16, idmask: u32 },
}

impl Prop for C06 {
    fn id(&self) -> &'static str {
        "C06"
    }
    fn level(&self) -> &'static str {
        "exploration"
    }
    fn rule(&self) -> String {
        "complete enumeration: suites x all (n,t) up to the bound x 5 id kinds x {generate, split(1), split(q-1), split(seeded)}; per group: every share verified by independent Lagrange/commitment evaluation, EVERY t-subset reconstructs, EVERY (t-1)-subset with lowered threshold does not, and EVERY single-coordinate tampering of every share (value, identifier, each commitment entry, truncation, extension) must be rejected; u16 boundary parameters; big groups (300 participants t=2; 60 participants t=40); tiny field: all polynomials x all identifier sets. Non-trivial = group generated and at least one tampering executed".into()
    }
    fn assumptions(&self) -> Vec<String> {
        vec!["coefficient values on real curves come from seeded streams; all values only on the tiny field".into()]
    }
    fn bound(&self, tier: Tier) -> String {
        format!("n<={} all t, all t-subsets, all single-coordinate tamperings; tiny q in {{5,7,11}}", tier.pick(6, 8))
    }
    fn required_counters(&self) -> Vec<&'static str> {
        vec!["tamperings_rejected", "t_subsets_reconstructed", "invalid_params_refused", "tiny_polys"]
    }
    fn cases(&self, tier: Tier, seed: u64) -> Vec<Value> {
        let mut out = vec![];
        let nmax = tier.pick(6u16, 8u16);
        for (n, t) in super::c01::shapes(nmax) {
            for suite in REAL_SUITES {
                if suite == "ed448" && n > tier.pick(5, 6) {
                    continue;
                }
                for idkind in ALL_IDKINDS {
                    for src in [KeySrc::Dealer, KeySrc::SplitOne, KeySrc::SplitMinusOne, KeySrc::SplitSeeded] {
                        if tier == Tier::Quick && n >= 5 && !(src == KeySrc::Dealer || src == KeySrc::SplitMinusOne) {
                            continue;
                        }
                        if n >= 7 && !(idkind == IdKind::Seq || idkind == IdKind::Mixed) {
                            continue;
                        }
                        for k in 0..tier.pick(1, 2) {
                            out.push(
                                serde_json::to_value(Case::Group {
                                    suite: suite.to_string(),
                                    n,
                                    t,
                                    idkind,
                                    src,
                                    seed: format!("s{seed}.{k}"),
                                })
                                .unwrap(),
                            );
                        }
                    }
                }
            }
        }
        for suite in REAL_SUITES {
            out.push(serde_json::to_value(Case::Params { suite: suite.to_string() }).unwrap());
        }
        for suite in REAL_SUITES {
            let big = if suite == "ed448" { 120u16 } else { 300u16 };
            out.push(serde_json::to_value(Case::Big { suite: suite.to_string(), n: big, t: 2, seed: format!("s{seed}") }).unwrap());
            out.push(serde_json::to_value(Case::Big { suite: suite.to_string(), n: 60, t: 40, seed: format!("s{seed}") }).unwrap());
            if suite != "ed448" || tier == Tier::Thorough {
                // thresholds on both sides of the one-byte boundary
                out.push(serde_json::to_value(Case::Big { suite: suite.to_string(), n: 257, t: 256, seed: format!("s{seed}") }).unwrap());
                if suite == "ed25519" || tier == Tier::Thorough {
                    out.push(serde_json::to_value(Case::Big { suite: suite.to_string(), n: 258, t: 255, seed: format!("s{seed}") }).unwrap());
                    out.push(serde_json::to_value(Case::Big { suite: suite.to_string(), n: 258, t: 257, seed: format!("s{seed}") }).unwrap());
                }
            }
        }
        for suite in REAL_SUITES {
            out.push(serde_json::to_value(Case::IdBits { suite: suite.to_string(), seed: format!("s{seed}") }).unwrap());
        }
        // the largest group the u16 parameters allow (identifiers 1..=65535)
        for suite in if tier == Tier::Thorough { vec!["ed25519", "secp256k1", "p256"] } else { vec!["ed25519"] } {
            out.push(serde_json::to_value(Case::Huge { suite: suite.to_string() }).unwrap());
        }
        for q in [5u64, 7, 11] {
            let uni = (q - 1) as usize;
            for n in 2..=std::cmp::min(tier.pick(3usize, 4usize), uni) {
                for idmask in subsets(uni, n, n) {
                    if q == 11 && tier == Tier::Quick && idmask % 4 != 0 {
                        continue;
                    }
                    for t in 2..=n as u16 {
                        if q.pow(t as u32) > tier.pick(1500, 15000) {
                            continue;
                        }
                        out.push(serde_json::to_value(Case::Tiny { q, n: n as u16, t, idmask }).unwrap());
                    }
                }
            }
        }
        out
    }
    fn run(&self, case: &Value) -> Outcome {
        let c: Case = serde_json::from_value(case.clone()).expect("case");
        match &c {
            Case::Group { suite, .. } | Case::Params { suite } | Case::Huge { suite } | Case::Big { suite, .. } | Case::IdBits { suite, .. } => {
                with_suite!(suite.as_str(), run_real, &c)
            }
            Case::Tiny { q, .. } => match q {
                5 => run_tiny::<5>(&c),
                7 => run_tiny::<7>(&c),
                11 => run_tiny::<11>(&c),
                _ => panic!("q"),
            },
        }
    }
}

fn run_real<C: Suite>(c: &Case) -> Outcome {
    match c {
        Case::Group { n, t, idkind, src, seed, .. } => run_group::<C>(*n, *t, *idkind, *src, seed),
        Case::Params { .. } => run_params::<C>(),
        Case::Huge { .. } => run_huge::<C>(),
        Case::IdBits { seed, .. } => run_idbits::<C>(seed),
        Case::Big { n, t, seed, .. } => run_big::<C>(*n, *t, seed),
        _ => unreachable!(),
    }
}

/// All dealer-output oracles on one group; also used by the tiny layer.
pub fn check_dealer_output<C: Suite>(
    o: &mut Outcome,
    tag: &str,
    ctx: &str,
    n: u16,
    t: u16,
    want_ids: &[Id<C>],
    key: Option<frost_core::Scalar<C>>,
    shares: &BTreeMap<Id<C>, SecretShare<C>>,
    pkp: &fc::keys::PublicKeyPackage<C>,
    do_tamper: bool,
) {
    // identifier set
    let mut want: Vec<_> = want_ids.to_vec();
    want.sort();
    let got: Vec<_> = shares.keys().copied().collect();
    if got != want || pkp.verifying_shares().keys().copied().collect::<Vec<_>>() != want {
        o.fail(format!("{tag}/identifier-set"), format!("{ctx}: shares/public package do not cover exactly the requested identifiers"));
        return;
    }
    if shares.len() != n as usize {
        o.fail(format!("{tag}/share-count"), format!("{ctx}: {} shares", shares.len()));
    }
    if pkp.min_signers() != Some(t) {
        o.fail(format!("{tag}/pkp-threshold"), format!("{ctx}: public key package records threshold {:?}", pkp.min_signers()));
    }
    let vk = pkp.verifying_key().to_element();
    if let Some(k) = key {
        if gen_mul::<C>(k) != vk {
            o.fail(format!("{tag}/group-key-not-split-key"), format!("{ctx}: group key != G*key"));
        }
    }
    let mut kps = BTreeMap::new();
    let mut comm0: Option<Vec<frost_core::Element<C>>> = None;
    for (id, sh) in shares {
        let ce = commitment_elems::<C>(sh.commitment());
        if ce.len() != t as usize {
            o.fail(format!("{tag}/commitment-length"), format!("{ctx}: commitment has {} entries, t={t}", ce.len()));
        }
        match &comm0 {
            None => comm0 = Some(ce.clone()),
            Some(c0) => {
                if *c0 != ce {
                    o.fail(format!("{tag}/commitments-differ"), format!("{ctx}: participants got different commitments"));
                }
            }
        }
        if ce.first() != Some(&vk) {
            o.fail(format!("{tag}/c0-not-group-key"), format!("{ctx}: first commitment entry != group key"));
        }
        if sh.identifier() != id {
            o.fail(format!("{tag}/share-id-mismatch"), format!("{ctx}: map key and share identifier differ"));
        }
        // independent VSS evaluation with explicit powers
        let s = sh.signing_share().to_scalar();
        let lhs = gen_mul::<C>(s);
        let rhs = ref_eval_commitment::<C>(id_scalar::<C>(id), &ce);
        if lhs != rhs {
            o.fail(format!("{tag}/share-off-polynomial"), format!("{ctx}: G*s_i != sum_k i^k C_k for id {}", id_short::<C>(id)));
        }
        match sh.verify() {
            Ok((vs, k2)) => {
                if vs.to_element() != lhs || k2.to_element() != vk {
                    o.fail(format!("{tag}/verify-output"), format!("{ctx}: SecretShare::verify returned inconsistent values"));
                }
            }
            Err(e) => o.fail(format!("{tag}/honest-share-rejected"), format!("{ctx}: verify() {e:?}")),
        }
        match KeyPackage::<C>::try_from(sh.clone()) {
            Ok(kp) => {
                if kp.verifying_share().to_element() != lhs
                    || Some(kp.verifying_share()) != pkp.verifying_shares().get(id)
                    || kp.verifying_key().to_element() != vk
                    || *kp.min_signers() != t
                    || kp.identifier() != id
                    || kp.signing_share().to_scalar() != s
                {
                    o.fail(format!("{tag}/key-package-inconsistent"), format!("{ctx}: key package of {} inconsistent with share / public package", id_short::<C>(id)));
                }
                kps.insert(*id, kp);
            }
            Err(e) => o.fail(format!("{tag}/honest-share-rejected"), format!("{ctx}: KeyPackage::try_from {e:?}")),
        }
    }
    if kps.len() != n as usize {
        return;
    }
    // polynomial degree exactly t-1 and value at zero = key: every t-subset reconstructs,
    // every (t-1)-subset with lowered threshold does not; independent Lagrange as well
    let idv: Vec<_> = kps.keys().copied().collect();
    for sm in subsets(n as usize, t as usize, t as usize) {
        let sel = pick::<C>(&idv, sm);
        let v: Vec<_> = sel.iter().map(|i| kps[i].clone()).collect();
        match C::w_reconstruct(&v) {
            Ok(k) => {
                let ks = k.to_scalar();
                if gen_mul::<C>(ks) != vk || key.map(|x| x != ks).unwrap_or(false) {
                    o.fail(format!("{tag}/t-subset-wrong-key"), format!("{ctx}: subset {sm:b} reconstructs a different key"));
                }
                // independent interpolation
                let xs: Vec<_> = sel.iter().map(|i| id_scalar::<C>(i)).collect();
                let mut acc = zero::<C>();
                for i in &sel {
                    acc = acc + ref_lagrange::<C>(&xs, id_scalar::<C>(i), None) * kps[i].signing_share().to_scalar();
                }
                if acc != ks {
                    o.fail(format!("{tag}/reconstruct-vs-reference"), format!("{ctx}: reconstruct != independent Lagrange interpolation"));
                }
                o.count("t_subsets_reconstructed", 1);
            }
            Err(e) => o.fail(format!("{tag}/t-subset-refused"), format!("{ctx}: subset {sm:b}: {e:?}")),
        }
    }
    if t >= 2 {
        for sm in subsets(n as usize, t as usize - 1, t as usize - 1) {
            let sel = pick::<C>(&idv, sm);
            let v: Vec<_> = sel
                .iter()
                .map(|i| {
                    let kp = &kps[i];
                    KeyPackage::new(*kp.identifier(), *kp.signing_share(), *kp.verifying_share(), *kp.verifying_key(), t - 1)
                })
                .collect();
            // degree must be exactly t-1: t-1 shares interpolate to another value
            // (holds unless the top coefficient is 0; coefficients here are non-zero by construction or seeded)
            if let Ok(k) = C::w_reconstruct(&v) {
                if gen_mul::<C>(k.to_scalar()) == vk {
                    o.count("degree_too_low_hits", 1);
                    o.fail(format!("{tag}/degree-below-t-1"), format!("{ctx}: {} shares already determine the key (subset {sm:b})", t - 1));
                }
            }
        }
    }
    if !do_tamper {
        return;
    }
    // ---- single-coordinate tampering of every share ----
    let g = G::<C>::generator();
    for (id, sh) in shares {
        let ce = commitment_elems::<C>(sh.commitment());
        let mk = |ident: Id<C>, s: frost_core::Scalar<C>, cm: &[frost_core::Element<C>]| -> SecretShare<C> {
            SecretShare::new(
                ident,
                SigningShare::new(s),
                VerifiableSecretSharingCommitment::new(cm.iter().map(|e| CoefficientCommitment::new(*e)).collect()),
            )
        };
        let s0 = sh.signing_share().to_scalar();
        let mut tampered: Vec<(String, SecretShare<C>)> = vec![];
        tampered.push(("value+1".into(), mk(*id, s0 + one::<C>(), &ce)));
        tampered.push(("value-negated".into(), mk(*id, neg::<C>(s0), &ce)));
        for (oid, osh) in shares {
            if oid != id {
                tampered.push((format!("value-of-{}", id_short::<C>(oid)), mk(*id, osh.signing_share().to_scalar(), &ce)));
                tampered.push((format!("identifier->{}", id_short::<C>(oid)), mk(*oid, s0, &ce)));
            }
        }
        let fresh = Identifier::<C>::new(id_scalar::<C>(id) + sc_u64::<C>(1000003)).unwrap();
        tampered.push(("identifier->fresh".into(), mk(fresh, s0, &ce)));
        for k in 0..ce.len() {
            let mut c2 = ce.clone();
            c2[k] = c2[k] + g;
            tampered.push((format!("C{k}+G"), mk(*id, s0, &c2)));
            for j in 0..ce.len() {
                if j != k && ce[j] != ce[k] {
                    let mut c3 = ce.clone();
                    c3[k] = ce[j];
                    tampered.push((format!("C{k}:=C{j}"), mk(*id, s0, &c3)));
                }
            }
        }
        // truncation by one and extension by G
        let mut tr = ce.clone();
        tr.pop();
        tampered.push(("commitment-truncated".into(), mk(*id, s0, &tr)));
        let mut ex = ce.clone();
        ex.push(g);
        tampered.push(("commitment-extended".into(), mk(*id, s0, &ex)));
        for (what, ts) in tampered {
            o.eval(true);
            let accepted_equal = match KeyPackage::<C>::try_from(ts.clone()) {
                Err(_) => {
                    o.count("tamperings_rejected", 1);
                    None
                }
                Ok(kp) => Some(kp),
            };
            if let Some(kp) = accepted_equal {
                // An accepted tampered share is a violation. (Truncation/extension change the recorded
                // threshold even if the VSS equation happened to hold.)
                o.fail(
                    format!("{tag}/tampered-share-accepted/{}", what.split(['-', '+', ':']).next().unwrap_or("x")),
                    format!("{ctx}: share of {} with {what} was accepted (min_signers={})", id_short::<C>(id), kp.min_signers()),
                );
            }
            if ts.verify().is_ok() && !what.starts_with("commitment-") {
                o.fail(format!("{tag}/tampered-share-verifies"), format!("{ctx}: share of {} with {what} passes verify()", id_short::<C>(id)));
            }
        }
    }
}

fn run_group<C: Suite>(n: u16, t: u16, idkind: IdKind, src: KeySrc, seed: &str) -> Outcome {
    let mut o = Outcome::new();
    let tag = format!("C06/{}", C::name());
    let ctx = format!("n={n} t={t} ids={idkind:?} src={src:?} seed={seed}");
    let grp = match make_group::<C>(src, n, t, idkind, seed) {
        Ok(g) => g,
        Err(e) => {
            o.eval(false);
            o.fail(format!("{tag}/keygen-failed"), format!("{ctx}: {e}"));
            return o;
        }
    };
    o.class("generated");
    let want = make_ids::<C>(idkind, n as usize);
    check_dealer_output::<C>(&mut o, &tag, &ctx, n, t, &want, grp.key, grp.shares.as_ref().unwrap(), &grp.pkp, true);
    o
}

fn run_params<C: Suite>() -> Outcome {
    let mut o = Outcome::new();
    let tag = format!("C06/{}", C::name());
    let key = SigningKey::<C>::from_scalar(sc_u64::<C>(5)).unwrap();
    let vals = [0u16, 1, 2, 3, 65535];
    for &n in &vals {
        for &t in &vals {
            let valid = t >= 2 && n >= 2 && t <= n;
            if valid && n > 3 {
                continue; // valid huge shapes are exercised elsewhere
            }
            let mut rng = ScriptedRng::ctr("params");
            let r1 = C::w_generate_with_dealer(n, t, IdentifierList::Default, &mut rng);
            let r2 = C::w_split(&key, n, t, IdentifierList::Default, &mut rng);
            o.eval(true);
            for (nm, ok) in [("generate_with_dealer", r1.is_ok()), ("split", r2.is_ok())] {
                if ok != valid {
                    o.fail(format!("{tag}/parameter-validation"), format!("{nm}(n={n}, t={t}) ok={ok}, expected ok={valid}"));
                } else if !valid {
                    o.count("invalid_params_refused", 1);
                }
            }
        }
    }
    // t = n + 1
    for n in 2u16..6 {
        let mut rng = ScriptedRng::ctr("params");
        o.eval(true);
        if C::w_generate_with_dealer(n, n + 1, IdentifierList::Default, &mut rng).is_ok() {
            o.fail(format!("{tag}/parameter-validation"), format!("t=n+1 accepted for n={n}"));
        } else {
            o.count("invalid_params_refused", 1);
        }
    }
    // identifier lists whose length is n + 65536 (n after truncation to 16 bits), all distinct
    {
        let long: Vec<Id<C>> = (1u64..=65536 + 5).map(|i| Identifier::<C>::new(sc_u64::<C>(i)).unwrap()).collect();
        for (n, t) in [(2u16, 2u16), (5, 3)] {
            let mut rng = ScriptedRng::ctr("params");
            o.eval(true);
            let l = &long[..65536 + n as usize];
            for (nm, ok) in [
                ("split", C::w_split(&key, n, t, IdentifierList::Custom(l), &mut rng).is_ok()),
                ("generate_with_dealer", C::w_generate_with_dealer(n, t, IdentifierList::Custom(l), &mut rng).is_ok()),
            ] {
                if ok {
                    o.fail(format!("{tag}/identifier-count-not-checked"), format!("{nm}: n={n} with {} identifiers accepted", l.len()));
                } else {
                    o.count("invalid_params_refused", 1);
                }
            }
        }
    }
    // identifier list of wrong length / duplicates at every pair of positions
    for n in 2u16..=4 {
        let ids = make_ids::<C>(IdKind::U16x, n as usize + 1);
        for len in [n as usize - 1, n as usize + 1] {
            let mut rng = ScriptedRng::ctr("params");
            o.eval(true);
            if C::w_split(&key, n, 2, IdentifierList::Custom(&ids[..len]), &mut rng).is_ok() {
                o.fail(format!("{tag}/identifier-count-not-checked"), format!("n={n} with {len} identifiers accepted"));
            } else {
                o.count("invalid_params_refused", 1);
            }
        }
        for a in 0..n as usize {
            for b in 0..n as usize {
                if a == b {
                    continue;
                }
                let mut l = ids[..n as usize].to_vec();
                l[b] = l[a];
                let mut rng = ScriptedRng::ctr("params");
                o.eval(true);
                for (nm, r) in [
                    ("split", C::w_split(&key, n, 2, IdentifierList::Custom(&l), &mut rng).is_ok()),
                    ("generate_with_dealer", C::w_generate_with_dealer(n, 2, IdentifierList::Custom(&l), &mut rng).is_ok()),
                ] {
                    if r {
                        o.fail(format!("{tag}/duplicate-identifiers-accepted"), format!("{nm}: n={n} positions {a},{b} duplicated"));
                    } else {
                        o.count("invalid_params_refused", 1);
                    }
                }
            }
        }
    }
    o.class("params");
    o
}

fn run_big<C: Suite>(n: u16, t: u16, seed: &str) -> Outcome {
    let mut o = Outcome::new();
    let tag = format!("C06/{}", C::name());
    let ctx = format!("big n={n} t={t}");
    o.eval(true);
    let mut rng = ScriptedRng::ctr(format!("big:{seed}"));
    match C::w_generate_with_dealer(n, t, IdentifierList::Default, &mut rng) {
        Ok((shares, pkp)) => {
            if shares.len() != n as usize || pkp.verifying_shares().len() != n as usize || pkp.min_signers() != Some(t) {
                o.fail(format!("{tag}/big-counts"), ctx.clone());
            }
            let vk = pkp.verifying_key().to_element();
            let mut kps = vec![];
            for (id, sh) in &shares {
                let ce = commitment_elems::<C>(sh.commitment());
                if ce.len() != t as usize || ce[0] != vk {
                    o.fail(format!("{tag}/commitment-length"), ctx.clone());
                    break;
                }
                match KeyPackage::<C>::try_from(sh.clone()) {
                    Ok(kp) => {
                        if Some(kp.verifying_share()) != pkp.verifying_shares().get(id) || kp.verifying_share().to_element() != gen_mul::<C>(kp.signing_share().to_scalar()) {
                            o.fail(format!("{tag}/key-package-inconsistent"), format!("{ctx}: id {}", id_short::<C>(id)));
                            break;
                        }
                        kps.push(kp);
                    }
                    Err(e) => {
                        o.fail(format!("{tag}/honest-share-rejected"), format!("{ctx}: id {}: {e:?}", id_short::<C>(id)));
                        break;
                    }
                }
            }
            // what the dealer sends arrives over the wire: first and last share, the public key package
            for (id, sh) in shares.iter().take(1).chain(shares.iter().rev().take(1)) {
                let b = sh.serialize().ok().and_then(|b| SecretShare::<C>::deserialize(&b).ok());
                let j = serde_json::to_string(sh).ok().and_then(|j| serde_json::from_str::<SecretShare<C>>(&j).ok());
                for (how, d) in [("binary", b), ("JSON", j)] {
                    match d.map(KeyPackage::<C>::try_from) {
                        Some(Ok(kp)) => {
                            if *kp.min_signers() != t || Some(kp.verifying_share()) != pkp.verifying_shares().get(id) || kp.signing_share() != sh.signing_share() {
                                o.fail(format!("{tag}/share-changed-in-transport"), format!("{ctx}: id {} via {how}: threshold {} / share differs", id_short::<C>(id), kp.min_signers()));
                            }
                            o.count("transported_shares_accepted", 1);
                        }
                        _ => o.fail(format!("{tag}/honest-share-rejected"), format!("{ctx}: id {} after {how} transport", id_short::<C>(id))),
                    }
                }
            }
            {
                let b = pkp.serialize().ok().and_then(|b| fc::keys::PublicKeyPackage::<C>::deserialize(&b).ok());
                let j = serde_json::to_string(&pkp).ok().and_then(|j| serde_json::from_str::<fc::keys::PublicKeyPackage<C>>(&j).ok());
                for (how, d) in [("binary", b), ("JSON", j)] {
                    if d.as_ref() != Some(&pkp) || d.as_ref().map(|p| p.min_signers()) != Some(Some(t)) {
                        o.fail(format!("{tag}/public-package-changed-in-transport"), format!("{ctx}: via {how}"));
                    }
                }
            }
            // the last t key packages reconstruct the key, the last t-1 (lowered) do not
            if kps.len() == n as usize {
                let last: Vec<_> = kps.iter().rev().take(t as usize).cloned().collect();
                match C::w_reconstruct(&last) {
                    Ok(k) => {
                        if gen_mul::<C>(k.to_scalar()) != vk {
                            o.fail(format!("{tag}/t-subset-wrong-key"), ctx.clone());
                        } else {
                            o.count("t_subsets_reconstructed", 1);
                        }
                    }
                    Err(e) => o.fail(format!("{tag}/t-subset-refused"), format!("{ctx}: {e:?}")),
                }
            }
        }
        Err(e) => o.fail(format!("{tag}/keygen-failed"), format!("{ctx}: {e:?}")),
    }
    o.class("big");
    o
}

/// custom identifier lists whose members differ in ONE bit, for every bit position of the scalar:
/// the dealer must return one share per listed identifier
fn run_idbits<C: Suite>(seed: &str) -> Outcome {
    let mut o = Outcome::new();
    let tag = format!("C06/{}", C::name());
    let qm1 = id_numeric_key::<C>(&Identifier::<C>::new(neg::<C>(one::<C>())).unwrap());
    let lead = qm1.iter().position(|b| *b != 0).unwrap_or(0);
    let bits = ((qm1.len() - lead) as u32) * 8 - qm1[lead].leading_zeros();
    let key = SigningKey::<C>::from_scalar(sc_seeded_nz::<C>(&format!("idbits:{seed}"))).unwrap();
    for k in 1..bits - 1 {
        // 1, 1 + 2^k, 2^k, 3: pairs that differ only in bit k / only in bit 0
        let ids: Vec<Id<C>> = [one::<C>(), one::<C>() + pow2::<C>(k), pow2::<C>(k), sc_u64::<C>(3)].iter().filter_map(|s| Identifier::<C>::new(*s).ok()).collect();
        let mut uniq = ids.clone();
        uniq.dedup();
        if uniq.len() != 4 || (k == 1 && ids[1] == ids[3]) {
            continue;
        }
        let ctx = format!("custom identifiers 1, 1+2^{k}, 2^{k}, 3 (t=2)");
        let mut rng = ScriptedRng::ctr(format!("idbits:{seed}:{k}"));
        o.eval(true);
        match C::w_split(&key, 4, 2, IdentifierList::Custom(&ids), &mut rng) {
            Ok((shares, pkp)) => {
                o.count("single_bit_identifier_lists", 1);
                check_dealer_output::<C>(&mut o, &tag, &ctx, 4, 2, &ids, Some(key.clone().to_scalar()), &shares, &pkp, false);
                for id in &ids {
                    if !shares.contains_key(id) || !pkp.verifying_shares().contains_key(id) {
                        o.fail(format!("{tag}/identifier-set"), format!("{ctx}: no share for one of the listed identifiers"));
                    }
                }
            }
            Err(e) => o.fail(format!("{tag}/keygen-failed"), format!("{ctx}: {e:?}")),
        }
    }
    o.class("idbits");
    o
}

fn run_huge<C: Suite>() -> Outcome {
    let mut o = Outcome::new();
    let tag = format!("C06/{}", C::name());
    let mut rng = ScriptedRng::ctr("huge");
    o.eval(true);
    match C::w_generate_with_dealer(65535, 2, IdentifierList::Default, &mut rng) {
        Ok((shares, pkp)) => {
            if shares.len() != 65535 || pkp.verifying_shares().len() != 65535 {
                o.fail(format!("{tag}/huge-count"), format!("{} shares", shares.len()));
            }
            // spot: first, last, and every 4099th share by independent evaluation
            for (k, (id, sh)) in shares.iter().enumerate() {
                if k % 4099 == 0 || k == 65534 {
                    let ce = commitment_elems::<C>(sh.commitment());
                    if gen_mul::<C>(sh.signing_share().to_scalar()) != ref_eval_commitment::<C>(id_scalar::<C>(id), &ce) {
                        o.fail(format!("{tag}/share-off-polynomial"), format!("n=65535 id index {k}"));
                    }
                    if KeyPackage::<C>::try_from(sh.clone()).is_err() {
                        o.fail(format!("{tag}/honest-share-rejected"), format!("n=65535 id index {k}"));
                    }
                }
            }
            // last identifier must be 65535
            let last = shares.keys().next_back().unwrap();
            if *last != Identifier::<C>::try_from(65535u16).unwrap() {
                o.fail(format!("{tag}/huge-last-id"), "largest identifier is not 65535".to_string());
            }
        }
        Err(e) => o.fail(format!("{tag}/huge-refused"), format!("{e:?}")),
    }
    o.class("huge");
    o
}

fn run_tiny<const Q: u64>(c: &Case) -> Outcome {
    let mut o = Outcome::new();
    let Case::Tiny { n, t, idmask, .. } = c else { unreachable!() };
    type T<const Q: u64> = Tiny<Q>;
    let tag = format!("C06/tiny{Q}");
    let ids_u: Vec<u64> = mask_indices(*idmask).iter().map(|i| *i as u64 + 1).collect();
    let ids: Vec<Identifier<T<Q>>> = ids_u.iter().map(|v| Identifier::<T<Q>>::new(Sc::<Q>(*v)).unwrap()).collect();
    for poly in product(Q as usize, *t as usize) {
        if poly[0] == 0 {
            continue;
        }
        // rule 5 (DESIGN 3.8): a zero top coefficient legitimately lowers the degree; the
        // degree oracle is applied only when the top coefficient is non-zero
        let top_nonzero = *poly.last().unwrap() != 0;
        let key = SigningKey::<T<Q>>::from_scalar(Sc::<Q>(poly[0] as u64)).unwrap();
        let mut rng = ScriptedRng::ctr("unused");
        for (k, cf) in poly.iter().skip(1).enumerate() {
            rng = rng.with_dev(k, crate::rng::Dev::Bytes((*cf as u32).to_le_bytes().to_vec()));
        }
        let r = fc::keys::split(&key, *n, *t, IdentifierList::Custom(&ids), &mut rng);
        o.eval(true);
        o.count("tiny_polys", 1);
        let ctx = format!("tiny q={Q} ids={ids_u:?} t={t} poly={poly:?}");
        match r {
            Ok((shares, pkp)) => {
                // reference values
                for (i, id) in ids.iter().enumerate() {
                    let mut acc = 0u64;
                    let mut p = 1u64;
                    for cf in &poly {
                        acc = (acc + *cf as u64 * p) % Q;
                        p = p * ids_u[i] % Q;
                    }
                    if shares[id].signing_share().to_scalar().0 != acc {
                        o.fail(format!("{tag}/share-not-polynomial-value"), format!("{ctx}: id {} got {} want {acc}", ids_u[i], shares[id].signing_share().to_scalar().0));
                    }
                }
                if top_nonzero && poly.iter().skip(1).all(|c| *c != 0) {
                    let mut sub = Outcome::new();
                    check_dealer_output::<T<Q>>(&mut sub, &tag, &ctx, *n, *t, &ids, Some(Sc::<Q>(poly[0] as u64)), &shares, &pkp, false);
                    // identity-valued commitment entries cannot occur here (all coefficients non-zero)
                    o.findings.extend(sub.findings);
                    for (k, v) in sub.counters {
                        o.count(&k, v);
                    }
                }
            }
            Err(e) => {
                o.fail(format!("{tag}/split-failed"), format!("{ctx}: {e:?}"));
            }
        }
        if o.findings.len() > 10 {
            break;
        }
    }
    o.class("tiny");
    o
}
