//! C17 — re-randomized signing verifies only under the session-bound randomized key.

use crate::rng::ScriptedRng;
use crate::runner::{Outcome, Prop, Tier};
use crate::suites::{Id, REAL_SUITES, Suite};
use crate::util::*;
use crate::with_suite;
use frost_core as fc;
use frost_core::keys::KeyPackage;
use frost_core::round1::{NonceCommitment, SigningCommitments};
use frost_core::round2::SignatureShare;
use frost_core::{CheaterDetection, SigningPackage};
use frost_rerandomized::{RandomizedParams, Randomizer};
use serde::{Deserialize, Serialize};
use serde_json::Value;
use std::collections::BTreeMap;

pub struct C17;

#[derive(Serialize, Deserialize, Clone, Debug, PartialEq, Eq)]
pub enum RSrc {
    /// RandomizedParams::new_from_commitments under a scripted source
    Seeded(String),
    /// all-zero / all-ff seed bytes from the random source
    ConstSeed(u8),
    /// explicit randomizer through the (deprecated) randomizer-passing entry points
    Explicit(String),
    /// a seed of another length handed to both sides (the seed is an opaque byte string): 0, 1, 31, 33, 100
    RawSeed(usize),
}

#[derive(Serialize, Deserialize, Clone, Debug)]
#[serde(tag = "part")]
enum Case {
    Session { suite: String, n: u16, t: u16, idkind: IdKind, src: KeySrc, signers: u32, rsrc: RSrc, msg: usize, seed: String },
    /// every seed byte / every commitment tamper changes the randomizer; a tampered participant is the one culprit
    Binding { suite: String, n: u16, t: u16, signers: u32, seed: String },
    /// C04's fault menu and C03's below-threshold menu through the re-randomized aggregate
    Faults { suite: String, n: u16, t: u16, signers: u32, cheaters: u32, kind: super::c04::Kind, seed: String },
    Below { suite: String, n: u16, t: u16, signers: u32, seed: String },
    /// one large re-randomized session (the hashed commitment list is tens of kilobytes)
    Large { suite: String, n: u16, signers: u16, seed: String },
}

impl Prop for C17 {
    fn id(&self) -> &'static str {
        "C17"
    }
    fn level(&self) -> &'static str {
        "exploration"
    }
    fn rule(&self) -> String {
        "complete enumeration: suites x (n,t) x id kinds x dealer/DKG x EVERY signer subset x randomizer sources {seeded x2-4, constant seeds, explicit 0 / 1 / q-1 / seeded}; oracles: participant-regenerated params = coordinator's, sign/aggregate Ok, signature verifies under the randomized key (library + independent verifier) and not under the original key unless the randomizer is 0, randomizer = independent hash(seed || independently encoded commitment list); EVERY single-byte change of the seed and EVERY replacement of any hiding/binding commitment changes the randomizer; a participant with a tampered seed or package is exactly the culprit; C04's cheater menu (every cheater subset) and C03's below-threshold menu give the same verdicts through the re-randomized aggregate; one large session (130-260 signers). Non-trivial = session aggregated".into()
    }
    fn assumptions(&self) -> Vec<String> {
        vec!["seeds are seeded streams plus constant extremes; the randomizer hash is recomputed with an independently written hash-to-scalar".into()]
    }
    fn bound(&self, tier: Tier) -> String {
        format!("n<={}, every signer subset, {} randomizer sources", tier.pick(5, 7), tier.pick(7, 9))
    }
    fn required_counters(&self) -> Vec<&'static str> {
        vec!["sessions_verified_under_randomized_key", "rejected_under_original_key", "seed_byte_changes", "commitment_changes", "tampered_participant_blamed", "culprits_checked"]
    }
    fn cases(&self, tier: Tier, seed: u64) -> Vec<Value> {
        let mut out = vec![];
        let nmax = tier.pick(5u16, 7u16);
        let mut rs = vec![RSrc::RawSeed(0), RSrc::RawSeed(1), RSrc::RawSeed(31), RSrc::RawSeed(33), RSrc::RawSeed(100), RSrc::Seeded("a".into()), RSrc::Seeded("b".into()), RSrc::ConstSeed(0), RSrc::ConstSeed(0xff), RSrc::Explicit("0".into()), RSrc::Explicit("1".into()), RSrc::Explicit("q-1".into())];
        if tier == Tier::Thorough {
            rs.push(RSrc::Seeded("c".into()));
            rs.push(RSrc::Explicit("seeded".into()));
        }
        for (n, t) in super::c01::shapes(nmax) {
            for suite in REAL_SUITES {
                if suite == "ed448" && n > tier.pick(3, 4) {
                    continue;
                }
                for idkind in [IdKind::Seq, IdKind::U16x, IdKind::Big] {
                    if tier == Tier::Quick && idkind != IdKind::U16x && n > 3 {
                        continue;
                    }
                    for src in [KeySrc::Dealer, KeySrc::Dkg] {
                        if src == KeySrc::Dkg && (n > tier.pick(3, 4) || idkind != IdKind::U16x) {
                            continue;
                        }
                        for s in subsets(n as usize, t as usize, n as usize) {
                            for (k, r) in rs.iter().enumerate() {
                                out.push(serde_json::to_value(Case::Session { suite: suite.to_string(), n, t, idkind, src, signers: s, rsrc: r.clone(), msg: (k + s as usize) % 11, seed: format!("s{seed}") }).unwrap());
                            }
                        }
                    }
                }
            }
        }
        for suite in REAL_SUITES {
            let k = if suite == "ed448" { tier.pick(90u16, 130u16) } else { tier.pick(130u16, 260u16) };
            out.push(serde_json::to_value(Case::Large { suite: suite.to_string(), n: k + 20, signers: k, seed: format!("s{seed}") }).unwrap());
        }
        for suite in REAL_SUITES {
            for (n, t) in [(2u16, 2u16), (3, 2), (4, 3)] {
                if suite == "ed448" && n > 3 {
                    continue;
                }
                let full = (1u32 << n) - 1;
                let sets: Vec<u32> = vec![subsets(n as usize, t as usize, t as usize).pop().unwrap(), full];
                for s in sets {
                    out.push(serde_json::to_value(Case::Binding { suite: suite.to_string(), n, t, signers: s, seed: format!("s{seed}") }).unwrap());
                    let k = s.count_ones() as usize;
                    for ch in subsets(k, 1, k) {
                        for kind in [super::c04::Kind::PlusOne, super::c04::Kind::Negated, super::c04::Kind::OtherSession, super::c04::Kind::CancelAll] {
                            if kind == super::c04::Kind::CancelAll && ch.count_ones() < 2 {
                                continue;
                            }
                            out.push(serde_json::to_value(Case::Faults { suite: suite.to_string(), n, t, signers: s, cheaters: ch, kind, seed: format!("s{seed}") }).unwrap());
                        }
                    }
                }
                for s in subsets(n as usize, 1, t as usize - 1) {
                    out.push(serde_json::to_value(Case::Below { suite: suite.to_string(), n, t, signers: s, seed: format!("s{seed}") }).unwrap());
                }
            }
        }
        out
    }
    fn run(&self, case: &Value) -> Outcome {
        let c: Case = serde_json::from_value(case.clone()).expect("case");
        let suite = match &c {
            Case::Session { suite, .. } | Case::Binding { suite, .. } | Case::Faults { suite, .. } | Case::Below { suite, .. } | Case::Large { suite, .. } => suite.clone(),
        };
        with_suite!(suite.as_str(), run_case, &c)
    }
}

/// Independent encoding of the commitment list: ascending numeric identifier order.
pub fn ref_encode_commitments<C: Suite>(comms: &BTreeMap<Id<C>, SigningCommitments<C>>) -> Vec<u8> {
    let mut ids: Vec<Id<C>> = comms.keys().copied().collect();
    sort_ids_numeric::<C>(&mut ids);
    let mut v = vec![];
    for id in ids {
        v.extend(id.serialize());
        v.extend(el_bytes::<C>(&comms[&id].hiding().value()).unwrap_or_default());
        v.extend(el_bytes::<C>(&comms[&id].binding().value()).unwrap_or_default());
    }
    v
}

struct RR<C: Suite> {
    params: RandomizedParams<C>,
    seed: Option<Vec<u8>>,
}

fn make_params<C: Suite>(rsrc: &RSrc, vk: &fc::VerifyingKey<C>, comms: &BTreeMap<Id<C>, SigningCommitments<C>>, label: &str) -> Result<RR<C>, String> {
    match rsrc {
        RSrc::Seeded(l) => {
            let mut rng = ScriptedRng::ctr(format!("rr:{label}:{l}"));
            let (p, s) = RandomizedParams::<C>::new_from_commitments(vk, comms, &mut rng).map_err(e2s("new_from_commitments"))?;
            Ok(RR { params: p, seed: Some(s) })
        }
        RSrc::ConstSeed(b) => {
            let mut rng = ScriptedRng::new(crate::rng::Script::Const(*b));
            let (p, s) = RandomizedParams::<C>::new_from_commitments(vk, comms, &mut rng).map_err(e2s("new_from_commitments"))?;
            Ok(RR { params: p, seed: Some(s) })
        }
        RSrc::RawSeed(len) => {
            let seed = crate::rng::stream_bytes(&format!("rawseed:{label}"), *len);
            let params = RandomizedParams::<C>::regenerate_from_seed_and_commitments(vk, &seed, comms).map_err(e2s("regenerate_from_seed_and_commitments"))?;
            Ok(RR { params, seed: Some(seed) })
        }
        RSrc::Explicit(w) => {
            let r = match w.as_str() {
                "0" => zero::<C>(),
                "1" => one::<C>(),
                "q-1" => neg::<C>(one::<C>()),
                _ => sc_seeded::<C>(&format!("explicit:{label}")),
            };
            Ok(RR { params: RandomizedParams::<C>::from_randomizer(vk, Randomizer::<C>::from_scalar(r)), seed: None })
        }
    }
}

#[allow(deprecated)]
fn rr_sign<C: Suite>(pkg: &SigningPackage<C>, nonces: &fc::round1::SigningNonces<C>, kp: &KeyPackage<C>, rr: &RR<C>) -> Result<SignatureShare<C>, fc::Error<C>> {
    match &rr.seed {
        Some(s) => C::w_rr_sign(pkg, nonces, kp, s),
        None => frost_rerandomized::sign(pkg, nonces, kp, *rr.params.randomizer()),
    }
}

/// Both signer entry points (seed-taking and the deprecated randomizer-taking one) must return exactly the
/// RFC 9591 share of the independently randomized key material (s_i + a, Y_i + aG, Y + aG).
#[allow(clippy::too_many_arguments)]
pub fn rr_exactness<C: Suite>(
    o: &mut Outcome,
    tag: &str,
    ctx: &str,
    kps: &BTreeMap<Id<C>, KeyPackage<C>>,
    s: &[Id<C>],
    pkg: &SigningPackage<C>,
    nonces: &BTreeMap<Id<C>, fc::round1::SigningNonces<C>>,
    params: &RandomizedParams<C>,
    seed: Option<&[u8]>,
) {
    let Some(a) = sc_from_bytes::<C>(&params.randomizer().serialize()) else {
        o.fail(format!("{tag}/MACHINERY-randomizer-bytes"), ctx.to_string());
        return;
    };
    let ag = gen_mul::<C>(a);
    for id in s {
        let kp = &kps[id];
        let own = KeyPackage::<C>::new(
            *id,
            fc::keys::SigningShare::new(kp.signing_share().to_scalar() + a),
            fc::keys::VerifyingShare::new(kp.verifying_share().to_element() + ag),
            fc::VerifyingKey::new(kp.verifying_key().to_element() + ag),
            *kp.min_signers(),
        );
        let want = match C::w_sign(pkg, &nonces[id], &own) {
            Ok(x) => x,
            Err(e) => {
                o.fail(format!("{tag}/MACHINERY-plain-sign-on-randomized-material"), format!("{ctx}: {e:?}"));
                return;
            }
        };
        #[allow(deprecated)]
        let dep = frost_rerandomized::sign(pkg, &nonces[id], kp, *params.randomizer());
        match dep {
            Ok(sh) if sh == want => o.count("deprecated_sign_exact", 1),
            Ok(_) => o.fail(format!("{tag}/deprecated-sign-differs"), format!("{ctx}: sign(.., randomizer) of {} is not the share of the key material randomized by that randomizer", id_short::<C>(id))),
            Err(e) => o.fail(format!("{tag}/deprecated-sign-failed"), format!("{ctx}: {e:?}")),
        }
        if let Some(sd) = seed {
            match C::w_rr_sign(pkg, &nonces[id], kp, sd) {
                Ok(sh) if sh == want => o.count("seed_sign_exact", 1),
                Ok(_) => o.fail(format!("{tag}/seed-sign-differs"), format!("{ctx}: sign_with_randomizer_seed of {} is not the share of the key material randomized by the regenerated randomizer", id_short::<C>(id))),
                Err(e) => o.fail(format!("{tag}/sign-refused"), format!("{ctx}: {e:?}")),
            }
        }
    }
}

fn run_case<C: Suite>(c: &Case) -> Outcome {
    let mut o = Outcome::new();
    let tag = format!("C17/{}", C::name());
    match c {
        Case::Session { n, t, idkind, src, signers, rsrc, msg, seed, .. } => {
            let grp = match cached_group::<C>(*src, *n, *t, *idkind, seed) {
                Ok(g) => g,
                Err(e) => {
                    o.fail(format!("{tag}/setup"), e);
                    return o;
                }
            };
            let s = pick::<C>(&grp.ids, *signers);
            let m = message(*msg);
            let ctx = format!("n={n} t={t} ids={idkind:?} src={src:?} S={signers:b} randomizer={rsrc:?}");
            let label = format!("{seed}:{signers}:{msg}");
            let (nonces, comms) = commit_all::<C>(&grp.kps, &s, &label);
            let pkg = SigningPackage::<C>::new(comms.clone(), &m);
            let vk = *grp.pkp.verifying_key();
            let rr = match make_params::<C>(rsrc, &vk, &comms, &label) {
                Ok(r) => r,
                Err(e) => {
                    o.eval(false);
                    o.fail(format!("{tag}/params-failed"), format!("{ctx}: {e}"));
                    return o;
                }
            };
            // params are internally consistent
            let r = rr.params.randomizer().serialize();
            let rs = sc_from_bytes::<C>(&r).expect("randomizer scalar");
            if *rr.params.randomizer_element() != gen_mul::<C>(rs) || rr.params.randomized_verifying_key().to_element() != vk.to_element() + gen_mul::<C>(rs) {
                o.fail(format!("{tag}/params-inconsistent"), format!("{ctx}: randomizer element / randomized key do not match the randomizer"));
            }
            if let Some(sd) = &rr.seed {
                // participant side
                match RandomizedParams::<C>::regenerate_from_seed_and_commitments(&vk, sd, pkg.signing_commitments()) {
                    Ok(p2) => {
                        if p2 != rr.params {
                            o.fail(format!("{tag}/regenerated-params-differ"), format!("{ctx}: participant's regenerated parameters != coordinator's"));
                        }
                    }
                    Err(e) => o.fail(format!("{tag}/regenerate-failed"), format!("{ctx}: {e:?}")),
                }
                // independent randomizer hash
                let want = C::ext_hrandomizer(&[sd.clone(), ref_encode_commitments::<C>(&comms)].concat());
                if r != want {
                    o.fail(format!("{tag}/randomizer-not-hash-of-seed-and-commitments"), format!("{ctx}: randomizer {} != H(seed || commitment list) {}", hex::encode(&r), hex::encode(&want)));
                }
                if !matches!(rsrc, RSrc::RawSeed(_)) && sd.len() != sc_bytes::<C>(&zero::<C>()).len() {
                    o.fail(format!("{tag}/seed-length"), format!("{ctx}: {}", sd.len()));
                }
            }
            let mut shares = BTreeMap::new();
            for id in &s {
                match rr_sign::<C>(&pkg, &nonces[id], &grp.kps[id], &rr) {
                    Ok(sh) => {
                        shares.insert(*id, sh);
                    }
                    Err(e) => {
                        o.eval(false);
                        o.fail(format!("{tag}/sign-refused"), format!("{ctx}: signer {}: {e:?}", id_short::<C>(id)));
                        return o;
                    }
                }
            }
            o.eval(true);
            let sig = match C::w_rr_aggregate(&pkg, &shares, &grp.pkp, &rr.params) {
                Ok(s) => s,
                Err(e) => {
                    o.fail(format!("{tag}/aggregate-failed"), format!("{ctx}: {e:?}"));
                    return o;
                }
            };
            match C::w_rr_aggregate_custom(&pkg, &shares, &grp.pkp, CheaterDetection::AllCheaters, &rr.params) {
                Ok(s2) => {
                    if s2 != sig {
                        o.fail(format!("{tag}/aggregate-modes-differ"), ctx.clone());
                    }
                }
                Err(e) => o.fail(format!("{tag}/aggregate-failed"), format!("{ctx}: AllCheaters: {e:?}")),
            }
            rr_exactness::<C>(&mut o, &tag, &ctx, &grp.kps, &s, &pkg, &nonces, &rr.params, rr.seed.as_deref());
            // the same session with public key packages of other provenance must give the same signature:
            // the pre-3.0 form without a threshold, a package that crossed the wire (binary / JSON), and
            // cloned parameters
            {
                let legacy = fc::keys::PublicKeyPackage::<C>::new(grp.pkp.verifying_shares().clone(), *grp.pkp.verifying_key(), None);
                let wire_b = grp.pkp.serialize().ok().and_then(|b| fc::keys::PublicKeyPackage::<C>::deserialize(&b).ok());
                let wire_j = serde_json::to_string(&grp.pkp).ok().and_then(|j| serde_json::from_str::<fc::keys::PublicKeyPackage<C>>(&j).ok());
                let cloned = rr.params.clone();
                // the randomizer crosses the wire and the parameters are rebuilt from it
                let wire_p: Option<RandomizedParams<C>> = Randomizer::<C>::deserialize(&rr.params.randomizer().serialize()).ok().map(|r| RandomizedParams::from_randomizer(&vk, r));
                let mut variants: Vec<(&str, Result<fc::Signature<C>, fc::Error<C>>)> = vec![
                    ("legacy public key package (no threshold)", C::w_rr_aggregate(&pkg, &shares, &legacy, &rr.params)),
                    ("cloned parameters", C::w_rr_aggregate(&pkg, &shares, &grp.pkp, &cloned)),
                ];
                if cloned != rr.params {
                    o.fail(format!("{tag}/params-clone-differs"), ctx.clone());
                }
                match wire_b {
                    Some(p) => variants.push(("public key package after binary transport", C::w_rr_aggregate(&pkg, &shares, &p, &rr.params))),
                    None => o.fail(format!("{tag}/transport-failed"), format!("{ctx}: public key package (binary)")),
                }
                match wire_j {
                    Some(p) => variants.push(("public key package after JSON transport", C::w_rr_aggregate(&pkg, &shares, &p, &rr.params))),
                    None => o.fail(format!("{tag}/transport-failed"), format!("{ctx}: public key package (JSON)")),
                }
                match wire_p {
                    Some(p) => variants.push(("parameters rebuilt from the transported randomizer", C::w_rr_aggregate(&pkg, &shares, &grp.pkp, &p))),
                    None => o.fail(format!("{tag}/transport-failed"), format!("{ctx}: randomizer")),
                }
                for (what, r) in variants {
                    match r {
                        Ok(s2) if s2 == sig => o.count("provenance_variants_agree", 1),
                        Ok(_) => o.fail(format!("{tag}/provenance-changes-signature"), format!("{ctx}: {what}")),
                        Err(e) => o.fail(format!("{tag}/aggregate-failed"), format!("{ctx}: with {what}: {e:?}")),
                    }
                }
            }
            match verify_everywhere::<C>(rr.params.randomized_verifying_key(), &m, &sig) {
                Ok(()) => o.count("sessions_verified_under_randomized_key", 1),
                Err(e) => o.fail(format!("{tag}/not-valid-under-randomized-key"), format!("{ctx}: {e}")),
            }
            let under_orig = vk.verify(&m, &sig).is_ok();
            if rs == zero::<C>() {
                if !under_orig || *rr.params.randomized_verifying_key() != vk {
                    o.fail(format!("{tag}/zero-randomizer-not-identity"), format!("{ctx}: zero randomizer must leave the key unchanged"));
                }
                o.class("zero-randomizer");
            } else {
                if under_orig {
                    o.fail(format!("{tag}/valid-under-original-key"), format!("{ctx}: the signature verifies under the ORIGINAL group key"));
                } else {
                    o.count("rejected_under_original_key", 1);
                }
                if *rr.params.randomized_verifying_key() == vk {
                    o.fail(format!("{tag}/key-not-randomized"), ctx.clone());
                }
                o.class("randomized");
            }
            // per-signer share verification against the randomized public material
            let rel = *rr.params.randomizer_element();
            for id in &s {
                let vs = fc::keys::VerifyingShare::<C>::new(grp.pkp.verifying_shares()[id].to_element() + rel);
                if fc::verify_signature_share(*id, &vs, &shares[id], &pkg, rr.params.randomized_verifying_key()).is_err() {
                    o.fail(format!("{tag}/honest-share-rejected"), format!("{ctx}: signer {}", id_short::<C>(id)));
                }
            }
        }
        Case::Binding { n, t, signers, seed, .. } => {
            let grp = cached_group::<C>(KeySrc::Dealer, *n, *t, IdKind::U16x, seed).expect("group");
            let s = pick::<C>(&grp.ids, *signers);
            let m = message(2);
            let ctx = format!("n={n} t={t} S={signers:b}");
            let label = format!("{seed}:bind:{signers}");
            let (nonces, comms) = commit_all::<C>(&grp.kps, &s, &label);
            let (_, comms_b) = commit_all::<C>(&grp.kps, &s, &format!("{label}.B"));
            let pkg = SigningPackage::<C>::new(comms.clone(), &m);
            let vk = *grp.pkp.verifying_key();
            let rr = make_params::<C>(&RSrc::Seeded("bind".into()), &vk, &comms, &label).expect("params");
            let sd = rr.seed.clone().unwrap();
            let r0 = rr.params.randomizer().serialize();
            o.eval(true);
            // every single-byte change of the seed (two values per position) + length changes
            let mut seeds: Vec<(String, Vec<u8>)> = vec![];
            for pos in 0..sd.len() {
                for x in [1u8, 0x80] {
                    let mut v = sd.clone();
                    v[pos] ^= x;
                    seeds.push((format!("byte {pos} ^= {x:#x}"), v));
                }
            }
            seeds.push(("truncated".into(), sd[..sd.len() - 1].to_vec()));
            seeds.push(("extended".into(), [sd.clone(), vec![0]].concat()));
            seeds.push(("empty".into(), vec![]));
            for (what, sv) in &seeds {
                match Randomizer::<C>::regenerate_from_seed_and_commitments(sv, &comms) {
                    Ok(r) => {
                        o.count("seed_byte_changes", 1);
                        if r.serialize() == r0 {
                            o.fail(format!("{tag}/randomizer-ignores-seed-change"), format!("{ctx}: seed {what}: randomizer unchanged"));
                        }
                    }
                    Err(e) => o.fail(format!("{tag}/regenerate-failed"), format!("{ctx}: {e:?}")),
                }
            }
            // every replacement of any signer's hiding / binding commitment, and set changes
            let mut variants: Vec<(String, BTreeMap<Id<C>, SigningCommitments<C>>)> = vec![];
            for id in &s {
                let c0 = comms[id];
                let cb = comms_b[id];
                for (what, nc) in [
                    ("hiding", SigningCommitments::new(*cb.hiding(), *c0.binding())),
                    ("binding", SigningCommitments::new(*c0.hiding(), *cb.binding())),
                    ("hiding+G", SigningCommitments::new(NonceCommitment::new(c0.hiding().value() + G::<C>::generator()), *c0.binding())),
                    ("swapped", SigningCommitments::new(*c0.binding(), *c0.hiding())),
                ] {
                    let mut mm = comms.clone();
                    mm.insert(*id, nc);
                    variants.push((format!("{what} of {}", id_short::<C>(id)), mm));
                }
                let mut mm = comms.clone();
                mm.remove(id);
                variants.push((format!("{} removed", id_short::<C>(id)), mm));
            }
            if let Some(x) = grp.ids.iter().find(|i| !s.contains(i)) {
                let (_, cx) = commit_all::<C>(&grp.kps, &[*x], "outsider");
                let mut mm = comms.clone();
                mm.insert(*x, cx[x]);
                variants.push(("participant added".into(), mm));
            }
            if s.len() >= 2 {
                let mut mm = comms.clone();
                mm.insert(s[0], comms[&s[1]]);
                mm.insert(s[1], comms[&s[0]]);
                variants.push(("two entries swapped".into(), mm));
            }
            for (what, mm) in &variants {
                match Randomizer::<C>::regenerate_from_seed_and_commitments(&sd, mm) {
                    Ok(r) => {
                        o.count("commitment_changes", 1);
                        if r.serialize() == r0 {
                            o.fail(format!("{tag}/randomizer-ignores-commitment-change"), format!("{ctx}: {what}: randomizer unchanged"));
                        }
                    }
                    Err(e) => o.fail(format!("{tag}/regenerate-failed"), format!("{ctx}: {what}: {e:?}")),
                }
            }
            // a participant given a tampered seed, or a package with one foreign commitment, is the one culprit
            for (ti, tid) in s.iter().enumerate() {
                for mode in 0..2 {
                    let mut shares = BTreeMap::new();
                    for id in &s {
                        let r = if id == tid {
                            if mode == 0 {
                                let mut bad = sd.clone();
                                bad[0] ^= 1;
                                C::w_rr_sign(&pkg, &nonces[id], &grp.kps[id], &bad)
                            } else {
                                // its package differs in another signer's entry (or, alone, in the message)
                                let mut mm = comms.clone();
                                let other = s[(ti + 1) % s.len()];
                                if other != *id {
                                    mm.insert(other, comms_b[&other]);
                                    C::w_rr_sign(&SigningPackage::<C>::new(mm, &m), &nonces[id], &grp.kps[id], &sd)
                                } else {
                                    C::w_rr_sign(&SigningPackage::<C>::new(mm, b"another message"), &nonces[id], &grp.kps[id], &sd)
                                }
                            }
                        } else {
                            C::w_rr_sign(&pkg, &nonces[id], &grp.kps[id], &sd)
                        };
                        match r {
                            Ok(sh) => {
                                shares.insert(*id, sh);
                            }
                            Err(e) => {
                                o.fail(format!("{tag}/sign-refused"), format!("{ctx}: {e:?}"));
                            }
                        }
                    }
                    if shares.len() != s.len() {
                        continue;
                    }
                    match C::w_rr_aggregate_custom(&pkg, &shares, &grp.pkp, CheaterDetection::AllCheaters, &rr.params) {
                        Ok(_) => o.fail(format!("{tag}/tampered-participant-accepted"), format!("{ctx}: participant {} used a tampered {} and aggregation succeeded", id_short::<C>(tid), ["seed", "package"][mode])),
                        Err(e) => {
                            if culprit_set::<C>(&e) != vec![id_hex::<C>(tid)] {
                                o.fail(format!("{tag}/tampered-participant-not-blamed"), format!("{ctx}: culprits {:?}, expected exactly {}", culprit_set::<C>(&e), id_short::<C>(tid)));
                            } else {
                                o.count("tampered_participant_blamed", 1);
                            }
                        }
                    }
                }
            }
            o.class("binding");
        }
        Case::Faults { n, t, signers, cheaters, kind, seed, .. } => {
            let grp = cached_group::<C>(KeySrc::Dealer, *n, *t, IdKind::U16x, seed).expect("group");
            let s = pick::<C>(&grp.ids, *signers);
            let m = message(2);
            let label = format!("{seed}:faults:{signers}");
            let (nonces, comms) = commit_all::<C>(&grp.kps, &s, &label);
            let (nonces_b, comms_b) = commit_all::<C>(&grp.kps, &s, &format!("{label}.B"));
            let pkg = SigningPackage::<C>::new(comms.clone(), &m);
            let pkg_b = SigningPackage::<C>::new(comms_b.clone(), &m);
            let vk = *grp.pkp.verifying_key();
            let rr = make_params::<C>(&RSrc::Seeded("faults".into()), &vk, &comms, &label).expect("params");
            let sd = rr.seed.clone().unwrap();
            let mut shares = BTreeMap::new();
            let mut shares_b = BTreeMap::new();
            for id in &s {
                shares.insert(*id, C::w_rr_sign(&pkg, &nonces[id], &grp.kps[id], &sd).expect("sign"));
                shares_b.insert(*id, C::w_rr_sign(&pkg_b, &nonces_b[id], &grp.kps[id], &sd).expect("sign B"));
            }
            let honest = C::w_rr_aggregate(&pkg, &shares, &grp.pkp, &rr.params).expect("honest aggregate");
            let k = s.len();
            let chs = mask_indices(*cheaters);
            let mut errs = vec![zero::<C>(); k];
            let mut bad = shares.clone();
            for (pos, &ci) in chs.iter().enumerate() {
                let zi = share_scalar::<C>(&shares[&s[ci]]);
                let nz = match kind {
                    super::c04::Kind::PlusOne => zi + one::<C>(),
                    super::c04::Kind::Negated => neg::<C>(zi),
                    super::c04::Kind::OtherSession => share_scalar::<C>(&shares_b[&s[ci]]),
                    _ => {
                        if pos + 1 < chs.len() {
                            zi + one::<C>()
                        } else {
                            zi - sc_u64::<C>(chs.len() as u64 - 1)
                        }
                    }
                };
                errs[ci] = nz - zi;
                bad.insert(s[ci], share_from_scalar::<C>(nz));
            }
            o.eval(true);
            let ctx = format!("rerandomized n={n} t={t} S={signers:b} cheaters(pos)={chs:?} kind={kind:?}");
            let pkp = grp.pkp.clone();
            let params = rr.params.clone();
            let pkg2 = pkg.clone();
            let agg = move |sh: &BTreeMap<Id<C>, SignatureShare<C>>, cd: CheaterDetection| C::w_rr_aggregate_custom(&pkg2, sh, &pkp, cd, &params);
            super::c04::check_modes::<C>(&mut o, &tag, &ctx, &s, &honest, &errs, &agg, &bad, rr.params.randomized_verifying_key(), &m);
            // the mode-less re-randomized aggregate() behaves like FirstCheater, as the plain one does
            {
                let mut total = zero::<C>();
                for e in &errs {
                    total = total + *e;
                }
                let mut wrong: Vec<Id<C>> = s.iter().zip(&errs).filter(|(_, e)| **e != zero::<C>()).map(|(i, _)| *i).collect();
                sort_ids_numeric::<C>(&mut wrong);
                match C::w_rr_aggregate(&pkg, &bad, &grp.pkp, &rr.params) {
                    Ok(sig) => {
                        if total != zero::<C>() {
                            o.fail(format!("{tag}/released-despite-wrong-shares"), format!("{ctx}: aggregate()"));
                        } else if sig != honest {
                            o.fail(format!("{tag}/aggregate-modes-differ"), format!("{ctx}: aggregate()"));
                        }
                    }
                    Err(e) => {
                        let got = culprit_set::<C>(&e);
                        if total == zero::<C>() {
                            o.fail(format!("{tag}/rejected-valid-sum"), format!("{ctx}: aggregate(): {e:?}"));
                        } else if got != vec![id_hex::<C>(&wrong[0])] {
                            o.fail(format!("{tag}/first-cheater-wrong"), format!("{ctx}: the mode-less re-randomized aggregate() named {got:?}, expected exactly the numerically lowest wrong signer {}", id_short::<C>(&wrong[0])));
                        } else {
                            o.count("culprits_checked", 1);
                        }
                    }
                }
            }
        }
        Case::Large { n, signers, seed, .. } => {
            let grp = match make_group::<C>(KeySrc::Dealer, *n, 2, IdKind::Seq, seed) {
                Ok(g) => g,
                Err(e) => {
                    o.fail(format!("{tag}/setup"), e);
                    return o;
                }
            };
            let s: Vec<_> = grp.ids.iter().rev().take(*signers as usize).rev().copied().collect();
            let m = message(2);
            let ctx = format!("large n={n} |S|={signers}");
            let (nonces, comms) = commit_all::<C>(&grp.kps, &s, &format!("{seed}:large"));
            let pkg = SigningPackage::<C>::new(comms.clone(), &m);
            let vk = *grp.pkp.verifying_key();
            o.eval(true);
            let rr = match make_params::<C>(&RSrc::Seeded("large".into()), &vk, &comms, seed) {
                Ok(r) => r,
                Err(e) => {
                    o.fail(format!("{tag}/params-failed"), format!("{ctx}: {e}"));
                    return o;
                }
            };
            let sd = rr.seed.clone().unwrap();
            let want = C::ext_hrandomizer(&[sd.clone(), ref_encode_commitments::<C>(&comms)].concat());
            if rr.params.randomizer().serialize() != want {
                o.fail(format!("{tag}/randomizer-not-hash-of-seed-and-commitments"), ctx.clone());
            }
            let mut shares = BTreeMap::new();
            for id in &s {
                match C::w_rr_sign(&pkg, &nonces[id], &grp.kps[id], &sd) {
                    Ok(sh) => {
                        shares.insert(*id, sh);
                    }
                    Err(e) => {
                        o.fail(format!("{tag}/sign-refused"), format!("{ctx}: {e:?}"));
                        return o;
                    }
                }
            }
            match C::w_rr_aggregate(&pkg, &shares, &grp.pkp, &rr.params) {
                Ok(sig) => match verify_everywhere::<C>(rr.params.randomized_verifying_key(), &m, &sig) {
                    Ok(()) => o.count("sessions_verified_under_randomized_key", 1),
                    Err(e) => o.fail(format!("{tag}/not-valid-under-randomized-key"), format!("{ctx}: {e}")),
                },
                Err(e) => o.fail(format!("{tag}/aggregate-failed"), format!("{ctx}: {e:?}")),
            }
            o.class("large");
        }
        Case::Below { n, t, signers, seed, .. } => {
            let grp = cached_group::<C>(KeySrc::Dealer, *n, *t, IdKind::U16x, seed).expect("group");
            let s = pick::<C>(&grp.ids, *signers);
            let k = s.len() as u16;
            let m = message(2);
            let label = format!("{seed}:below:{signers}");
            let (nonces, comms) = commit_all::<C>(&grp.kps, &s, &label);
            let pkg = SigningPackage::<C>::new(comms.clone(), &m);
            let vk = *grp.pkp.verifying_key();
            let rr = make_params::<C>(&RSrc::Seeded("below".into()), &vk, &comms, &label).expect("params");
            let sd = rr.seed.clone().unwrap();
            let ctx = format!("rerandomized n={n} t={t} |S|={k}");
            o.eval(true);
            let mut shares = BTreeMap::new();
            for id in &s {
                if C::w_rr_sign(&pkg, &nonces[id], &grp.kps[id], &sd).is_ok() {
                    o.fail(format!("{tag}/signer-did-not-refuse"), format!("{ctx}: honest signer signed below the threshold"));
                }
                let kp = &grp.kps[id];
                let lk = KeyPackage::new(*kp.identifier(), *kp.signing_share(), *kp.verifying_share(), *kp.verifying_key(), k);
                if let Ok(sh) = C::w_rr_sign(&pkg, &nonces[id], &lk, &sd) {
                    shares.insert(*id, sh);
                }
            }
            for (pn, pm) in [("honest", Some(*t)), ("lowered", Some(k)), ("absent", None)] {
                let lp = fc::keys::PublicKeyPackage::<C>::new(grp.pkp.verifying_shares().clone(), vk, pm);
                for cd in [CheaterDetection::Disabled, CheaterDetection::FirstCheater, CheaterDetection::AllCheaters] {
                    o.count("culprits_checked", 1);
                    if let Ok(sig) = C::w_rr_aggregate_custom(&pkg, &shares, &lp, cd, &rr.params) {
                        let v = rr.params.randomized_verifying_key().verify(&m, &sig).is_ok();
                        o.fail(format!("{tag}/below-threshold-aggregated"), format!("{ctx} pkp-threshold={pn}: aggregate returned Ok (verifies: {v})"));
                    }
                }
            }
            o.class("below");
        }
    }
    o
}
