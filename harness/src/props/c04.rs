//! C04 — aggregation never releases an invalid signature and blames exactly the cheaters.

use crate::runner::{Outcome, Prop, Tier};
use crate::suites::{Id, REAL_SUITES, Suite};
use crate::tiny::{Sc, Tiny};
use crate::util::*;
use crate::with_suite;
use frost_core as fc;
use frost_core::keys::{IdentifierList, KeyPackage, PublicKeyPackage};
use frost_core::round2::SignatureShare;
use frost_core::{CheaterDetection, Identifier, Scalar, SigningKey};
use serde::{Deserialize, Serialize};
use serde_json::Value;
use std::collections::BTreeMap;
use std::sync::Arc;

pub struct C04;

#[derive(Serialize, Deserialize, Clone, Copy, Debug, PartialEq, Eq)]
pub enum Kind {
    PlusOne,
    Negated,
    Zero,
    /// the share of the next signer (cyclically) of the same session
    OtherSigner,
    /// the same signer's valid share from a concurrent session (other nonces, same message)
    OtherSession,
    /// +delta on the first cheater, -delta on the last (|K| = 2 only): errors cancel
    CancelPair,
    /// +1 on every cheater but the last, which gets -(|K|-1): errors cancel (|K| >= 2)
    CancelAll,
    /// the share the signer's own code produces when its two secret nonces have the wrong sign (the stored
    /// commitments unchanged): z_i -/+ 2(d_i + rho_i e_i)
    NonceSignFlipped,
}
pub const KINDS: [Kind; 8] = [
    Kind::NonceSignFlipped,
    Kind::PlusOne,
    Kind::Negated,
    Kind::Zero,
    Kind::OtherSigner,
    Kind::OtherSession,
    Kind::CancelPair,
    Kind::CancelAll,
];

#[derive(Serialize, Deserialize, Clone, Debug)]
#[serde(tag = "layer")]
enum Case {
    Real {
        suite: String,
        n: u16,
        t: u16,
        idkind: IdKind,
        src: KeySrc,
        signers: u32,
        /// bitmask over positions within the signer list
        cheaters: u32,
        kind: Kind,
        /// Taproot only: forced parities (group key Y odd, group commitment Y odd)
        key_odd: Option<bool>,
        r_odd: Option<bool>,
        seed: String,
    },
    /// honest-algorithm shares of a set below the real threshold, thresholds lied about:
    /// whatever aggregate returns as Ok must verify (C04's first sentence)
    Below { suite: String, n: u16, t: u16, signers: u32, seed: String },
    /// a large signer set with cheaters at the first, a middle and the last position
    Large { suite: String, signers: u16, seed: String },
    /// the same oracle on key material / through entry points that went through something else first:
    /// dealer refresh (unsorted list), distributed refresh, repair, a transported public key package, the
    /// legacy (threshold-less) public key package, the re-randomized aggregate, the Taproot tweak wrappers
    Provenance { suite: String, n: u16, t: u16, kind: String, cheaters: u32, key_odd: Option<bool>, seed: String },
    /// every error vector in GF(q)^k on a fixed non-degenerate session
    Tiny { q: u64, n: u16, t: u16, k: usize, seed: String },
}

/// Find a group whose verifying key has the wanted Y parity (SEC1 suites); None = first seed.
pub fn group_with_parity<C: Suite>(
    src: KeySrc,
    n: u16,
    t: u16,
    idkind: IdKind,
    seed: &str,
    key_odd: Option<bool>,
) -> Result<Arc<Grp<C>>, String> {
    for k in 0..64 {
        let g = cached_group::<C>(src, n, t, idkind, &format!("{seed}.g{k}"))?;
        match key_odd {
            None => return Ok(g),
            Some(w) => {
                if sec1_is_odd::<C>(&g.pkp.verifying_key().to_element()) == Some(w) {
                    return Ok(g);
                }
            }
        }
    }
    Err("MACHINERY: no group with the wanted key parity within 64 seeds".into())
}

/// Find a session whose group commitment has the wanted Y parity; returns session and honest signature.
pub fn session_with_parity<C: Suite>(
    kps: &BTreeMap<Id<C>, KeyPackage<C>>,
    pkp: &PublicKeyPackage<C>,
    s: &[Id<C>],
    m: &[u8],
    seed: &str,
    r_odd: Option<bool>,
) -> Result<(Sess<C>, fc::Signature<C>), String> {
    for k in 0..64 {
        let sess = run_session::<C>(kps, s, m, &format!("{seed}.r{k}"))?;
        let sig = fc::aggregate(&sess.pkg, &sess.shares, pkp).map_err(e2s("honest aggregate"))?;
        match r_odd {
            None => return Ok((sess, sig)),
            Some(w) => {
                if sec1_is_odd::<C>(sig.R()) == Some(w) {
                    return Ok((sess, sig));
                }
            }
        }
    }
    Err("MACHINERY: no session with the wanted R parity within 64 seeds".into())
}

impl Prop for C04 {
    fn id(&self) -> &'static str {
        "C04"
    }
    fn level(&self) -> &'static str {
        "fault_enumeration"
    }
    fn rule(&self) -> String {
        "complete enumeration: suites x shapes x signer sets x EVERY non-empty cheater subset x 7 wrong-share kinds (incl. cross-session and cancelling) x 3 detection modes + stand-alone share verification; Taproot: both key parities x both R parities forced; tiny field: EVERY error vector in GF(q)^k; a below-threshold sub-case (whatever aggregate returns as Ok must verify); one large signer set (100-200) with cheaters at the first, middle and last positions. Oracle is exact: e_i = z'_i - z_i computed by the harness. Non-trivial = at least one e_i != 0".into()
    }
    fn assumptions(&self) -> Vec<String> {
        vec!["wrong-share values on real curves are the 7 structured kinds; every value only on the tiny field".into()]
    }
    fn bound(&self, tier: Tier) -> String {
        format!(
            "shapes {:?}, |S|<=5, every cheater subset, 7 kinds, 3 modes; tiny q in {{7,11,13}} k<={}",
            real_shapes(tier),
            tier.pick(3, 4)
        )
    }
    fn required_counters(&self) -> Vec<&'static str> {
        vec!["expected_ok_cancelling", "expected_err", "tiny_vectors", "culprits_checked"]
    }
    fn min_classes(&self) -> usize {
        2
    }
    fn cases(&self, tier: Tier, seed: u64) -> Vec<Value> {
        let mut out = vec![];
        for (n, t) in real_shapes(tier) {
            for suite in REAL_SUITES {
                let tr = suite == "secp256k1-tr";
                if suite == "ed448" && n > tier.pick(4, 5) {
                    continue;
                }
                let idkinds: Vec<IdKind> = if tier == Tier::Quick {
                    vec![IdKind::U16x]
                } else {
                    vec![IdKind::Seq, IdKind::U16x, IdKind::Big]
                };
                for idkind in idkinds {
                    for src in [KeySrc::Dealer, KeySrc::Dkg] {
                        if src == KeySrc::Dkg && (tier == Tier::Quick && n > 3) {
                            continue;
                        }
                        let sets = subsets(n as usize, t as usize, std::cmp::min(n as usize, 5));
                        for s in sets {
                            // quick: the largest and the smallest sets only for n >= 5
                            let k = s.count_ones() as usize;
                            if tier == Tier::Quick && n >= 5 && k != t as usize && k != 5 {
                                continue;
                            }
                            if tier == Tier::Quick && n >= 5 && s % 3 != 1 {
                                continue;
                            }
                            for ch in subsets(k, 1, k) {
                                for kind in KINDS {
                                    if kind == Kind::CancelPair && ch.count_ones() != 2 {
                                        continue;
                                    }
                                    if kind == Kind::CancelAll && ch.count_ones() < 2 {
                                        continue;
                                    }
                                    let parities: Vec<(Option<bool>, Option<bool>)> = if tr {
                                        vec![
                                            (Some(false), Some(false)),
                                            (Some(false), Some(true)),
                                            (Some(true), Some(false)),
                                            (Some(true), Some(true)),
                                        ]
                                    } else {
                                        vec![(None, None)]
                                    };
                                    for (key_odd, r_odd) in parities {
                                        out.push(
                                            serde_json::to_value(Case::Real {
                                                suite: suite.to_string(),
                                                n,
                                                t,
                                                idkind,
                                                src,
                                                signers: s,
                                                cheaters: ch,
                                                kind,
                                                key_odd,
                                                r_odd,
                                                seed: format!("s{seed}"),
                                            })
                                            .unwrap(),
                                        );
                                    }
                                }
                            }
                        }
                    }
                }
            }
        }
        for (n, t) in real_shapes(tier) {
            for suite in REAL_SUITES {
                if suite == "ed448" && n > 4 {
                    continue;
                }
                for s in subsets(n as usize, 1, t as usize - 1) {
                    out.push(
                        serde_json::to_value(Case::Below { suite: suite.to_string(), n, t, signers: s, seed: format!("s{seed}") }).unwrap(),
                    );
                }
            }
        }
        for suite in REAL_SUITES {
            let k = if suite == "ed448" { tier.pick(40u16, 90u16) } else { tier.pick(100u16, 200u16) };
            out.push(serde_json::to_value(Case::Large { suite: suite.to_string(), signers: k, seed: format!("s{seed}") }).unwrap());
        }
        for suite in REAL_SUITES {
            let taproot = suite == "secp256k1-tr";
            for (n, t) in [(3u16, 2u16), (4, 3)] {
                if suite == "ed448" && n > 3 {
                    continue;
                }
                let mut kinds = vec!["refresh-dealer", "refresh-dkg", "repair", "wire-pkp", "legacy-pkp", "rerandomized"];
                if taproot {
                    kinds.extend(["tr-tweak-none", "tr-tweak-root"]);
                }
                for kind in kinds {
                    let parities: Vec<Option<bool>> = if taproot && kind.starts_with("tr-") { vec![Some(false), Some(true)] } else { vec![None] };
                    for key_odd in parities {
                        // signer set: t + 1 members where the group allows it; every non-empty cheater subset
                        let k = std::cmp::min(n, t + 1) as usize;
                        for ch in 1u32..(1u32 << k) {
                            out.push(serde_json::to_value(Case::Provenance { suite: suite.to_string(), n, t, kind: kind.to_string(), cheaters: ch, key_odd, seed: format!("s{seed}") }).unwrap());
                        }
                    }
                }
            }
        }
        for q in [7u64, 11, 13] {
            for k in 2..=tier.pick(3usize, 4usize) {
                for (n, t) in [(k as u16, k as u16), (k as u16 + 1, 2u16)] {
                    if n as u64 >= q {
                        continue;
                    }
                    out.push(
                        serde_json::to_value(Case::Tiny {
                            q,
                            n,
                            t,
                            k,
                            seed: format!("s{seed}"),
                        })
                        .unwrap(),
                    );
                }
            }
        }
        out
    }
    fn run(&self, case: &Value) -> Outcome {
        let c: Case = serde_json::from_value(case.clone()).expect("case");
        match &c {
            Case::Real { suite, .. } => with_suite!(suite.as_str(), run_real, &c),
            Case::Below { suite, .. } => with_suite!(suite.as_str(), run_below, &c),
            Case::Large { suite, .. } => with_suite!(suite.as_str(), run_large, &c),
            Case::Provenance { suite, .. } => with_suite!(suite.as_str(), run_provenance, &c),
            Case::Tiny { q, .. } => match q {
                7 => run_tiny::<7>(&c),
                11 => run_tiny::<11>(&c),
                13 => run_tiny::<13>(&c),
                _ => panic!("q"),
            },
        }
    }
}

fn real_shapes(tier: Tier) -> Vec<(u16, u16)> {
    match tier {
        Tier::Quick => vec![(2, 2), (3, 2), (4, 3), (5, 3)],
        Tier::Thorough => vec![(2, 2), (3, 2), (3, 3), (4, 2), (4, 3), (5, 3), (6, 4), (7, 5)],
    }
}

/// The exact oracle, shared with C17/C18. `errs[i]` is e_i for signer i of `s` (library order).
pub fn check_modes<C: Suite>(
    o: &mut Outcome,
    tag: &str,
    ctx: &str,
    s: &[Id<C>],
    honest_sig: &fc::Signature<C>,
    errs: &[Scalar<C>],
    agg: &dyn Fn(&BTreeMap<Id<C>, SignatureShare<C>>, CheaterDetection) -> Result<fc::Signature<C>, fc::Error<C>>,
    shares: &BTreeMap<Id<C>, SignatureShare<C>>,
    vk: &fc::VerifyingKey<C>,
    msg: &[u8],
) {
    let z = zero::<C>();
    let mut total = z;
    for e in errs {
        total = total + *e;
    }
    let mut wrong: Vec<Id<C>> = s.iter().zip(errs).filter(|(_, e)| **e != z).map(|(i, _)| *i).collect();
    // numeric order computed by the harness from the serialized scalars
    sort_ids_numeric::<C>(&mut wrong);
    let mut wrong_hex: Vec<String> = wrong.iter().map(|i| id_hex::<C>(i)).collect();
    let lowest = wrong_hex.first().cloned();
    wrong_hex.sort();
    for (mode_name, mode) in [
        ("Disabled", CheaterDetection::Disabled),
        ("FirstCheater", CheaterDetection::FirstCheater),
        ("AllCheaters", CheaterDetection::AllCheaters),
    ] {
        let r = agg(shares, mode);
        if total == z {
            // errors cancel (or no error): must be Ok, equal to the honest signature, and verify
            match r {
                Ok(sig) => {
                    if sig != *honest_sig {
                        o.fail(format!("{tag}/cancelling-ok-differs"), format!("{ctx} mode={mode_name}: Ok but differs from honest signature"));
                    }
                    if let Err(e) = verify_everywhere::<C>(vk, msg, &sig) {
                        o.fail(format!("{tag}/released-invalid-signature"), format!("{ctx} mode={mode_name}: {e}"));
                    }
                    if !wrong.is_empty() {
                        o.count("expected_ok_cancelling", 1);
                    }
                    o.class("ok");
                }
                Err(e) => {
                    o.fail(format!("{tag}/valid-sum-rejected/{mode_name}"), format!("{ctx}: shares sum to the valid signature but aggregate failed: {e:?}"));
                }
            }
        } else {
            o.count("expected_err", 1);
            match r {
                Ok(sig) => {
                    // released although the shares do not add up
                    let ok = vk.verify(msg, &sig).is_ok();
                    o.fail(
                        format!("{tag}/released-despite-wrong-shares/{mode_name}"),
                        format!("{ctx}: aggregate returned Ok although sum of errors != 0; signature verifies={ok}"),
                    );
                }
                Err(e) => {
                    let got = culprit_set::<C>(&e);
                    o.count("culprits_checked", 1);
                    match mode_name {
                        "Disabled" => {
                            if !got.is_empty() {
                                o.fail(format!("{tag}/disabled-names-someone"), format!("{ctx}: culprits {got:?} with detection disabled"));
                            }
                            o.class("err-disabled");
                        }
                        "FirstCheater" => {
                            let raw: Vec<String> = e.culprits().iter().map(|i| id_hex::<C>(i)).collect();
                            if raw.len() != 1 || Some(&raw[0]) != lowest.as_ref() {
                                o.fail(
                                    format!("{tag}/first-cheater-wrong"),
                                    format!("{ctx}: named {raw:?}, expected exactly the numerically lowest wrong signer {lowest:?} (wrong={wrong_hex:?})"),
                                );
                            }
                            o.class("err-first");
                        }
                        _ => {
                            let raw = e.culprits();
                            if got != wrong_hex || raw.len() != wrong_hex.len() {
                                o.fail(
                                    format!("{tag}/all-cheaters-wrong"),
                                    format!("{ctx}: named {got:?} (len {}), expected exactly {wrong_hex:?}", raw.len()),
                                );
                            }
                            o.class("err-all");
                        }
                    }
                }
            }
        }
    }
}

/// The share the library's own `sign` returns for nonces of the wrong sign whose stored commitments are the
/// honest ones (the nonce object is rebuilt through its JSON form, which carries the commitments).
pub fn flipped_nonce_share<C: Suite>(pkg: &fc::SigningPackage<C>, nonces: &fc::round1::SigningNonces<C>, kp: &fc::keys::KeyPackage<C>) -> Option<Scalar<C>> {
    let mut v = serde_json::to_value(nonces).ok()?;
    let d = neg::<C>(nonces.hiding().to_scalar());
    let e = neg::<C>(nonces.binding().to_scalar());
    v["hiding"] = serde_json::Value::from(hex::encode(sc_bytes::<C>(&d)));
    v["binding"] = serde_json::Value::from(hex::encode(sc_bytes::<C>(&e)));
    let forged: fc::round1::SigningNonces<C> = serde_json::from_value(v).ok()?;
    if forged.commitments() != nonces.commitments() {
        return None;
    }
    C::w_sign(pkg, &forged, kp).ok().map(|s| share_scalar::<C>(&s))
}

fn run_real<C: Suite>(c: &Case) -> Outcome {
    let mut o = Outcome::new();
    let Case::Real {
        n,
        t,
        idkind,
        src,
        signers,
        cheaters,
        kind,
        key_odd,
        r_odd,
        seed,
        ..
    } = c
    else {
        unreachable!()
    };
    let tag = format!("C04/{}", C::name());
    let grp = match group_with_parity::<C>(*src, *n, *t, *idkind, seed, *key_odd) {
        Ok(g) => g,
        Err(e) => {
            o.eval(false);
            o.fail(format!("{tag}/setup"), e);
            return o;
        }
    };
    let s = pick::<C>(&grp.ids, *signers);
    let m = message(2);
    let sseed = format!("{seed}:{signers}");
    let (sess, honest) = match session_with_parity::<C>(&grp.kps, &grp.pkp, &s, &m, &sseed, *r_odd) {
        Ok(x) => x,
        Err(e) => {
            o.eval(false);
            o.fail(format!("{tag}/setup"), e);
            return o;
        }
    };
    if C::TAPROOT {
        o.count(&format!("parity key_odd={key_odd:?} r_odd={r_odd:?}"), 1);
    }
    // concurrent session B: same signers, same message, other nonces
    let sess_b = run_session::<C>(&grp.kps, &s, &m, &format!("{sseed}.B")).expect("session B");
    let k = s.len();
    let chs = mask_indices(*cheaters);
    let mut errs: Vec<Scalar<C>> = vec![zero::<C>(); k];
    let mut shares = sess.shares.clone();
    let zs: Vec<Scalar<C>> = s.iter().map(|i| share_scalar::<C>(&sess.shares[i])).collect();
    for (pos_in_k, &ci) in chs.iter().enumerate() {
        let zi = zs[ci];
        let newz = match kind {
            Kind::PlusOne => zi + one::<C>(),
            Kind::Negated => neg::<C>(zi),
            Kind::Zero => zero::<C>(),
            Kind::OtherSigner => zs[(ci + 1) % k],
            Kind::OtherSession => share_scalar::<C>(&sess_b.shares[&s[ci]]),
            Kind::NonceSignFlipped => match flipped_nonce_share::<C>(&sess.pkg, &sess.nonces[&s[ci]], &grp.kps[&s[ci]]) {
                Some(z) => z,
                None => {
                    // a library that refuses to rebuild such a nonce object leaves nothing to check here
                    o.eval(false);
                    o.count("nonce_flip_not_constructible", 1);
                    return o;
                }
            },
            Kind::CancelPair => {
                let d = sc_seeded_nz::<C>("delta");
                if pos_in_k == 0 { zi + d } else { zi - d }
            }
            Kind::CancelAll => {
                if pos_in_k + 1 < chs.len() {
                    zi + one::<C>()
                } else {
                    zi - sc_u64::<C>(chs.len() as u64 - 1)
                }
            }
        };
        errs[ci] = newz - zi;
        shares.insert(s[ci], share_from_scalar::<C>(newz));
    }
    let nontrivial = errs.iter().any(|e| *e != zero::<C>());
    o.eval(nontrivial);
    let ctx = format!(
        "n={n} t={t} S={:?} cheaters(pos)={chs:?} kind={kind:?} key_odd={key_odd:?} r_odd={r_odd:?}",
        s.iter().map(|i| id_short::<C>(i)).collect::<Vec<_>>()
    );
    let pkp = grp.pkp.clone();
    let pkg = sess.pkg.clone();
    let agg = move |sh: &BTreeMap<Id<C>, SignatureShare<C>>, cd: CheaterDetection| C::w_aggregate_custom(&pkg, sh, &pkp, cd);
    check_modes::<C>(&mut o, &tag, &ctx, &s, &honest, &errs, &agg, &shares, grp.pkp.verifying_key(), &m);
    // plain aggregate == FirstCheater behaviour
    {
        let r = C::w_aggregate(&sess.pkg, &shares, &grp.pkp);
        let r2 = C::w_aggregate_custom(&sess.pkg, &shares, &grp.pkp, CheaterDetection::FirstCheater);
        let same = match (&r, &r2) {
            (Ok(a), Ok(b)) => a == b,
            (Err(a), Err(b)) => a.culprits() == b.culprits(),
            _ => false,
        };
        if !same {
            o.fail(format!("{tag}/aggregate-vs-firstcheater"), format!("{ctx}: aggregate() and aggregate_custom(FirstCheater) disagree"));
        }
    }
    // stand-alone share verification: Ok <=> e_i == 0
    for (i, id) in s.iter().enumerate() {
        let vs = grp.pkp.verifying_shares().get(id).expect("verifying share");
        let r = fc::verify_signature_share(*id, vs, &shares[id], &sess.pkg, grp.pkp.verifying_key());
        let expect_ok = errs[i] == zero::<C>();
        if r.is_ok() != expect_ok {
            o.fail(
                format!("{tag}/verify-share-wrong/{}", if expect_ok { "honest-rejected" } else { "wrong-accepted" }),
                format!("{ctx}: verify_signature_share(pos {i}) = {:?}, expected ok={expect_ok}", r.is_ok()),
            );
        }
        if let Err(e) = &r {
            let got = culprit_set::<C>(e);
            if got != vec![id_hex::<C>(id)] {
                o.fail(format!("{tag}/verify-share-culprit"), format!("{ctx}: share verification of pos {i} failed naming {got:?}"));
            }
        }
    }
    o
}

fn run_large<C: Suite>(c: &Case) -> Outcome {
    let mut o = Outcome::new();
    let Case::Large { signers, seed, .. } = c else { unreachable!() };
    let tag = format!("C04/{}/large", C::name());
    let n = *signers + 30;
    let grp = match make_group::<C>(KeySrc::Dealer, n, 2, IdKind::Seq, seed) {
        Ok(g) => g,
        Err(e) => {
            o.fail(format!("{tag}/setup"), e);
            return o;
        }
    };
    // the last `signers` participants (identifiers above 255 for the larger sets, gaps before them)
    let s: Vec<_> = grp.ids.iter().rev().take(*signers as usize).rev().copied().collect();
    let m = message(2);
    let sess = match run_session::<C>(&grp.kps, &s, &m, &format!("{seed}:large")) {
        Ok(x) => x,
        Err(e) => {
            o.fail(format!("{tag}/setup"), e);
            return o;
        }
    };
    let honest = match C::w_aggregate(&sess.pkg, &sess.shares, &grp.pkp) {
        Ok(x) => x,
        Err(e) => {
            o.fail(format!("{tag}/honest-aggregate-failed"), format!("{e:?}"));
            return o;
        }
    };
    let k = s.len();
    for chs in [vec![0usize], vec![k / 2], vec![k - 1], vec![0, k / 2, k - 1], vec![k - 2, k - 1]] {
        let mut errs = vec![zero::<C>(); k];
        let mut shares = sess.shares.clone();
        for ci in &chs {
            let zi = share_scalar::<C>(&sess.shares[&s[*ci]]);
            errs[*ci] = one::<C>();
            shares.insert(s[*ci], share_from_scalar::<C>(zi + one::<C>()));
        }
        o.eval(true);
        let ctx = format!("large |S|={k} cheaters(pos)={chs:?}");
        let pkp = grp.pkp.clone();
        let pkg = sess.pkg.clone();
        let agg = move |sh: &BTreeMap<Id<C>, SignatureShare<C>>, cd: CheaterDetection| C::w_aggregate_custom(&pkg, sh, &pkp, cd);
        check_modes::<C>(&mut o, &tag, &ctx, &s, &honest, &errs, &agg, &shares, grp.pkp.verifying_key(), &m);
    }
    o.class("large");
    o
}

fn run_provenance<C: Suite>(c: &Case) -> Outcome {
    let mut o = Outcome::new();
    let Case::Provenance { n, t, kind, cheaters, key_odd, seed, .. } = c else { unreachable!() };
    let tag = format!("C04/{}/{kind}", C::name());
    let grp = match group_with_parity::<C>(KeySrc::Dealer, *n, *t, IdKind::U16x, seed, *key_odd) {
        Ok(g) => g,
        Err(e) => {
            o.eval(false);
            o.fail(format!("{tag}/setup"), e);
            return o;
        }
    };
    let m = message(2);
    // key material
    let (kps, pkp, ids) = match kind.as_str() {
        "refresh-dealer" | "refresh-dkg" | "repair" => {
            let extra = std::cmp::min(*n, *t + 1) - *t;
            match super::c03::maintained::<C>(&grp, kind, extra, seed) {
                Ok(x) => x,
                Err(e) => {
                    o.eval(false);
                    o.fail(format!("{tag}/maintenance-failed"), format!("n={n} t={t}: {e}"));
                    return o;
                }
            }
        }
        "wire-pkp" => {
            let via_json = cheaters % 2 == 0;
            let w = if via_json {
                serde_json::to_string(&grp.pkp).ok().and_then(|j| serde_json::from_str(&j).ok())
            } else {
                grp.pkp.serialize().ok().and_then(|b| fc::keys::PublicKeyPackage::<C>::deserialize(&b).ok())
            };
            match w {
                Some(p) => (grp.kps.clone(), p, grp.ids.clone()),
                None => {
                    o.eval(false);
                    o.fail(format!("{tag}/transport-failed"), format!("n={n} t={t}"));
                    return o;
                }
            }
        }
        "legacy-pkp" => (grp.kps.clone(), fc::keys::PublicKeyPackage::<C>::new(grp.pkp.verifying_shares().clone(), *grp.pkp.verifying_key(), None), grp.ids.clone()),
        _ => (grp.kps.clone(), grp.pkp.clone(), grp.ids.clone()),
    };
    let k = std::cmp::min(ids.len(), *t as usize + 1);
    let s: Vec<Id<C>> = ids[ids.len() - k..].to_vec();
    let sseed = format!("{seed}:{kind}:{cheaters}");
    let (nonces, comms) = commit_all::<C>(&kps, &s, &sseed);
    let pkg = fc::SigningPackage::<C>::new(comms.clone(), &m);
    let root: Option<Option<Vec<u8>>> = match kind.as_str() {
        "tr-tweak-none" => Some(None),
        "tr-tweak-root" => Some(Some(vec![0x5a; 32])),
        _ => None,
    };
    // honest shares, honest signature, the key it verifies under, and the aggregators
    let mut shares = BTreeMap::new();
    let mut rr_params = None;
    if kind == "rerandomized" {
        let mut rng = crate::rng::ScriptedRng::ctr(format!("c04-rr:{sseed}"));
        match frost_rerandomized::RandomizedParams::<C>::new_from_commitments(pkp.verifying_key(), &comms, &mut rng) {
            Ok((p, sd)) => {
                for id in &s {
                    match C::w_rr_sign(&pkg, &nonces[id], &kps[id], &sd) {
                        Ok(sh) => {
                            shares.insert(*id, sh);
                        }
                        Err(e) => {
                            o.eval(false);
                            o.fail(format!("{tag}/honest-sign-failed"), format!("{e:?}"));
                            return o;
                        }
                    }
                }
                rr_params = Some(p);
            }
            Err(e) => {
                o.eval(false);
                o.fail(format!("{tag}/params-failed"), format!("{e:?}"));
                return o;
            }
        }
    } else {
        for id in &s {
            let r = match &root {
                Some(rt) => C::w_sign_with_tweak(&pkg, &nonces[id], &kps[id], rt.as_deref()).expect("taproot suite"),
                None => C::w_sign(&pkg, &nonces[id], &kps[id]),
            };
            match r {
                Ok(sh) => {
                    shares.insert(*id, sh);
                }
                Err(e) => {
                    o.eval(false);
                    o.fail(format!("{tag}/honest-sign-failed"), format!("{e:?}"));
                    return o;
                }
            }
        }
    }
    let pkp_used: fc::keys::PublicKeyPackage<C> = match &root {
        Some(rt) => C::w_tweaked_pkp(&pkp, rt.as_deref()).expect("taproot suite"),
        None => pkp.clone(),
    };
    let vk: fc::VerifyingKey<C> = match &rr_params {
        Some(p) => *p.randomized_verifying_key(),
        None => *pkp_used.verifying_key(),
    };
    let agg: Box<dyn Fn(&BTreeMap<Id<C>, SignatureShare<C>>, CheaterDetection) -> Result<fc::Signature<C>, fc::Error<C>>> = match &rr_params {
        Some(p) => {
            let (pkg2, pkp2, p2) = (pkg.clone(), pkp.clone(), p.clone());
            Box::new(move |sh, cd| C::w_rr_aggregate_custom(&pkg2, sh, &pkp2, cd, &p2))
        }
        None => {
            let (pkg2, pkp2) = (pkg.clone(), pkp_used.clone());
            Box::new(move |sh, cd| C::w_aggregate_custom(&pkg2, sh, &pkp2, cd))
        }
    };
    let honest = match agg(&shares, CheaterDetection::FirstCheater) {
        Ok(x) => x,
        Err(e) => {
            o.eval(false);
            o.fail(format!("{tag}/honest-aggregate-failed"), format!("n={n} t={t}: {e:?}"));
            return o;
        }
    };
    let chs = mask_indices(*cheaters);
    let mut errs = vec![zero::<C>(); k];
    let mut bad = shares.clone();
    for ci in &chs {
        let zi = share_scalar::<C>(&shares[&s[*ci]]);
        errs[*ci] = one::<C>();
        bad.insert(s[*ci], share_from_scalar::<C>(zi + one::<C>()));
    }
    o.eval(true);
    o.count("provenance_fault_sets", 1);
    let ctx = format!("n={n} t={t} {kind} key_odd={key_odd:?} S={:?} cheaters(pos)={chs:?}", s.iter().map(|i| id_short::<C>(i)).collect::<Vec<_>>());
    check_modes::<C>(&mut o, &tag, &ctx, &s, &honest, &errs, &*agg, &bad, &vk, &m);
    // the entry points without a mode argument behave like FirstCheater
    let mut wrong: Vec<Id<C>> = chs.iter().map(|ci| s[*ci]).collect();
    sort_ids_numeric::<C>(&mut wrong);
    let plain: Option<Result<fc::Signature<C>, fc::Error<C>>> = match (&root, &rr_params) {
        (Some(rt), _) => C::w_aggregate_with_tweak(&pkg, &bad, &pkp, rt.as_deref()),
        (None, Some(p)) => Some(C::w_rr_aggregate(&pkg, &bad, &pkp, p)),
        (None, None) => Some(C::w_aggregate(&pkg, &bad, &pkp)),
    };
    match plain {
        Some(Ok(_)) => o.fail(format!("{tag}/released-despite-wrong-shares"), ctx.clone()),
        Some(Err(e)) => {
            let got = culprit_set::<C>(&e);
            if got != vec![id_hex::<C>(&wrong[0])] {
                o.fail(format!("{tag}/first-cheater-wrong"), format!("{ctx}: the mode-less aggregate named {got:?}, expected exactly the numerically lowest wrong signer {}", id_short::<C>(&wrong[0])));
            }
        }
        None => {}
    }
    // stand-alone share verification against the package actually used
    if rr_params.is_none() {
        for (i, id) in s.iter().enumerate() {
            if let Some(vs) = pkp_used.verifying_shares().get(id) {
                let r = fc::verify_signature_share(*id, vs, &bad[id], &pkg, pkp_used.verifying_key());
                if r.is_ok() != (errs[i] == zero::<C>()) {
                    o.fail(format!("{tag}/verify-share-wrong"), format!("{ctx}: pos {i}: ok={}", r.is_ok()));
                }
            }
        }
    }
    o.class(format!("provenance-{kind}"));
    o
}

fn run_below<C: Suite>(c: &Case) -> Outcome {
    let mut o = Outcome::new();
    let Case::Below { n, t, signers, seed, .. } = c else { unreachable!() };
    let tag = format!("C04/{}", C::name());
    let grp = match cached_group::<C>(KeySrc::Dealer, *n, *t, IdKind::U16x, seed) {
        Ok(g) => g,
        Err(e) => {
            o.eval(false);
            o.fail(format!("{tag}/setup"), e);
            return o;
        }
    };
    let s = pick::<C>(&grp.ids, *signers);
    let k = s.len() as u16;
    let m = message(2);
    let mut kps = BTreeMap::new();
    for id in &s {
        let kp = &grp.kps[id];
        kps.insert(*id, KeyPackage::new(*kp.identifier(), *kp.signing_share(), *kp.verifying_share(), *kp.verifying_key(), k));
    }
    let Ok(sess) = run_session::<C>(&kps, &s, &m, &format!("{seed}:below:{signers}")) else {
        o.eval(false);
        return o;
    };
    o.eval(true);
    for pm in [Some(k), None, Some(1), Some(0)] {
        let lp = PublicKeyPackage::<C>::new(grp.pkp.verifying_shares().clone(), *grp.pkp.verifying_key(), pm);
        for (mn, mode) in [("Disabled", 0), ("FirstCheater", 1), ("AllCheaters", 2)] {
            let cd = match mode {
                0 => CheaterDetection::Disabled,
                1 => CheaterDetection::FirstCheater,
                _ => CheaterDetection::AllCheaters,
            };
            o.count("below_threshold_aggregations", 1);
            match C::w_aggregate_custom(&sess.pkg, &sess.shares, &lp, cd) {
                Ok(sig) => {
                    if let Err(e) = verify_everywhere::<C>(grp.pkp.verifying_key(), &m, &sig) {
                        o.fail(
                            format!("{tag}/released-invalid-signature/{mn}"),
                            format!("n={n} t={t} |S|={k} pkp-threshold={pm:?}: aggregate returned a signature that does not verify: {e}"),
                        );
                    }
                    o.class("below-ok");
                }
                Err(_) => o.class("below-err"),
            }
        }
    }
    o
}

fn run_tiny<const Q: u64>(c: &Case) -> Outcome {
    let mut o = Outcome::new();
    let Case::Tiny { n, t, k, seed, .. } = c else { unreachable!() };
    let tag = format!("C04/tiny{Q}");
    type T<const Q: u64> = Tiny<Q>;
    // find a non-degenerate base session
    let m = b"tiny c04";
    let mut base = None;
    for gs in 0..200 {
        let Ok(grp) = make_group::<T<Q>>(KeySrc::Dealer, *n, *t, IdKind::Seq, &format!("{seed}.{gs}")) else {
            continue;
        };
        let s: Vec<_> = grp.ids.iter().take(*k).copied().collect();
        let Ok(sess) = run_session::<T<Q>>(&grp.kps, &s, m, &format!("{seed}.{gs}")) else {
            continue;
        };
        let Ok(sig) = fc::aggregate(&sess.pkg, &sess.shares, &grp.pkp) else {
            continue;
        };
        base = Some((grp, s, sess, sig));
        break;
    }
    let Some((grp, s, sess, honest)) = base else {
        o.eval(false);
        o.fail(format!("{tag}/MACHINERY-no-base"), "no non-degenerate base session in 200 seeds".to_string());
        return o;
    };
    let zs: Vec<Sc<Q>> = s.iter().map(|i| share_scalar::<T<Q>>(&sess.shares[i])).collect();
    let pkp = grp.pkp.clone();
    let pkg = sess.pkg.clone();
    let agg = move |sh: &BTreeMap<Id<T<Q>>, SignatureShare<T<Q>>>, cd: CheaterDetection| fc::aggregate_custom(&pkg, sh, &pkp, cd);
    for ev in product(Q as usize, *k) {
        let errs: Vec<Sc<Q>> = ev.iter().map(|e| Sc::<Q>(*e as u64)).collect();
        let mut shares = sess.shares.clone();
        for (i, id) in s.iter().enumerate() {
            shares.insert(*id, share_from_scalar::<T<Q>>(zs[i] + errs[i]));
        }
        o.eval(ev.iter().any(|e| *e != 0));
        o.count("tiny_vectors", 1);
        let ctx = format!("tiny q={Q} n={n} t={t} k={k} errs={ev:?}");
        check_modes::<T<Q>>(&mut o, &tag, &ctx, &s, &honest, &errs, &agg, &shares, grp.pkp.verifying_key(), m);
        if o.findings.len() > 20 {
            break;
        }
    }
    o
}
