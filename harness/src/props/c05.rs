//! C05 — a signature share is bound to one message, one commitment set and one signer set.
//! E3: two concurrent sessions A and B over the same key; every A/B filling of every
//! commitment slot, nonce slot and share slot is executed on the real code and compared with
//! the reference acceptance predicate.

use crate::runner::{Outcome, Prop, Tier};
use crate::suites::{Id, REAL_SUITES, Suite};
use crate::util::*;
use crate::with_suite;
use frost_core as fc;
use frost_core::keys::PublicKeyPackage;
use frost_core::round1::{Nonce, NonceCommitment, SigningCommitments, SigningNonces};
use frost_core::round2::SignatureShare;
use frost_core::{CheaterDetection, SigningPackage};
use serde::{Deserialize, Serialize};
use serde_json::Value;
use std::collections::BTreeMap;

pub struct C05;

#[derive(Serialize, Deserialize, Clone, Debug)]
#[serde(tag = "part")]
enum Case {
    /// Sign(i, P, X) for every signer, package, nonce set; VerifyShare(P, i, z) for every z in U_i
    SignVerify { suite: String, n: u16, t: u16, k: usize, same_msg: bool, idkind: IdKind, seed: String },
    /// Aggregate(P, z) for one package P and EVERY share vector in the product of the universes
    Aggregate { suite: String, n: u16, t: u16, k: usize, same_msg: bool, idkind: IdKind, package: usize, seed: String },
    /// every single-field substitution of an honest (package, share); signer-side refusals
    Substitutions { suite: String, n: u16, t: u16, k: usize, idkind: IdKind, seed: String },
    /// the binding must cover EVERY byte of a long message and EVERY signer of a larger set:
    /// 1000-byte messages differing in one byte at several offsets; 7 signers, each one's
    /// commitments substituted
    LongAndWide { suite: String, seed: String },
}

impl Prop for C05 {
    fn id(&self) -> &'static str {
        "C05"
    }
    fn level(&self) -> &'static str {
        "model_checking"
    }
    fn rule(&self) -> String {
        "explicit-state exploration of two concurrent signing sessions A,B of the same signers on the real code: states = (package = per-slot A/B choice x message) x share universes; transitions = Sign(i,P,nonces_X) for every i,P,X, VerifyShare(P,i,z) for every z in the universe U_i of all shares signer i can be made to produce, Aggregate(P,zvec) for EVERY zvec in the product of universes; reference predicate: accepted <=> produced by Sign(i,P,.) for exactly this P. Plus every single-field substitution (message alphabet, each hiding/binding commitment, participant added/removed/swapped, group key, claimed identifier) and the signer-side refusals (missing / differing own entry incl. slot permutations, identity commitments in every slot); 1000-byte messages differing in a single byte at 18 offsets or in length; 7 signers with the commitments of each one substituted.".into()
    }
    fn assumptions(&self) -> Vec<String> {
        vec!["two sessions, |S| <= 3; nonces are seeded; accidental equality of distinct shares has negligible probability on the real curves and is checked not to occur".into()]
    }
    fn bound(&self, tier: Tier) -> String {
        format!("2 sessions, k={} signers: {} packages x universes of {} shares per signer; all suites", tier.pick(2, 3), tier.pick(8, 16), tier.pick(8, 16))
    }
    fn required_counters(&self) -> Vec<&'static str> {
        vec!["states", "transitions", "traces", "accepted", "rejected", "substitutions_rejected", "signer_refusals"]
    }
    fn cases(&self, tier: Tier, seed: u64) -> Vec<Value> {
        let mut out = vec![];
        for suite in REAL_SUITES {
            let shapes: Vec<(u16, u16, usize)> = match tier {
                Tier::Quick => vec![(3, 2, 2)],
                Tier::Thorough => {
                    if suite == "ed448" || suite == "p256" {
                        vec![(3, 2, 2), (4, 3, 3)]
                    } else {
                        vec![(3, 2, 2), (4, 3, 3), (4, 2, 3)]
                    }
                }
            };
            for (n, t, k) in shapes {
                for idkind in [IdKind::U16x] {
                    for same_msg in [false, true] {
                        out.push(serde_json::to_value(Case::SignVerify { suite: suite.to_string(), n, t, k, same_msg, idkind, seed: format!("s{seed}") }).unwrap());
                        let np = (1usize << k) * if same_msg { 1 } else { 2 };
                        for p in 0..np {
                            out.push(serde_json::to_value(Case::Aggregate { suite: suite.to_string(), n, t, k, same_msg, idkind, package: p, seed: format!("s{seed}") }).unwrap());
                        }
                    }
                    out.push(serde_json::to_value(Case::Substitutions { suite: suite.to_string(), n, t, k, idkind, seed: format!("s{seed}") }).unwrap());
                }
            }
            out.push(serde_json::to_value(Case::LongAndWide { suite: suite.to_string(), seed: format!("s{seed}") }).unwrap());
            // quick also runs the substitutions on a 3-signer set
            if tier == Tier::Quick {
                out.push(serde_json::to_value(Case::Substitutions { suite: suite.to_string(), n: 4, t: 3, k: 3, idkind: IdKind::U16x, seed: format!("s{seed}") }).unwrap());
            }
        }
        out
    }
    fn run(&self, case: &Value) -> Outcome {
        let c: Case = serde_json::from_value(case.clone()).expect("case");
        let suite = match &c {
            Case::SignVerify { suite, .. } | Case::Aggregate { suite, .. } | Case::Substitutions { suite, .. } | Case::LongAndWide { suite, .. } => suite.clone(),
        };
        with_suite!(suite.as_str(), run_case, &c)
    }
}

struct World<C: Suite> {
    grp: std::sync::Arc<Grp<C>>,
    s: Vec<Id<C>>,
    /// nonces[x][i], x in {A=0,B=1}
    nonces: [Vec<SigningNonces<C>>; 2],
    comms: [Vec<SigningCommitments<C>>; 2],
    msgs: [Vec<u8>; 2],
    /// packages: (fill vector, message index)
    packages: Vec<(Vec<usize>, usize)>,
}

fn world<C: Suite>(n: u16, t: u16, k: usize, same_msg: bool, idkind: IdKind, seed: &str) -> Result<World<C>, String> {
    let grp = cached_group::<C>(KeySrc::Dealer, n, t, idkind, seed)?;
    // a non-prefix signer set: the last k identifiers
    let s: Vec<_> = grp.ids.iter().rev().take(k).rev().copied().collect();
    let (na, ca) = commit_all::<C>(&grp.kps, &s, &format!("{seed}.A"));
    let (nb, cb) = commit_all::<C>(&grp.kps, &s, &format!("{seed}.B"));
    let nonces = [s.iter().map(|i| na[i].clone()).collect(), s.iter().map(|i| nb[i].clone()).collect()];
    let comms = [s.iter().map(|i| ca[i]).collect(), s.iter().map(|i| cb[i]).collect()];
    let msgs = [b"session message A".to_vec(), if same_msg { b"session message A".to_vec() } else { b"session message B".to_vec() }];
    let mut packages = vec![];
    for mi in 0..(if same_msg { 1 } else { 2 }) {
        for f in product(2, k) {
            packages.push((f, mi));
        }
    }
    Ok(World { grp, s, nonces, comms, msgs, packages })
}

impl<C: Suite> World<C> {
    fn pkg(&self, p: usize) -> SigningPackage<C> {
        let (f, mi) = &self.packages[p];
        let mut m = BTreeMap::new();
        for (i, id) in self.s.iter().enumerate() {
            m.insert(*id, self.comms[f[i]][i]);
        }
        SigningPackage::new(m, &self.msgs[*mi])
    }
    /// universe[i][p] = share of signer i for package p (signed with the nonce set the package names)
    fn universes(&self, o: &mut Outcome, tag: &str) -> Option<Vec<Vec<SignatureShare<C>>>> {
        let mut u = vec![vec![]; self.s.len()];
        for p in 0..self.packages.len() {
            let pkg = self.pkg(p);
            for (i, id) in self.s.iter().enumerate() {
                let x = self.packages[p].0[i];
                match C::w_sign(&pkg, &self.nonces[x][i], &self.grp.kps[id]) {
                    Ok(sh) => u[i].push(sh),
                    Err(e) => {
                        o.fail(format!("{tag}/matching-sign-refused"), format!("signer pos {i} refused package {p} whose entry matches its nonces: {e:?}"));
                        return None;
                    }
                }
            }
        }
        Some(u)
    }
}

fn run_case<C: Suite>(c: &Case) -> Outcome {
    let mut o = Outcome::new();
    let tag = format!("C05/{}", C::name());
    match c {
        Case::SignVerify { n, t, k, same_msg, idkind, seed, .. } => {
            let w = match world::<C>(*n, *t, *k, *same_msg, *idkind, seed) {
                Ok(w) => w,
                Err(e) => {
                    o.fail(format!("{tag}/setup"), e);
                    return o;
                }
            };
            let ctx = format!("n={n} t={t} k={k} same_msg={same_msg}");
            // Sign(i, P, X): Ok <=> P's entry for i is the commitment of nonces_X
            for p in 0..w.packages.len() {
                let pkg = w.pkg(p);
                for (i, id) in w.s.iter().enumerate() {
                    for x in 0..2 {
                        let r = C::w_sign(&pkg, &w.nonces[x][i], &w.grp.kps[id]);
                        let expect = w.packages[p].0[i] == x;
                        o.eval(true);
                        o.count("transitions", 1);
                        if r.is_ok() != expect {
                            o.fail(
                                format!("{tag}/sign-{}", if expect { "refused-matching" } else { "accepted-foreign-nonces" }),
                                format!("{ctx}: Sign(signer pos {i}, package {:?}, nonces of session {}) -> ok={}, expected ok={expect}", w.packages[p], ["A", "B"][x], r.is_ok()),
                            );
                        }
                        if expect {
                            o.count("accepted", 1);
                        } else {
                            o.count("rejected", 1);
                        }
                    }
                }
            }
            let Some(u) = w.universes(&mut o, &tag) else { return o };
            // distinctness of the universe (non-vacuity of the predicate)
            for (i, ui) in u.iter().enumerate() {
                for a in 0..ui.len() {
                    for b in (a + 1)..ui.len() {
                        if ui[a] == ui[b] {
                            o.fail(format!("{tag}/share-not-bound-to-package"), format!("{ctx}: signer pos {i} produced the same share for packages {:?} and {:?}", w.packages[a], w.packages[b]));
                        }
                    }
                }
            }
            o.count("states", (w.packages.len() * u.iter().map(|x| x.len()).sum::<usize>()) as u64);
            // VerifyShare(P, i, z) for every z in U_i
            for p in 0..w.packages.len() {
                let pkg = w.pkg(p);
                for (i, id) in w.s.iter().enumerate() {
                    let vs = w.grp.pkp.verifying_shares()[id];
                    for (q, z) in u[i].iter().enumerate() {
                        let r = fc::verify_signature_share(*id, &vs, z, &pkg, w.grp.pkp.verifying_key());
                        let expect = p == q;
                        o.eval(true);
                        o.count("transitions", 1);
                        if r.is_ok() != expect {
                            o.fail(
                                format!("{tag}/verify-share-{}", if expect { "rejected-own" } else { "accepted-foreign" }),
                                format!("{ctx}: VerifyShare(package {:?}, signer pos {i}, share made for package {:?}) -> ok={}, expected {expect}", w.packages[p], w.packages[q], r.is_ok()),
                            );
                        }
                        if expect {
                            o.count("accepted", 1);
                        } else {
                            o.count("rejected", 1);
                        }
                    }
                }
            }
            o.count("traces", 1);
            o.class("sign-verify");
        }
        Case::Aggregate { n, t, k, same_msg, idkind, package, seed, .. } => {
            let w = match world::<C>(*n, *t, *k, *same_msg, *idkind, seed) {
                Ok(w) => w,
                Err(e) => {
                    o.fail(format!("{tag}/setup"), e);
                    return o;
                }
            };
            let ctx = format!("n={n} t={t} k={k} same_msg={same_msg} package={:?}", w.packages[*package]);
            let Some(u) = w.universes(&mut o, &tag) else { return o };
            let pkg = w.pkg(*package);
            let np = w.packages.len();
            let mut sorted_s = w.s.clone();
            sort_ids_numeric::<C>(&mut sorted_s);
            for fill in product(np, *k) {
                let mut shares = BTreeMap::new();
                for (i, id) in w.s.iter().enumerate() {
                    shares.insert(*id, u[i][fill[i]]);
                }
                let expect = fill.iter().all(|q| q == package);
                let r = C::w_aggregate(&pkg, &shares, &w.grp.pkp);
                o.eval(true);
                o.count("transitions", 1);
                o.count("states", 1);
                if r.is_ok() != expect {
                    o.fail(
                        format!("{tag}/aggregate-{}", if expect { "rejected-own-shares" } else { "accepted-foreign-shares" }),
                        format!("{ctx}: Aggregate with shares made for packages {:?} -> ok={}, expected {expect}", fill.iter().map(|q| &w.packages[*q]).collect::<Vec<_>>(), r.is_ok()),
                    );
                }
                match r {
                    Ok(sig) => {
                        o.count("accepted", 1);
                        if let Err(e) = verify_everywhere::<C>(w.grp.pkp.verifying_key(), &w.msgs[w.packages[*package].1], &sig) {
                            o.fail(format!("{tag}/released-invalid"), format!("{ctx}: {e}"));
                        }
                    }
                    Err(e) => {
                        o.count("rejected", 1);
                        // FirstCheater names the numerically lowest slot holding a foreign share
                        let lowest = sorted_s.iter().find(|id| {
                            let i = w.s.iter().position(|x| x == *id).unwrap();
                            fill[i] != *package
                        });
                        let got = e.culprits();
                        if got.len() != 1 || Some(&got[0]) != lowest {
                            o.fail(format!("{tag}/aggregate-culprit"), format!("{ctx}: fill {fill:?}: culprits {:?}, expected the lowest foreign slot", got.iter().map(|i| id_short::<C>(i)).collect::<Vec<_>>()));
                        }
                    }
                }
            }
            o.count("traces", 1);
            o.class("aggregate");
        }
        Case::Substitutions { n, t, k, idkind, seed, .. } => substitutions::<C>(&mut o, &tag, *n, *t, *k, *idkind, seed),
        Case::LongAndWide { seed, .. } => long_and_wide::<C>(&mut o, &tag, seed),
    }
    o
}

fn substitutions<C: Suite>(o: &mut Outcome, tag: &str, n: u16, t: u16, k: usize, idkind: IdKind, seed: &str) {
    let w = match world::<C>(n, t, k, false, idkind, seed) {
        Ok(w) => w,
        Err(e) => {
            o.fail(format!("{tag}/setup"), e);
            return;
        }
    };
    let ctx = format!("n={n} t={t} k={k}");
    // honest session A: package index with fill all-A, message A
    let p0 = w.packages.iter().position(|(f, mi)| f.iter().all(|x| *x == 0) && *mi == 0).unwrap();
    let pkg = w.pkg(p0);
    let mut shares = BTreeMap::new();
    for (i, id) in w.s.iter().enumerate() {
        shares.insert(*id, C::w_sign(&pkg, &w.nonces[0][i], &w.grp.kps[id]).expect("honest sign"));
    }
    let vk = *w.grp.pkp.verifying_key();
    let honest = C::w_aggregate(&pkg, &shares, &w.grp.pkp).expect("honest aggregate");
    let _ = honest;
    o.count("states", 1);
    // helper: a substituted package must reject every honest share and the aggregate
    let mut must_reject = |o: &mut Outcome, what: &str, newpkg: &SigningPackage<C>, pkp: &PublicKeyPackage<C>, check_shares_of: &[usize], extra: &BTreeMap<Id<C>, SignatureShare<C>>| {
        for &i in check_shares_of {
            let id = w.s[i];
            let Some(vs) = pkp.verifying_shares().get(&id) else { continue };
            o.eval(true);
            o.count("transitions", 1);
            if fc::verify_signature_share(id, vs, &shares[&id], newpkg, pkp.verifying_key()).is_ok() {
                o.fail(format!("{tag}/substitution-accepted/verify-share/{what}"), format!("{ctx}: share of signer pos {i} still verifies after substituting {what}"));
            } else {
                o.count("substitutions_rejected", 1);
            }
        }
        o.eval(true);
        o.count("transitions", 1);
        // the share map must match the package's identifier set for aggregate to get as far as verification
        let mut sm = BTreeMap::new();
        for id in newpkg.signing_commitments().keys() {
            if let Some(s) = shares.get(id) {
                sm.insert(*id, *s);
            } else if let Some(s) = extra.get(id) {
                // a newcomer's honest share for the substituted package
                sm.insert(*id, *s);
            } else {
                sm.insert(*id, share_from_scalar::<C>(sc_seeded::<C>("filler")));
            }
        }
        for cd in [CheaterDetection::Disabled, CheaterDetection::FirstCheater] {
            if C::w_aggregate_custom(newpkg, &sm, pkp, cd).is_ok() {
                o.fail(format!("{tag}/substitution-accepted/aggregate/{what}"), format!("{ctx}: aggregate succeeds after substituting {what}"));
            } else {
                o.count("substitutions_rejected", 1);
            }
        }
    };
    let all: Vec<usize> = (0..k).collect();
    let none: BTreeMap<Id<C>, SignatureShare<C>> = BTreeMap::new();
    // message
    for mi in 0..11 {
        let m = message(mi);
        if m == w.msgs[0] {
            continue;
        }
        let np = SigningPackage::<C>::new(pkg.signing_commitments().clone(), &m);
        must_reject(o, "message", &np, &w.grp.pkp, &all, &none);
    }
    // each signer's hiding / binding commitment replaced by another valid one
    for j in 0..k {
        let cj = w.comms[0][j];
        let cbj = w.comms[1][j];
        let variants: Vec<(&str, SigningCommitments<C>)> = vec![
            ("hiding-commitment", SigningCommitments::new(*cbj.hiding(), *cj.binding())),
            ("binding-commitment", SigningCommitments::new(*cj.hiding(), *cbj.binding())),
            ("hiding-binding-swapped", SigningCommitments::new(*cj.binding(), *cj.hiding())),
            ("hiding-commitment", SigningCommitments::new(NonceCommitment::new(cj.hiding().value() + G::<C>::generator()), *cj.binding())),
            ("binding-commitment", SigningCommitments::new(*cj.hiding(), NonceCommitment::new(cj.binding().value() + G::<C>::generator()))),
        ];
        for (what, nc) in variants {
            let mut m = pkg.signing_commitments().clone();
            m.insert(w.s[j], nc);
            let np = SigningPackage::<C>::new(m, &w.msgs[0]);
            must_reject(o, what, &np, &w.grp.pkp, &all, &none);
        }
    }
    // participant set: one added, one removed, one swapped
    let outsider = w.grp.ids.iter().find(|i| !w.s.contains(i)).copied();
    if let Some(x) = outsider {
        let (nx, cx) = commit_all::<C>(&w.grp.kps, &[x], "outsider");
        let mut m = pkg.signing_commitments().clone();
        m.insert(x, cx[&x]);
        let np = SigningPackage::<C>::new(m, &w.msgs[0]);
        let mut extra = BTreeMap::new();
        if let Ok(sx) = C::w_sign(&np, &nx[&x], &w.grp.kps[&x]) {
            extra.insert(x, sx);
        }
        must_reject(o, "participant-added", &np, &w.grp.pkp, &all, &extra);
        for j in 0..k {
            let mut m = pkg.signing_commitments().clone();
            m.remove(&w.s[j]);
            m.insert(x, cx[&x]);
            let rest: Vec<usize> = (0..k).filter(|i| *i != j).collect();
            let np = SigningPackage::<C>::new(m, &w.msgs[0]);
            let mut extra = BTreeMap::new();
            if let Ok(sx) = C::w_sign(&np, &nx[&x], &w.grp.kps[&x]) {
                extra.insert(x, sx);
            }
            must_reject(o, "participant-swapped", &np, &w.grp.pkp, &rest, &extra);
        }
    }
    for j in 0..k {
        let mut m = pkg.signing_commitments().clone();
        m.remove(&w.s[j]);
        let rest: Vec<usize> = (0..k).filter(|i| *i != j).collect();
        // aggregate of k-1 < t shares is refused for the count; with a lowered threshold it must still fail
        let lp = PublicKeyPackage::<C>::new(w.grp.pkp.verifying_shares().clone(), vk, None);
        must_reject(o, "participant-removed", &SigningPackage::<C>::new(m, &w.msgs[0]), &lp, &rest, &none);
    }
    // group key
    {
        let other = cached_group::<C>(KeySrc::Dealer, n, t, idkind, &format!("{seed}.othergroup")).expect("other group");
        for (what, nvk) in [("group-key-other-group", *other.pkp.verifying_key()), ("group-key+G", fc::VerifyingKey::<C>::new(vk.to_element() + G::<C>::generator()))] {
            let np = PublicKeyPackage::<C>::new(w.grp.pkp.verifying_shares().clone(), nvk, w.grp.pkp.min_signers());
            must_reject(o, what, &pkg, &np, &all, &none);
        }
    }
    // claimed identifier
    for i in 0..k {
        for j in 0..k {
            if i == j {
                continue;
            }
            for (what, vs) in [("claimed-identifier-own-verifying-share", w.grp.pkp.verifying_shares()[&w.s[i]]), ("claimed-identifier-their-verifying-share", w.grp.pkp.verifying_shares()[&w.s[j]])] {
                o.eval(true);
                o.count("transitions", 1);
                if fc::verify_signature_share(w.s[j], &vs, &shares[&w.s[i]], &pkg, &vk).is_ok() {
                    o.fail(format!("{tag}/substitution-accepted/verify-share/{what}"), format!("{ctx}: share of pos {i} accepted as coming from pos {j}"));
                } else {
                    o.count("substitutions_rejected", 1);
                }
            }
            // the share of pos i presented (also) as pos j's. NOT asserted: a mere permutation of the
            // honest shares among the slots - the sum is unchanged, the aggregate is the valid signature
            // and C04 explicitly allows cancelling alterations to yield a valid signature.
            let mut sm = shares.clone();
            sm.insert(w.s[j], shares[&w.s[i]]);
            o.eval(true);
            o.count("transitions", 1);
            if C::w_aggregate(&pkg, &sm, &w.grp.pkp).is_ok() {
                o.fail(format!("{tag}/substitution-accepted/aggregate/claimed-identifier"), format!("{ctx}: share of pos {i} filed under pos {j} as well"));
            } else {
                o.count("substitutions_rejected", 1);
            }
        }
    }
    // the share of pos i RE-FILED under an identifier that is not in the signing package (a group member that does
    // not sign in this session, or a stranger): same number of shares, same sum - every mode must reject,
    // with the current and with the pre-3.0 (threshold-less) public key package
    {
        let mut outsiders: Vec<Id<C>> = w.grp.ids.iter().filter(|i| !w.s.contains(i)).take(1).copied().collect();
        outsiders.push(fc::Identifier::<C>::try_from(31337u16).unwrap());
        let legacy = PublicKeyPackage::<C>::new(w.grp.pkp.verifying_shares().clone(), *w.grp.pkp.verifying_key(), None);
        for i in 0..k {
            for x in &outsiders {
                let mut sm = shares.clone();
                let z = sm.remove(&w.s[i]).unwrap();
                sm.insert(*x, z);
                for (pn, pk) in [("current", &w.grp.pkp), ("legacy", &legacy)] {
                    for (mn, md) in [("Disabled", 0), ("FirstCheater", 1), ("AllCheaters", 2)] {
                        let cd = match md {
                            0 => fc::CheaterDetection::Disabled,
                            1 => fc::CheaterDetection::FirstCheater,
                            _ => fc::CheaterDetection::AllCheaters,
                        };
                        o.eval(true);
                        o.count("transitions", 1);
                        if C::w_aggregate_custom(&pkg, &sm, pk, cd).is_ok() {
                            o.fail(format!("{tag}/substitution-accepted/aggregate/claimed-identifier-outside-package"), format!("{ctx}: share of pos {i} re-filed under {} ({pn} public key package, {mn}): aggregate returned Ok", id_short::<C>(x)));
                        } else {
                            o.count("substitutions_rejected", 1);
                        }
                    }
                }
                o.eval(true);
                if C::w_aggregate(&pkg, &sm, &legacy).is_ok() || C::w_aggregate(&pkg, &sm, &w.grp.pkp).is_ok() {
                    o.fail(format!("{tag}/substitution-accepted/aggregate/claimed-identifier-outside-package"), format!("{ctx}: share of pos {i} re-filed under {}: aggregate() returned Ok", id_short::<C>(x)));
                }
            }
        }
    }
    // ---------------- signer side ----------------
    for i in 0..k {
        let id = w.s[i];
        let kp = &w.grp.kps[&id];
        let ca = w.comms[0][i];
        let cb = w.comms[1][i];
        let mut refuse = |o: &mut Outcome, what: &str, m: BTreeMap<Id<C>, SigningCommitments<C>>, nonces: &SigningNonces<C>| {
            let np = SigningPackage::<C>::new(m, &w.msgs[0]);
            o.eval(true);
            o.count("transitions", 1);
            match C::w_sign(&np, nonces, kp) {
                Ok(_) => o.fail(format!("{tag}/signer-did-not-refuse/{what}"), format!("{ctx}: signer pos {i} signed although {what}")),
                Err(_) => o.count("signer_refusals", 1),
            }
        };
        let base = pkg.signing_commitments().clone();
        let mut m = base.clone();
        m.remove(&id);
        // keep the count >= t by adding an outsider so the refusal must come from the missing entry
        if let Some(x) = outsider {
            let (_, cx) = commit_all::<C>(&w.grp.kps, &[x], "outsider");
            m.insert(x, cx[&x]);
        }
        refuse(o, "own-entry-missing", m, &w.nonces[0][i]);
        for (what, nc) in [
            ("own-hiding-differs", SigningCommitments::new(*cb.hiding(), *ca.binding())),
            ("own-binding-differs", SigningCommitments::new(*ca.hiding(), *cb.binding())),
            ("own-both-differ", cb),
            ("own-hiding-binding-swapped", SigningCommitments::new(*ca.binding(), *ca.hiding())),
        ] {
            let mut m = base.clone();
            m.insert(id, nc);
            refuse(o, what, m, &w.nonces[0][i]);
        }
        // slot permutations: own commitments parked under another signer's identifier
        for j in 0..k {
            if j == i {
                continue;
            }
            let mut m = base.clone();
            m.insert(id, w.comms[0][j]);
            m.insert(w.s[j], ca);
            refuse(o, "own-entry-swapped-with-another-slot", m, &w.nonces[0][i]);
            let mut m = base.clone();
            m.insert(id, cb);
            m.insert(w.s[j], ca);
            refuse(o, "own-entry-from-other-session-own-commitments-parked-elsewhere", m, &w.nonces[0][i]);
        }
        // identity commitments, in every slot and both fields
        let zero_n = Nonce::<C>::from_scalar(zero::<C>());
        for j in 0..k {
            for field in 0..2 {
                let (hn, bn) = if j == i {
                    // the signer's own nonces contain a zero nonce: its entry is an identity commitment
                    if field == 0 { (zero_n, *w.nonces[0][i].binding()) } else { (*w.nonces[0][i].hiding(), zero_n) }
                } else if field == 0 {
                    (zero_n, *w.nonces[0][j].binding())
                } else {
                    (*w.nonces[0][j].hiding(), zero_n)
                };
                let bad = SigningNonces::<C>::from_nonces(hn, bn);
                let mut m = base.clone();
                m.insert(w.s[j], *bad.commitments());
                let my_nonces = if j == i { bad.clone() } else { w.nonces[0][i].clone() };
                refuse(o, "identity-commitment-in-package", m.clone(), &my_nonces);
                let np = SigningPackage::<C>::new(m, &w.msgs[0]);
                o.eval(true);
                o.count("transitions", 2);
                if C::w_aggregate(&np, &shares, &w.grp.pkp).is_ok() {
                    o.fail(format!("{tag}/identity-commitment-accepted/aggregate"), format!("{ctx}: slot {j} field {field}"));
                } else {
                    o.count("substitutions_rejected", 1);
                }
                if fc::verify_signature_share(id, &w.grp.pkp.verifying_shares()[&id], &shares[&id], &np, &vk).is_ok() {
                    o.fail(format!("{tag}/identity-commitment-accepted/verify-share"), format!("{ctx}: slot {j} field {field}"));
                } else {
                    o.count("substitutions_rejected", 1);
                }
            }
        }
    }
    o.count("traces", 1);
    o.class("substitutions");
}


fn long_and_wide<C: Suite>(o: &mut Outcome, tag: &str, seed: &str) {
    let grp = match cached_group::<C>(KeySrc::Dealer, 8, 2, IdKind::U16x, seed) {
        Ok(g) => g,
        Err(e) => {
            o.fail(format!("{tag}/setup"), e);
            return;
        }
    };
    let vk = *grp.pkp.verifying_key();
    // ---- long message, two signers: one byte changed at several offsets ----
    {
        let s: Vec<_> = grp.ids.iter().take(2).copied().collect();
        let base: Vec<u8> = (0..1000usize).map(|i| (i * 13 + 5) as u8).collect();
        let Ok(sess) = run_session::<C>(&grp.kps, &s, &base, &format!("{seed}.long")) else {
            o.fail(format!("{tag}/setup"), "long-message session failed".to_string());
            return;
        };
        o.count("states", 1);
        for off in [0usize, 1, 63, 64, 127, 128, 255, 256, 400, 415, 416, 417, 511, 512, 513, 767, 998, 999] {
            let mut m2 = base.clone();
            m2[off] ^= 1;
            let np = SigningPackage::<C>::new(sess.comms.clone(), &m2);
            o.eval(true);
            o.count("transitions", 2);
            for id in &s {
                if fc::verify_signature_share(*id, &grp.pkp.verifying_shares()[id], &sess.shares[id], &np, &vk).is_ok() {
                    o.fail(format!("{tag}/substitution-accepted/verify-share/long-message-byte"), format!("a share for a 1000-byte message is accepted for the message with byte {off} changed"));
                } else {
                    o.count("substitutions_rejected", 1);
                }
            }
            if C::w_aggregate(&np, &sess.shares, &grp.pkp).is_ok() {
                o.fail(format!("{tag}/substitution-accepted/aggregate/long-message-byte"), format!("byte {off} of a 1000-byte message changed"));
            } else {
                o.count("substitutions_rejected", 1);
            }
        }
        // truncated / extended long message
        for m2 in [base[..999].to_vec(), [base.clone(), vec![0]].concat(), base[..512].to_vec()] {
            let np = SigningPackage::<C>::new(sess.comms.clone(), &m2);
            o.eval(true);
            o.count("transitions", 1);
            if C::w_aggregate(&np, &sess.shares, &grp.pkp).is_ok() {
                o.fail(format!("{tag}/substitution-accepted/aggregate/long-message-length"), format!("message length {} instead of 1000", m2.len()));
            } else {
                o.count("substitutions_rejected", 1);
            }
        }
    }
    // ---- seven signers: every signer's commitments substituted, shares of the OTHERS must be rejected ----
    {
        let s: Vec<_> = grp.ids.iter().take(7).copied().collect();
        let m = b"wide session".to_vec();
        let (Ok(sess), Ok(sess_b)) = (run_session::<C>(&grp.kps, &s, &m, &format!("{seed}.wide")), run_session::<C>(&grp.kps, &s, &m, &format!("{seed}.wideB"))) else {
            o.fail(format!("{tag}/setup"), "wide session failed".to_string());
            return;
        };
        o.count("states", 1);
        for (j, jid) in s.iter().enumerate() {
            for (what, nc) in [
                ("hiding", SigningCommitments::new(*sess_b.comms[jid].hiding(), *sess.comms[jid].binding())),
                ("binding", SigningCommitments::new(*sess.comms[jid].hiding(), *sess_b.comms[jid].binding())),
            ] {
                let mut cm = sess.comms.clone();
                cm.insert(*jid, nc);
                let np = SigningPackage::<C>::new(cm, &m);
                for (i, id) in s.iter().enumerate() {
                    if i == j {
                        continue;
                    }
                    o.eval(true);
                    o.count("transitions", 1);
                    if fc::verify_signature_share(*id, &grp.pkp.verifying_shares()[id], &sess.shares[id], &np, &vk).is_ok() {
                        o.fail(format!("{tag}/substitution-accepted/verify-share/wide-{what}-commitment"), format!("7 signers: {what} commitment of signer #{j} replaced, share of signer #{i} still verifies"));
                    } else {
                        o.count("substitutions_rejected", 1);
                    }
                }
            }
        }
    }
    o.count("traces", 1);
    o.class("long-and-wide");
}
