//! Shared helpers: scalar helpers generic over the ciphersuite, identifier
//! kinds, combinatorial enumerators, key-group and signing-session builders,
//! boring reference arithmetic (O3).

use crate::rng::ScriptedRng;
use crate::suites::{Id, Suite};
use frost_core as fc;
use frost_core::keys::dkg::{round1 as d1, round2 as d2};
use frost_core::keys::{
    IdentifierList, KeyPackage, PublicKeyPackage, SecretShare, VerifiableSecretSharingCommitment,
};
use frost_core::round1::{SigningCommitments, SigningNonces};
use frost_core::round2::SignatureShare;
pub use frost_core::{Field, Group};
use frost_core::{Element, Identifier, Scalar, SigningKey, SigningPackage};
use serde::{Deserialize, Serialize};
use std::collections::BTreeMap;

pub type F<C> = <<C as fc::Ciphersuite>::Group as Group>::Field;
pub type G<C> = <C as fc::Ciphersuite>::Group;

pub fn zero<C: Suite>() -> Scalar<C> {
    F::<C>::zero()
}
pub fn one<C: Suite>() -> Scalar<C> {
    F::<C>::one()
}
pub fn neg<C: Suite>(x: Scalar<C>) -> Scalar<C> {
    zero::<C>() - x
}
pub fn sc_u64<C: Suite>(mut x: u64) -> Scalar<C> {
    // double-and-add from the most significant bit
    let mut acc = zero::<C>();
    let o = one::<C>();
    let mut bits = vec![];
    while x > 0 {
        bits.push(x & 1);
        x >>= 1;
    }
    for b in bits.iter().rev() {
        acc = acc + acc;
        if *b == 1 {
            acc = acc + o;
        }
    }
    acc
}
pub fn pow2<C: Suite>(k: u32) -> Scalar<C> {
    let mut acc = one::<C>();
    for _ in 0..k {
        acc = acc + acc;
    }
    acc
}
pub fn sc_bytes<C: Suite>(x: &Scalar<C>) -> Vec<u8> {
    F::<C>::serialize(x).as_ref().to_vec()
}
pub fn sc_hex<C: Suite>(x: &Scalar<C>) -> String {
    hex::encode(sc_bytes::<C>(x))
}
pub fn el_bytes<C: Suite>(e: &Element<C>) -> Option<Vec<u8>> {
    G::<C>::serialize(e).ok().map(|s| s.as_ref().to_vec())
}
pub fn el_hex<C: Suite>(e: &Element<C>) -> String {
    el_bytes::<C>(e).map(hex::encode).unwrap_or_else(|| "identity".into())
}
pub fn gen_mul<C: Suite>(s: Scalar<C>) -> Element<C> {
    G::<C>::generator() * s
}
/// A seeded scalar (uniform, via the suite's own `Field::random` on a counter stream).
pub fn sc_seeded<C: Suite>(label: &str) -> Scalar<C> {
    let mut rng = ScriptedRng::ctr(format!("sc:{label}"));
    F::<C>::random(&mut rng)
}
pub fn sc_seeded_nz<C: Suite>(label: &str) -> Scalar<C> {
    let mut rng = ScriptedRng::ctr(format!("scnz:{label}"));
    loop {
        let s = F::<C>::random(&mut rng);
        if s != zero::<C>() {
            return s;
        }
    }
}
pub fn id_hex<C: Suite>(id: &Id<C>) -> String {
    hex::encode(id.serialize())
}
/// short printable id: strip zero bytes
pub fn id_short<C: Suite>(id: &Id<C>) -> String {
    let h = id_hex::<C>(id);
    let t = h.trim_matches('0');
    if t.is_empty() { "0".into() } else { t.to_string() }
}

/// Numeric order of identifiers computed by the harness from the *serialized*
/// scalar (big-endian for the Weierstrass suites and tiny, little-endian for
/// the Edwards/ristretto suites), independent of `Identifier::cmp`.
pub fn id_numeric_key<C: Suite>(id: &Id<C>) -> Vec<u8> {
    let b = id.serialize();
    // decide endianness by encoding 1
    let one_enc = sc_bytes::<C>(&one::<C>());
    if one_enc[0] == 1 {
        // little endian -> reverse to get big endian
        b.iter().rev().copied().collect()
    } else {
        b
    }
}
pub fn sort_ids_numeric<C: Suite>(ids: &mut [Id<C>]) {
    ids.sort_by_key(|i| id_numeric_key::<C>(i));
}

// ---------------------------------------------------------------------
// identifier kinds
// ---------------------------------------------------------------------
#[derive(Clone, Copy, Debug, Serialize, Deserialize, PartialEq, Eq, Hash)]
pub enum IdKind {
    /// library default 1..n (IdentifierList::Default)
    Seq,
    /// u16 values chosen so that numeric order differs from byte-lexicographic order
    U16x,
    /// Identifier::derive of short strings
    Derived,
    /// arbitrary large scalars
    Big,
    /// a mix of all
    Mixed,
}
pub const ALL_IDKINDS: [IdKind; 5] = [
    IdKind::Seq,
    IdKind::U16x,
    IdKind::Derived,
    IdKind::Big,
    IdKind::Mixed,
];

pub const U16X: [u16; 8] = [65535, 1, 256, 255, 3, 257, 2, 65534];

pub fn big_scalars<C: Suite>() -> Vec<Scalar<C>> {
    if C::TINY {
        // q-1, q-2, ...
        let mut v = vec![];
        let mut x = neg::<C>(one::<C>());
        for _ in 0..8 {
            if x == zero::<C>() {
                break;
            }
            v.push(x);
            x = x - one::<C>();
        }
        v
    } else {
        vec![
            neg::<C>(one::<C>()),
            pow2::<C>(64),
            neg::<C>(sc_u64::<C>(2)),
            pow2::<C>(128) + one::<C>(),
            pow2::<C>(200) + sc_u64::<C>(3),
            sc_u64::<C>(12345678901234567),
            pow2::<C>(100) + sc_u64::<C>(7),
            neg::<C>(sc_u64::<C>(65535)),
        ]
    }
}

/// The identifier list (in the *given*, deliberately unsorted, order) for a kind.
pub fn make_ids<C: Suite>(kind: IdKind, n: usize) -> Vec<Id<C>> {
    let mut out = vec![];
    match kind {
        IdKind::Seq => {
            for i in 1..=n {
                out.push(Identifier::<C>::try_from(i as u16).unwrap());
            }
        }
        IdKind::U16x => {
            if C::TINY {
                // descending small values
                let q = big_scalars::<C>().len() + 1; // not exact; fall back to seq reversed
                let _ = q;
                for i in (1..=n).rev() {
                    out.push(Identifier::<C>::try_from(i as u16).unwrap());
                }
            } else {
                for v in U16X.iter().take(n) {
                    out.push(Identifier::<C>::try_from(*v).unwrap());
                }
                let mut extra = 1000u16;
                while out.len() < n {
                    out.push(Identifier::<C>::try_from(extra).unwrap());
                    extra += 77;
                }
            }
        }
        IdKind::Derived => {
            let mut k = 0;
            while out.len() < n {
                let id = Identifier::<C>::derive(format!("participant-{k}@example.com").as_bytes())
                    .unwrap();
                if !out.contains(&id) {
                    out.push(id);
                }
                k += 1;
            }
        }
        IdKind::Big => {
            for s in big_scalars::<C>() {
                if out.len() < n {
                    out.push(Identifier::<C>::new(s).unwrap());
                }
            }
            let mut k = 0u64;
            while out.len() < n {
                let s = sc_seeded_nz::<C>(&format!("bigid{k}"));
                k += 1;
                let id = Identifier::<C>::new(s).unwrap();
                if !out.contains(&id) {
                    out.push(id);
                }
            }
        }
        IdKind::Mixed => {
            let bigs = big_scalars::<C>();
            let mut cands: Vec<Id<C>> = vec![];
            cands.push(Identifier::<C>::try_from(2u16).unwrap());
            cands.push(Identifier::<C>::new(bigs[0]).unwrap());
            cands.push(Identifier::<C>::derive(b"x").unwrap());
            if !C::TINY {
                cands.push(Identifier::<C>::try_from(65535u16).unwrap());
                cands.push(Identifier::<C>::new(bigs[1]).unwrap());
            }
            cands.push(Identifier::<C>::try_from(3u16).unwrap());
            cands.push(Identifier::<C>::derive(b"y").unwrap());
            if !C::TINY {
                cands.push(Identifier::<C>::try_from(300u16).unwrap());
            }
            for c in cands {
                if out.len() < n && !out.contains(&c) {
                    out.push(c);
                }
            }
            let mut k = 1u16;
            while out.len() < n {
                let id = Identifier::<C>::try_from(k).unwrap();
                if !out.contains(&id) {
                    out.push(id);
                }
                k += 1;
            }
        }
    }
    out
}

// ---------------------------------------------------------------------
// combinatorics
// ---------------------------------------------------------------------
/// All subsets of {0..n} with size in [lo, hi], as bitmasks, ordered by size then value.
pub fn subsets(n: usize, lo: usize, hi: usize) -> Vec<u32> {
    let mut v: Vec<u32> = (0u32..(1u32 << n))
        .filter(|m| {
            let c = m.count_ones() as usize;
            c >= lo && c <= hi
        })
        .collect();
    v.sort_by_key(|m| (m.count_ones(), *m));
    v
}
pub fn mask_indices(m: u32) -> Vec<usize> {
    (0..32).filter(|i| m & (1 << i) != 0).collect()
}
/// all vectors in {0..base}^len in counting order
pub fn product(base: usize, len: usize) -> impl Iterator<Item = Vec<usize>> {
    let total = (base as u64).pow(len as u32);
    (0..total).map(move |mut x| {
        let mut v = vec![0usize; len];
        for slot in v.iter_mut() {
            *slot = (x % base as u64) as usize;
            x /= base as u64;
        }
        v
    })
}

pub const MSGS: [&str; 11] = [
    "",
    "a",
    "message to sign",
    "len55", "len56", "len64", "len111", "len112", "len128", "len136", "len1000",
];
/// message alphabet (hash block boundaries of SHA-256 / SHA-512 / SHAKE256)
pub fn message(idx: usize) -> Vec<u8> {
    let mk = |n: usize| -> Vec<u8> { (0..n).map(|i| (i * 7 + 3) as u8).collect() };
    match idx % 11 {
        0 => vec![],
        1 => vec![0x61],
        2 => b"message to sign".to_vec(),
        3 => mk(55),
        4 => mk(56),
        5 => mk(64),
        6 => mk(111),
        7 => mk(112),
        8 => mk(128),
        9 => mk(136),
        _ => mk(1000),
    }
}

// ---------------------------------------------------------------------
// key groups
// ---------------------------------------------------------------------
#[derive(Clone, Copy, Debug, Serialize, Deserialize, PartialEq, Eq, Hash)]
pub enum KeySrc {
    Dealer,
    /// split() of key 1
    SplitOne,
    /// split() of key q-1
    SplitMinusOne,
    /// split() of a seeded key
    SplitSeeded,
    Dkg,
}

#[derive(Clone)]
pub struct Grp<C: Suite> {
    pub n: u16,
    pub t: u16,
    /// sorted in the library's order
    pub ids: Vec<Id<C>>,
    pub kps: BTreeMap<Id<C>, KeyPackage<C>>,
    pub pkp: PublicKeyPackage<C>,
    pub shares: Option<BTreeMap<Id<C>, SecretShare<C>>>,
    /// the split key when known
    pub key: Option<Scalar<C>>,
    /// DKG round-one packages (for C07 oracles)
    pub dkg_r1: Option<BTreeMap<Id<C>, d1::Package<C>>>,
}

pub fn e2s<E: std::fmt::Debug>(ctx: &str) -> impl Fn(E) -> String + '_ {
    move |e| format!("{ctx}: {e:?}")
}

pub fn make_group<C: Suite>(
    src: KeySrc,
    n: u16,
    t: u16,
    kind: IdKind,
    seed: &str,
) -> Result<Grp<C>, String> {
    let idlist = make_ids::<C>(kind, n as usize);
    match src {
        KeySrc::Dkg => dkg_group::<C>(n, t, &idlist, seed),
        _ => {
            let mut rng = ScriptedRng::ctr(format!("dealer:{seed}"));
            let il = if kind == IdKind::Seq {
                IdentifierList::Default
            } else {
                IdentifierList::Custom(&idlist)
            };
            let key = match src {
                KeySrc::Dealer => None,
                KeySrc::SplitOne => Some(one::<C>()),
                KeySrc::SplitMinusOne => Some(neg::<C>(one::<C>())),
                KeySrc::SplitSeeded => Some(sc_seeded_nz::<C>(&format!("key:{seed}"))),
                KeySrc::Dkg => unreachable!(),
            };
            let (shares, pkp) = match key {
                None => C::w_generate_with_dealer(n, t, il, &mut rng).map_err(e2s("dealer"))?,
                Some(k) => {
                    let sk = SigningKey::<C>::from_scalar(k).map_err(e2s("from_scalar"))?;
                    C::w_split(&sk, n, t, il, &mut rng).map_err(e2s("split"))?
                }
            };
            let mut kps = BTreeMap::new();
            for (id, s) in &shares {
                let kp = KeyPackage::<C>::try_from(s.clone()).map_err(e2s("KeyPackage::try_from"))?;
                kps.insert(*id, kp);
            }
            let ids: Vec<_> = kps.keys().copied().collect();
            Ok(Grp {
                n,
                t,
                ids,
                kps,
                pkp,
                shares: Some(shares),
                key,
                dkg_r1: None,
            })
        }
    }
}

pub struct DkgRun<C: Suite> {
    pub ids: Vec<Id<C>>,
    pub sp1: BTreeMap<Id<C>, d1::SecretPackage<C>>,
    pub p1: BTreeMap<Id<C>, d1::Package<C>>,
    pub sp2: BTreeMap<Id<C>, d2::SecretPackage<C>>,
    /// sender -> (recipient -> package)
    pub p2: BTreeMap<Id<C>, BTreeMap<Id<C>, d2::Package<C>>>,
}

pub fn dkg_round1<C: Suite>(
    n: u16,
    t: u16,
    idlist: &[Id<C>],
    seed: &str,
) -> Result<(BTreeMap<Id<C>, d1::SecretPackage<C>>, BTreeMap<Id<C>, d1::Package<C>>), String> {
    let mut sp1 = BTreeMap::new();
    let mut p1 = BTreeMap::new();
    for id in idlist {
        let mut rng = ScriptedRng::ctr(format!("dkg1:{seed}:{}", id_hex::<C>(id)));
        let (s, p) = C::w_part1(*id, n, t, &mut rng).map_err(e2s("part1"))?;
        sp1.insert(*id, s);
        p1.insert(*id, p);
    }
    Ok((sp1, p1))
}

pub fn others<C: Suite, T: Clone>(m: &BTreeMap<Id<C>, T>, me: &Id<C>) -> BTreeMap<Id<C>, T> {
    m.iter()
        .filter(|(k, _)| *k != me)
        .map(|(k, v)| (*k, v.clone()))
        .collect()
}

pub fn dkg_run<C: Suite>(n: u16, t: u16, idlist: &[Id<C>], seed: &str) -> Result<DkgRun<C>, String> {
    let (sp1, p1) = dkg_round1::<C>(n, t, idlist, seed)?;
    let mut sp2 = BTreeMap::new();
    let mut p2 = BTreeMap::new();
    for id in idlist {
        let r1 = others::<C, _>(&p1, id);
        let (s, p) = C::w_part2(sp1[id].clone(), &r1).map_err(e2s("part2"))?;
        sp2.insert(*id, s);
        p2.insert(*id, p);
    }
    let mut ids = idlist.to_vec();
    ids.sort();
    Ok(DkgRun {
        ids,
        sp1,
        p1,
        sp2,
        p2,
    })
}

pub fn r2_for<C: Suite>(run: &DkgRun<C>, me: &Id<C>) -> BTreeMap<Id<C>, d2::Package<C>> {
    let mut m = BTreeMap::new();
    for (sender, pk) in &run.p2 {
        if sender != me {
            if let Some(p) = pk.get(me) {
                m.insert(*sender, p.clone());
            }
        }
    }
    m
}

pub fn dkg_group<C: Suite>(n: u16, t: u16, idlist: &[Id<C>], seed: &str) -> Result<Grp<C>, String> {
    let run = dkg_run::<C>(n, t, idlist, seed)?;
    let mut kps = BTreeMap::new();
    let mut pkp0: Option<PublicKeyPackage<C>> = None;
    for id in idlist {
        let r1 = others::<C, _>(&run.p1, id);
        let r2 = r2_for::<C>(&run, id);
        let (kp, pkp) = C::w_part3(&run.sp2[id], &r1, &r2).map_err(e2s("part3"))?;
        kps.insert(*id, kp);
        match &pkp0 {
            None => pkp0 = Some(pkp),
            Some(p) => {
                if *p != pkp {
                    return Err("dkg: public key packages differ between participants".into());
                }
            }
        }
    }
    Ok(Grp {
        n,
        t,
        ids: run.ids.clone(),
        kps,
        pkp: pkp0.unwrap(),
        shares: None,
        key: None,
        dkg_r1: Some(run.p1.clone()),
    })
}

// ---------------------------------------------------------------------
// signing sessions
// ---------------------------------------------------------------------
pub struct Sess<C: Suite> {
    pub signers: Vec<Id<C>>,
    pub nonces: BTreeMap<Id<C>, SigningNonces<C>>,
    pub comms: BTreeMap<Id<C>, SigningCommitments<C>>,
    pub pkg: SigningPackage<C>,
    pub shares: BTreeMap<Id<C>, SignatureShare<C>>,
}

pub fn commit_all<C: Suite>(
    kps: &BTreeMap<Id<C>, KeyPackage<C>>,
    signers: &[Id<C>],
    seed: &str,
) -> (BTreeMap<Id<C>, SigningNonces<C>>, BTreeMap<Id<C>, SigningCommitments<C>>) {
    let mut nonces = BTreeMap::new();
    let mut comms = BTreeMap::new();
    for id in signers {
        let mut rng = ScriptedRng::ctr(format!("commit:{seed}:{}", id_hex::<C>(id)));
        let (n, c) = C::w_commit(kps[id].signing_share(), &mut rng);
        nonces.insert(*id, n);
        comms.insert(*id, c);
    }
    (nonces, comms)
}

pub fn run_session<C: Suite>(
    kps: &BTreeMap<Id<C>, KeyPackage<C>>,
    signers: &[Id<C>],
    msg: &[u8],
    seed: &str,
) -> Result<Sess<C>, String> {
    let (nonces, comms) = commit_all::<C>(kps, signers, seed);
    let pkg = SigningPackage::<C>::new(comms.clone(), msg);
    let mut shares = BTreeMap::new();
    for id in signers {
        let s = C::w_sign(&pkg, &nonces[id], &kps[id]).map_err(e2s("sign"))?;
        shares.insert(*id, s);
    }
    Ok(Sess {
        signers: signers.to_vec(),
        nonces,
        comms,
        pkg,
        shares,
    })
}

pub fn pick<C: Suite>(ids: &[Id<C>], mask: u32) -> Vec<Id<C>> {
    mask_indices(mask).into_iter().map(|i| ids[i]).collect()
}

/// Verify a signature three ways: library verify on decode(encode(sig)),
/// the independent verifier on bytes. Returns Err(description) on any failure.
pub fn verify_everywhere<C: Suite>(
    vk: &fc::VerifyingKey<C>,
    msg: &[u8],
    sig: &fc::Signature<C>,
) -> Result<(), String> {
    let bytes = sig.serialize().map_err(e2s("sig.serialize"))?;
    let dec = fc::Signature::<C>::deserialize(&bytes).map_err(e2s("sig.deserialize"))?;
    vk.verify(msg, &dec).map_err(e2s("library verify of decoded signature"))?;
    vk.verify(msg, sig).map_err(e2s("library verify"))?;
    let vkb = vk.serialize().map_err(e2s("vk.serialize"))?;
    if !C::ext_verify(&vkb, msg, &bytes) {
        return Err(format!("independent verifier ({}) rejects", C::EXT));
    }
    Ok(())
}

// ---------------------------------------------------------------------
// O3: boring reference arithmetic
// ---------------------------------------------------------------------
/// Lagrange coefficient of x_i over set xs evaluated at `at` (None = 0), by the textbook formula.
pub fn ref_lagrange<C: Suite>(xs: &[Scalar<C>], xi: Scalar<C>, at: Option<Scalar<C>>) -> Scalar<C> {
    let x = at.unwrap_or_else(zero::<C>);
    let mut num = one::<C>();
    let mut den = one::<C>();
    for xj in xs {
        if *xj == xi {
            continue;
        }
        num = num * (x - *xj);
        den = den * (xi - *xj);
    }
    num * F::<C>::invert(&den).expect("distinct identifiers")
}
/// sum_k x^k * C_k with explicit powers (not Horner, not the library's fold)
pub fn ref_eval_commitment<C: Suite>(x: Scalar<C>, comm: &[Element<C>]) -> Element<C> {
    let mut acc = G::<C>::identity();
    for (k, c) in comm.iter().enumerate() {
        let mut p = one::<C>();
        for _ in 0..k {
            p = p * x;
        }
        acc = acc + *c * p;
    }
    acc
}
pub fn ref_eval_poly<C: Suite>(x: Scalar<C>, coeffs: &[Scalar<C>]) -> Scalar<C> {
    let mut acc = zero::<C>();
    for (k, c) in coeffs.iter().enumerate() {
        let mut p = one::<C>();
        for _ in 0..k {
            p = p * x;
        }
        acc = acc + *c * p;
    }
    acc
}
pub fn commitment_elems<C: Suite>(c: &VerifiableSecretSharingCommitment<C>) -> Vec<Element<C>> {
    c.coefficients().iter().map(|x| x.value()).collect()
}
pub fn id_scalar<C: Suite>(id: &Id<C>) -> Scalar<C> {
    id.to_scalar()
}

// ---------------------------------------------------------------------
// memoised group construction (pure function of its key)
// ---------------------------------------------------------------------
use std::any::Any;
use std::collections::HashMap;
use std::sync::{Arc, LazyLock, Mutex};
static GROUP_CACHE: LazyLock<Mutex<HashMap<String, Arc<dyn Any + Send + Sync>>>> =
    LazyLock::new(|| Mutex::new(HashMap::new()));

pub fn cached_group<C: Suite>(
    src: KeySrc,
    n: u16,
    t: u16,
    kind: IdKind,
    seed: &str,
) -> Result<Arc<Grp<C>>, String> {
    let key = format!("{}|{:?}|{n}|{t}|{:?}|{seed}", C::name(), src, kind);
    if let Some(g) = GROUP_CACHE.lock().unwrap().get(&key) {
        if let Ok(g) = g.clone().downcast::<Result<Grp<C>, String>>() {
            return (*g).clone().map(Arc::new);
        }
    }
    let r = make_group::<C>(src, n, t, kind, seed);
    GROUP_CACHE
        .lock()
        .unwrap()
        .insert(key, Arc::new(r.clone()) as Arc<dyn Any + Send + Sync>);
    r.map(Arc::new)
}

// ---------------------------------------------------------------------
// signature-share scalars
// ---------------------------------------------------------------------
pub fn sc_from_bytes<C: Suite>(b: &[u8]) -> Option<Scalar<C>> {
    let ser: <F<C> as Field>::Serialization = b.try_into().ok()?;
    F::<C>::deserialize(&ser).ok()
}
pub fn share_scalar<C: Suite>(s: &SignatureShare<C>) -> Scalar<C> {
    sc_from_bytes::<C>(&s.serialize()).expect("share scalar")
}
pub fn share_from_scalar<C: Suite>(s: Scalar<C>) -> SignatureShare<C> {
    SignatureShare::<C>::deserialize(&sc_bytes::<C>(&s)).expect("share from scalar")
}
/// Y parity of an element for SEC1 suites (first byte 0x03 = odd); None otherwise.
pub fn sec1_is_odd<C: Suite>(e: &Element<C>) -> Option<bool> {
    let b = el_bytes::<C>(e)?;
    if b.len() == 33 { Some(b[0] == 3) } else { None }
}
pub fn culprit_set<C: Suite>(e: &fc::Error<C>) -> Vec<String> {
    let mut v: Vec<String> = e.culprits().iter().map(|i| id_hex::<C>(i)).collect();
    v.sort();
    v
}
