//! Scripted, recording random source: the only environment input of the
//! library. Every *call* is one choice point answered from a script.

use rand_core::{TryCryptoRng, TryRng};
use serde::{Deserialize, Serialize};
use sha2::{Digest, Sha256};
use std::collections::BTreeMap;
use std::convert::Infallible;

/// How a stream of bytes is produced.
#[derive(Clone, Debug, Serialize, Deserialize, PartialEq, Eq, Hash)]
pub enum Script {
    /// SHA-256 counter stream keyed by a label.
    Ctr(String),
    /// Every byte equals the constant.
    Const(u8),
    /// The block repeated forever (per call: restarts at block start).
    Repeat(Vec<u8>),
}

/// Per-call deviation from the base script.
#[derive(Clone, Debug, Serialize, Deserialize, PartialEq, Eq, Hash)]
pub enum Dev {
    /// answer this call with zero bytes
    Zero,
    /// answer this call from another counter stream
    Alt(String),
    /// answer this call with explicit bytes (padded with zeros / truncated)
    Bytes(Vec<u8>),
}

#[derive(Clone, Debug)]
pub struct Call {
    pub kind: &'static str,
    pub bytes: Vec<u8>,
}

pub struct ScriptedRng {
    script: Script,
    pos: u64,
    devs: BTreeMap<usize, Dev>,
    pub calls: Vec<Call>,
}

fn ctr_bytes(label: &str, pos: u64, out: &mut [u8]) {
    // stream byte k = SHA256(label || (k/32) as u64 BE)[k % 32]
    let mut k = pos;
    let mut i = 0;
    while i < out.len() {
        let blk = k / 32;
        let off = (k % 32) as usize;
        let mut h = Sha256::new();
        h.update(b"frostmc-ctr");
        h.update(label.as_bytes());
        h.update(blk.to_be_bytes());
        let d = h.finalize();
        let take = core::cmp::min(32 - off, out.len() - i);
        out[i..i + take].copy_from_slice(&d[off..off + take]);
        i += take;
        k += take as u64;
    }
}

impl ScriptedRng {
    pub fn new(script: Script) -> Self {
        ScriptedRng {
            script,
            pos: 0,
            devs: BTreeMap::new(),
            calls: Vec::new(),
        }
    }
    pub fn ctr(label: impl Into<String>) -> Self {
        Self::new(Script::Ctr(label.into()))
    }
    pub fn with_dev(mut self, call: usize, dev: Dev) -> Self {
        self.devs.insert(call, dev);
        self
    }
    pub fn with_devs(mut self, devs: &[(usize, Dev)]) -> Self {
        for (c, d) in devs {
            self.devs.insert(*c, d.clone());
        }
        self
    }
    pub fn total_bytes(&self) -> usize {
        self.calls.iter().map(|c| c.bytes.len()).sum()
    }
    fn answer(&mut self, kind: &'static str, out: &mut [u8]) {
        let idx = self.calls.len();
        match self.devs.get(&idx) {
            Some(Dev::Zero) => {
                for b in out.iter_mut() {
                    *b = 0
                }
            }
            Some(Dev::Alt(label)) => ctr_bytes(&format!("alt:{label}:{idx}"), 0, out),
            Some(Dev::Bytes(v)) => {
                for (i, b) in out.iter_mut().enumerate() {
                    *b = v.get(i).copied().unwrap_or(0)
                }
            }
            None => match &self.script {
                Script::Ctr(label) => ctr_bytes(label, self.pos, out),
                Script::Const(c) => {
                    for b in out.iter_mut() {
                        *b = *c
                    }
                }
                Script::Repeat(block) => {
                    for (i, b) in out.iter_mut().enumerate() {
                        *b = block[i % block.len()]
                    }
                }
            },
        }
        // the base stream always advances, so a deviation at call j leaves
        // every other call's answer unchanged
        self.pos += out.len() as u64;
        self.calls.push(Call {
            kind,
            bytes: out.to_vec(),
        });
    }
}

impl TryRng for ScriptedRng {
    type Error = Infallible;
    fn try_next_u32(&mut self) -> Result<u32, Infallible> {
        let mut b = [0u8; 4];
        self.answer("u32", &mut b);
        Ok(u32::from_le_bytes(b))
    }
    fn try_next_u64(&mut self) -> Result<u64, Infallible> {
        let mut b = [0u8; 8];
        self.answer("u64", &mut b);
        Ok(u64::from_le_bytes(b))
    }
    fn try_fill_bytes(&mut self, dst: &mut [u8]) -> Result<(), Infallible> {
        self.answer("fill", dst);
        Ok(())
    }
}
impl TryCryptoRng for ScriptedRng {}

pub fn stream_bytes(label: &str, n: usize) -> Vec<u8> {
    let mut v = vec![0u8; n];
    ctr_bytes(label, 0, &mut v);
    v
}
