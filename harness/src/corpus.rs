//! Corpus of valid encodings of every wire type of a ciphersuite, with
//! type-erased decoders (E4's starting points; also used by C13/C14).

use crate::rng::ScriptedRng;
use crate::suites::{Id, Suite};
use crate::util::*;
use frost_core as fc;
use frost_core::keys::dkg::{round1 as d1, round2 as d2};
use frost_core::keys::repairable::{Delta, Sigma};
use frost_core::keys::{
    CoefficientCommitment, KeyPackage, PublicKeyPackage, SecretShare, SigningShare,
    VerifiableSecretSharingCommitment, VerifyingShare,
};
use frost_core::round1::{Nonce, NonceCommitment, SigningCommitments, SigningNonces};
use frost_core::round2::SignatureShare;
use frost_core::{Identifier, Signature, SigningKey, SigningPackage, VerifyingKey};
use frost_rerandomized::Randomizer;
use serde::Serialize;
use serde::de::DeserializeOwned;
use std::collections::BTreeMap;

#[derive(Clone, Copy, PartialEq, Eq, Debug)]
pub enum WKind {
    Scalar,
    Element,
    Signature,
    /// postcard container (struct / map / vec)
    Container,
    /// concatenated elements (serialize_whole)
    ElementVec,
}
#[derive(Clone, Copy, PartialEq, Eq, Debug)]
pub enum WPath {
    /// the type's own fixed-size serialize()/deserialize()
    Raw,
    /// through serde + postcard
    Postcard,
    /// through serde + serde_json
    Json,
}

/// decode then re-encode: None = rejected; Some(None) = accepted but could not re-encode;
/// Some(Some(b)) = accepted, canonical re-encoding b
pub type Dec = Box<dyn Fn(&[u8]) -> Option<Option<Vec<u8>>> + Send + Sync>;

pub struct WireItem {
    pub name: String,
    pub kind: WKind,
    pub path: WPath,
    pub bytes: Vec<u8>,
    pub dec: Dec,
    pub has_header: bool,
    /// round-trip verdict computed at construction: decode(encode(v)) == v
    pub roundtrip: Result<(), String>,
    /// the value must be rejected when zero (identifier, signing key)
    pub nonzero: bool,
}

fn raw_item<T: PartialEq + 'static>(
    name: &str,
    kind: WKind,
    v: &T,
    nonzero: bool,
    ser: fn(&T) -> Option<Vec<u8>>,
    de: fn(&[u8]) -> Option<T>,
    eq_by_bytes: bool,
) -> WireItem {
    let bytes = ser(v);
    let roundtrip = match &bytes {
        None => Err("serialize failed".to_string()),
        Some(b) => match de(b) {
            None => Err("deserialize of own encoding failed".to_string()),
            Some(v2) => {
                if ser(&v2).as_ref() != Some(b) {
                    Err("re-encoding of decoded value differs".to_string())
                } else if !eq_by_bytes && v2 != *v {
                    Err("decoded value != original".to_string())
                } else {
                    Ok(())
                }
            }
        },
    };
    WireItem {
        name: name.to_string(),
        kind,
        path: WPath::Raw,
        bytes: bytes.unwrap_or_default(),
        dec: Box::new(move |b| de(b).map(|v| ser(&v))),
        has_header: false,
        roundtrip,
        nonzero,
    }
}

fn postcard_item<T: Serialize + DeserializeOwned + PartialEq + 'static>(
    name: &str,
    kind: WKind,
    v: &T,
    has_header: bool,
    nonzero: bool,
    eq_by_bytes: bool,
) -> WireItem {
    let ser = |v: &T| postcard::to_allocvec(v).ok();
    let de = |b: &[u8]| postcard::from_bytes::<T>(b).ok();
    let bytes = ser(v);
    let roundtrip = match &bytes {
        None => Err("postcard serialize failed".to_string()),
        Some(b) => match de(b) {
            None => Err("postcard deserialize of own encoding failed".to_string()),
            Some(v2) => {
                if ser(&v2).as_ref() != Some(b) {
                    Err("postcard re-encoding differs".to_string())
                } else if !eq_by_bytes && v2 != *v {
                    Err("postcard decoded value != original".to_string())
                } else {
                    Ok(())
                }
            }
        },
    };
    WireItem {
        name: name.to_string(),
        kind,
        path: WPath::Postcard,
        bytes: bytes.unwrap_or_default(),
        dec: Box::new(move |b| de(b).map(|v| ser(&v))),
        has_header,
        roundtrip,
        nonzero,
    }
}

fn json_item<T: Serialize + DeserializeOwned + PartialEq + 'static>(
    name: &str,
    kind: WKind,
    v: &T,
    has_header: bool,
    nonzero: bool,
    eq_by_bytes: bool,
) -> WireItem {
    let ser = |v: &T| serde_json::to_string(v).ok().map(|s| s.into_bytes());
    // a JSON document must decode the same from memory, through a reader and through a parsed Value
    let de = |b: &[u8]| -> Option<T> {
        let a = std::str::from_utf8(b).ok().and_then(|s| serde_json::from_str::<T>(s).ok());
        let r = serde_json::from_reader::<_, T>(std::io::Cursor::new(b.to_vec())).ok();
        let v = serde_json::from_slice::<serde_json::Value>(b).ok().and_then(|v| serde_json::from_value::<T>(v).ok());
        match (a, r, v) {
            (Some(a), Some(r), Some(v)) if a == r && a == v => Some(a),
            (None, None, None) => None,
            // the three ways disagree: report as a value that cannot be re-encoded (never canonical)
            _ => None,
        }
    };
    let bytes = ser(v);
    let roundtrip = match &bytes {
        None => Err("json serialize failed".to_string()),
        Some(b) => match de(b) {
            None => Err("json deserialize of own encoding failed".to_string()),
            Some(v2) => {
                if ser(&v2).as_ref() != Some(b) {
                    Err("json re-encoding differs".to_string())
                } else if !eq_by_bytes && v2 != *v {
                    Err("json decoded value != original".to_string())
                } else {
                    Ok(())
                }
            }
        },
    };
    WireItem {
        name: name.to_string(),
        kind,
        path: WPath::Json,
        bytes: bytes.unwrap_or_default(),
        dec: Box::new(move |b| de(b).map(|v| ser(&v))),
        has_header,
        roundtrip,
        nonzero,
    }
}

/// The wire form of a primitive reached through JSON is `"<hex>"`; this adapter lets the byte
/// explorer work on the raw bytes and compares lower-case hex strings.
pub fn json_hex_adapter(item: WireItem, raw_len: usize) -> WireItem {
    let inner = item.dec;
    let raw = {
        let s = String::from_utf8_lossy(&item.bytes).to_string();
        hex::decode(s.trim_matches('"')).unwrap_or_default()
    };
    let _ = raw_len;
    WireItem {
        name: item.name,
        kind: item.kind,
        path: WPath::Json,
        bytes: raw,
        dec: Box::new(move |b| {
            let s = format!("\"{}\"", hex::encode(b));
            inner(s.as_bytes()).map(|r| {
                r.and_then(|out| {
                    let t = String::from_utf8_lossy(&out).to_string();
                    hex::decode(t.trim_matches('"')).ok()
                })
            })
        }),
        has_header: false,
        roundtrip: item.roundtrip,
        nonzero: item.nonzero,
    }
}

pub struct Material<C: Suite> {
    pub grp: Grp<C>,
    pub sess: Sess<C>,
    pub sig: Signature<C>,
    pub dkg: DkgRun<C>,
    pub dkg_kp: KeyPackage<C>,
    pub dkg_pkp: PublicKeyPackage<C>,
    pub signing_key: SigningKey<C>,
    pub refreshing_share: SecretShare<C>,
    pub rd1_secret: d1::SecretPackage<C>,
    pub rd1_pkg: d1::Package<C>,
    pub rd2_secret: d2::SecretPackage<C>,
    pub rd2_pkg: d2::Package<C>,
    pub delta: Delta<C>,
    pub sigma: Sigma<C>,
    pub randomizer: Randomizer<C>,
}

pub fn material<C: Suite>(n: u16, t: u16, idkind: IdKind, seed: &str) -> Result<Material<C>, String> {
    let grp = make_group::<C>(KeySrc::Dealer, n, t, idkind, seed)?;
    let signers: Vec<_> = grp.ids.iter().take(t as usize).copied().collect();
    let sess = run_session::<C>(&grp.kps, &signers, b"corpus message", seed)?;
    let sig = fc::aggregate(&sess.pkg, &sess.shares, &grp.pkp).map_err(e2s("aggregate"))?;
    let idlist = make_ids::<C>(idkind, n as usize);
    let dkg = dkg_run::<C>(n, t, &idlist, seed)?;
    let me = dkg.ids[0];
    let (dkg_kp, dkg_pkp) =
        C::w_part3(&dkg.sp2[&me], &others::<C, _>(&dkg.p1, &me), &r2_for::<C>(&dkg, &me)).map_err(e2s("part3"))?;
    let signing_key = SigningKey::<C>::from_scalar(sc_seeded_nz::<C>(&format!("sk:{seed}"))).map_err(e2s("sk"))?;
    // dealer refresh share (identity-stripped commitment)
    let mut rng = ScriptedRng::ctr(format!("corpus-refresh:{seed}"));
    let (rshares, _) = C::w_compute_refreshing_shares(grp.pkp.clone(), &grp.ids, &mut rng).map_err(e2s("refreshing shares"))?;
    let refreshing_share = rshares[0].clone();
    // distributed refresh packages (identity-stripped)
    let mut sp1 = BTreeMap::new();
    let mut p1 = BTreeMap::new();
    for id in &grp.ids {
        let mut rng = ScriptedRng::ctr(format!("corpus-rdkg:{seed}:{}", id_hex::<C>(id)));
        let (s, p) = C::w_refresh_dkg_part1(*id, n, t, &mut rng).map_err(e2s("refresh part1"))?;
        sp1.insert(*id, s);
        p1.insert(*id, p);
    }
    let me = grp.ids[0];
    let (rd2_secret, rd2_pkgs) = C::w_refresh_dkg_part2(sp1[&me].clone(), &others::<C, _>(&p1, &me)).map_err(e2s("refresh part2"))?;
    let rd2_pkg = rd2_pkgs.values().next().unwrap().clone();
    // repair
    let mut rng = ScriptedRng::ctr(format!("corpus-repair:{seed}"));
    let helpers: Vec<_> = grp.ids.iter().take(t as usize).copied().collect();
    let target = Identifier::<C>::try_from(4000u16).unwrap();
    let deltas = C::w_repair1(&helpers, &grp.kps[&helpers[0]], &mut rng, target).map_err(e2s("repair1"))?;
    let delta = *deltas.values().next().unwrap();
    let sigma = C::w_repair2(&deltas.values().copied().collect::<Vec<_>>());
    let randomizer = Randomizer::<C>::from_scalar(sc_seeded::<C>(&format!("rand:{seed}")));
    Ok(Material {
        rd1_secret: sp1[&me].clone(),
        rd1_pkg: p1[&me].clone(),
        grp,
        sess,
        sig,
        dkg,
        dkg_kp,
        dkg_pkp,
        signing_key,
        refreshing_share,
        rd2_secret,
        rd2_pkg,
        delta,
        sigma,
        randomizer,
    })
}

/// Every wire type of the suite with a valid value from `m`.
pub fn wire_items<C: Suite>(m: &Material<C>) -> Vec<WireItem> {
    let mut v: Vec<WireItem> = vec![];
    let id = m.grp.ids[m.grp.ids.len() - 1];
    let kp = m.grp.kps[&id].clone();
    let sh = m.grp.shares.as_ref().unwrap()[&id].clone();
    let signer = m.sess.signers[0];
    let nonces = m.sess.nonces[&signer].clone();
    let comms = m.sess.comms[&signer];
    let sigshare = m.sess.shares[&signer];
    let tr = C::TAPROOT;

    macro_rules! prim3 {
        ($name:expr, $kind:expr, $val:expr, $ty:ty, $nz:expr, $ser:expr, $de:expr) => {{
            let val: $ty = $val;
            v.push(raw_item::<$ty>($name, $kind, &val, $nz, $ser, $de, false));
            v.push(postcard_item::<$ty>($name, $kind, &val, false, $nz, false));
            let l = v[v.len() - 2].bytes.len();
            v.push(json_hex_adapter(json_item::<$ty>($name, $kind, &val, false, $nz, false), l));
        }};
    }
    // ---- scalars ----
    prim3!("Identifier", WKind::Scalar, id, Identifier<C>, true, |x| Some(x.serialize()), |b| Identifier::<C>::deserialize(b).ok());
    prim3!("SigningShare", WKind::Scalar, *kp.signing_share(), SigningShare<C>, false, |x| Some(x.serialize()), |b| SigningShare::<C>::deserialize(b).ok());
    prim3!("Nonce", WKind::Scalar, *nonces.hiding(), Nonce<C>, false, |x| Some(x.serialize()), |b| Nonce::<C>::deserialize(b).ok());
    prim3!("Delta", WKind::Scalar, m.delta, Delta<C>, false, |x| Some(x.serialize()), |b| Delta::<C>::deserialize(b).ok());
    prim3!("Sigma", WKind::Scalar, m.sigma, Sigma<C>, false, |x| Some(x.serialize()), |b| Sigma::<C>::deserialize(b).ok());
    prim3!("Randomizer", WKind::Scalar, m.randomizer, Randomizer<C>, false, |x| Some(x.serialize()), |b| Randomizer::<C>::deserialize(b).ok());
    v.push(raw_item::<SigningKey<C>>("SigningKey", WKind::Scalar, &m.signing_key, true, |x| Some(x.serialize()), |b| SigningKey::<C>::deserialize(b).ok(), false));
    v.push(raw_item::<SignatureShare<C>>("SignatureShare", WKind::Scalar, &sigshare, false, |x| Some(x.serialize()), |b| SignatureShare::<C>::deserialize(b).ok(), false));
    // ---- elements ----
    prim3!("VerifyingShare", WKind::Element, *kp.verifying_share(), VerifyingShare<C>, false, |x| x.serialize().ok(), |b| VerifyingShare::<C>::deserialize(b).ok());
    prim3!("VerifyingKey", WKind::Element, *kp.verifying_key(), VerifyingKey<C>, false, |x| x.serialize().ok(), |b| VerifyingKey::<C>::deserialize(b).ok());
    prim3!("NonceCommitment", WKind::Element, *comms.hiding(), NonceCommitment<C>, false, |x| x.serialize().ok(), |b| NonceCommitment::<C>::deserialize(b).ok());
    prim3!("CoefficientCommitment", WKind::Element, sh.commitment().coefficients()[1], CoefficientCommitment<C>, false, |x| x.serialize().ok(), |b| CoefficientCommitment::<C>::deserialize(b).ok());
    // ---- signature ----
    v.push(raw_item::<Signature<C>>("Signature", WKind::Signature, &m.sig, false, |x| x.serialize().ok(), |b| Signature::<C>::deserialize(b).ok(), tr));
    v.push(postcard_item::<Signature<C>>("Signature", WKind::Container, &m.sig, false, false, tr));
    v.push(json_item::<Signature<C>>("Signature", WKind::Container, &m.sig, false, false, tr));
    // ---- commitment vectors ----
    v.push(raw_item::<VerifiableSecretSharingCommitment<C>>(
        "VssCommitment.whole",
        WKind::ElementVec,
        sh.commitment(),
        false,
        |x| x.serialize_whole().ok(),
        |b| VerifiableSecretSharingCommitment::<C>::deserialize_whole(b).ok(),
        false,
    ));
    v.push(raw_item::<VerifiableSecretSharingCommitment<C>>(
        "VssCommitment.whole.refreshing",
        WKind::Container,
        m.refreshing_share.commitment(),
        false,
        |x| x.serialize_whole().ok(),
        |b| VerifiableSecretSharingCommitment::<C>::deserialize_whole(b).ok(),
        false,
    ));
    v.push(raw_item::<VerifiableSecretSharingCommitment<C>>(
        "VssCommitment.list",
        WKind::Container,
        sh.commitment(),
        false,
        |x| x.serialize().ok().map(|vv| postcard::to_allocvec(&vv).unwrap()),
        |b| {
            let vv: Vec<Vec<u8>> = postcard::from_bytes(b).ok()?;
            VerifiableSecretSharingCommitment::<C>::deserialize(vv).ok()
        },
        false,
    ));
    macro_rules! cont {
        ($name:expr, $val:expr, $ty:ty, $hdr:expr, $ser:expr, $de:expr) => {{
            let val: $ty = $val;
            v.push(raw_item::<$ty>($name, WKind::Container, &val, false, $ser, $de, false));
            v.last_mut().unwrap().has_header = $hdr;
            v.push(json_item::<$ty>($name, WKind::Container, &val, $hdr, false, false));
        }};
    }
    cont!("VssCommitment", sh.commitment().clone(), VerifiableSecretSharingCommitment<C>, false, |x| postcard::to_allocvec(x).ok(), |b| postcard::from_bytes(b).ok());
    cont!("SigningNonces", nonces.clone(), SigningNonces<C>, true, |x| x.serialize().ok(), |b| SigningNonces::<C>::deserialize(b).ok());
    cont!("SigningCommitments", comms, SigningCommitments<C>, true, |x| x.serialize().ok(), |b| SigningCommitments::<C>::deserialize(b).ok());
    cont!("SigningPackage", m.sess.pkg.clone(), SigningPackage<C>, true, |x| x.serialize().ok(), |b| SigningPackage::<C>::deserialize(b).ok());
    cont!("SignatureShare.serde", sigshare, SignatureShare<C>, true, |x| postcard::to_allocvec(x).ok(), |b| postcard::from_bytes(b).ok());
    cont!("SecretShare", sh.clone(), SecretShare<C>, true, |x| x.serialize().ok(), |b| SecretShare::<C>::deserialize(b).ok());
    cont!("SecretShare.refreshing", m.refreshing_share.clone(), SecretShare<C>, true, |x| x.serialize().ok(), |b| SecretShare::<C>::deserialize(b).ok());
    cont!("KeyPackage", kp.clone(), KeyPackage<C>, true, |x| x.serialize().ok(), |b| KeyPackage::<C>::deserialize(b).ok());
    cont!("KeyPackage.dkg", m.dkg_kp.clone(), KeyPackage<C>, true, |x| x.serialize().ok(), |b| KeyPackage::<C>::deserialize(b).ok());
    cont!("PublicKeyPackage", m.grp.pkp.clone(), PublicKeyPackage<C>, true, |x| x.serialize().ok(), |b| PublicKeyPackage::<C>::deserialize(b).ok());
    cont!("PublicKeyPackage.dkg", m.dkg_pkp.clone(), PublicKeyPackage<C>, true, |x| x.serialize().ok(), |b| PublicKeyPackage::<C>::deserialize(b).ok());
    let old = PublicKeyPackage::<C>::new(m.grp.pkp.verifying_shares().clone(), *m.grp.pkp.verifying_key(), None);
    cont!("PublicKeyPackage.pre3", old, PublicKeyPackage<C>, true, |x| x.serialize().ok(), |b| PublicKeyPackage::<C>::deserialize(b).ok());
    let me = m.dkg.ids[0];
    cont!("dkg.round1.Package", m.dkg.p1[&me].clone(), d1::Package<C>, true, |x| x.serialize().ok(), |b| d1::Package::<C>::deserialize(b).ok());
    cont!("dkg.round1.SecretPackage", m.dkg.sp1[&me].clone(), d1::SecretPackage<C>, false, |x| x.serialize().ok(), |b| d1::SecretPackage::<C>::deserialize(b).ok());
    cont!("dkg.round2.Package", m.dkg.p2[&me].values().next().unwrap().clone(), d2::Package<C>, true, |x| x.serialize().ok(), |b| d2::Package::<C>::deserialize(b).ok());
    cont!("dkg.round2.SecretPackage", m.dkg.sp2[&me].clone(), d2::SecretPackage<C>, false, |x| x.serialize().ok(), |b| d2::SecretPackage::<C>::deserialize(b).ok());
    cont!("refresh.round1.Package", m.rd1_pkg.clone(), d1::Package<C>, true, |x| x.serialize().ok(), |b| d1::Package::<C>::deserialize(b).ok());
    cont!("refresh.round1.SecretPackage", m.rd1_secret.clone(), d1::SecretPackage<C>, false, |x| x.serialize().ok(), |b| d1::SecretPackage::<C>::deserialize(b).ok());
    cont!("refresh.round2.Package", m.rd2_pkg.clone(), d2::Package<C>, true, |x| x.serialize().ok(), |b| d2::Package::<C>::deserialize(b).ok());
    cont!("refresh.round2.SecretPackage", m.rd2_secret.clone(), d2::SecretPackage<C>, false, |x| x.serialize().ok(), |b| d2::SecretPackage::<C>::deserialize(b).ok());
    v
}

/// CRC-32 (IEEE) written out; the 4-byte ciphersuite id is its big-endian value over the ID string.
pub fn crc32(data: &[u8]) -> u32 {
    let mut crc = 0xffff_ffffu32;
    for b in data {
        crc ^= *b as u32;
        for _ in 0..8 {
            crc = if crc & 1 != 0 { (crc >> 1) ^ 0xedb8_8320 } else { crc >> 1 };
        }
    }
    !crc
}

pub const SUITE_IDS: [&str; 6] = [
    "FROST-ED25519-SHA512-v1",
    "FROST-RISTRETTO255-SHA512-v1",
    "FROST-ED448-SHAKE256-v1",
    "FROST-P256-SHA256-v1",
    "FROST-secp256k1-SHA256-v1",
    "FROST-secp256k1-SHA256-TR-v1",
];
