//! frostmc — bounded-exhaustive exploration of ZcashFoundation/frost.
//! usage: frostmc <ID> [quick|thorough]   |   frostmc <ID> --replay <file>   |  frostmc selftest
#![allow(non_snake_case)]
#![allow(clippy::type_complexity)]
#![allow(dead_code)]
#![allow(unused_imports)]

mod corpus;
mod props;
mod pyref;
mod rng;
mod runner;
mod spy;
mod suites;
mod tiny;
mod util;

use runner::{Prop, Tier};

#[global_allocator]
static GLOBAL: spy::Spy = spy::Spy;

fn selftest() -> i32 {
    let mut n = 0;
    for r in [
        tiny::self_test::<5>(),
        tiny::self_test::<7>(),
        tiny::self_test::<11>(),
        tiny::self_test::<13>(),
    ] {
        match r {
            Ok(k) => n += k,
            Err(e) => {
                eprintln!("MACHINERY-ERROR: tiny field self test failed: {e}");
                return 2;
            }
        }
    }
    println!("selftest ok: {n} tiny-field axiom instances");
    0
}

fn main() {
    let args: Vec<String> = std::env::args().collect();
    if args.len() < 2 {
        eprintln!("usage: frostmc <ID> [quick|thorough] | <ID> --replay <file> | selftest");
        std::process::exit(2);
    }
    if args[1] == "selftest" {
        std::process::exit(selftest());
    }
    if args[1] == "c16-digest" && args.len() >= 4 {
        // helper for C16's cross-process determinism comparison
        println!("{}", serde_json::to_string(&props::c16::digests(&args[2], &args[3])).unwrap());
        std::process::exit(0);
    }
    if args[1] == "c13-child" && args.len() >= 5 {
        // helper for C13's real-restart case
        std::process::exit(props::c13::child(&args[2], &args[3], &args[4]));
    }
    let id = args[1].to_uppercase();
    let Some(p): Option<Box<dyn Prop>> = props::lookup(&id) else {
        eprintln!("MACHINERY-ERROR: unknown property {id}");
        std::process::exit(2);
    };
    if args.len() >= 4 && args[2] == "--replay" {
        std::process::exit(runner::replay(p.as_ref(), &args[3]));
    }
    let tier_s = args
        .get(2)
        .cloned()
        .or_else(|| std::env::var("VERIF_TIER").ok())
        .unwrap_or_else(|| "quick".into());
    let tier = match tier_s.as_str() {
        "quick" => Tier::Quick,
        "thorough" => Tier::Thorough,
        other => {
            eprintln!("MACHINERY-ERROR: unknown tier {other}");
            std::process::exit(2);
        }
    };
    let seed: u64 = std::env::var("VERIF_SEED")
        .ok()
        .and_then(|s| s.parse().ok())
        .unwrap_or(0);
    if selftest() != 0 {
        std::process::exit(2);
    }
    let r = runner::run_property(p.as_ref(), tier, seed);
    std::process::exit(r.exit);
}
