//! `Tiny<Q>`: a toy ciphersuite over the additive group (Z_Q, +) with scalar
//! field GF(Q). The generic `frost-core` code is monomorphised at it so that
//! every *value* (scalars, nonces, error vectors, blinders) can be enumerated.
//! Discrete logs are trivial in it; nothing checked with it depends on
//! hardness.

use crate::suites::Suite;
use frost_core::{Ciphersuite, Field, FieldError, Group, GroupError};
use frost_rerandomized::RandomizedCiphersuite;
use rand_core::CryptoRng;
use sha2::{Digest, Sha256};
use std::ops::{Add, Mul, Sub};

#[derive(Clone, Copy, PartialEq, Eq, Debug, Hash, PartialOrd, Ord)]
pub struct Sc<const Q: u64>(pub u64);
#[derive(Clone, Copy, PartialEq, Eq, Debug, Hash, PartialOrd, Ord)]
pub struct El<const Q: u64>(pub u64);

impl<const Q: u64> Add for Sc<Q> {
    type Output = Self;
    fn add(self, o: Self) -> Self {
        Sc((self.0 + o.0) % Q)
    }
}
impl<const Q: u64> Sub for Sc<Q> {
    type Output = Self;
    fn sub(self, o: Self) -> Self {
        Sc((self.0 + Q - o.0) % Q)
    }
}
impl<const Q: u64> Mul for Sc<Q> {
    type Output = Self;
    fn mul(self, o: Self) -> Self {
        Sc((self.0 * o.0) % Q)
    }
}
impl<const Q: u64> Add for El<Q> {
    type Output = Self;
    fn add(self, o: Self) -> Self {
        El((self.0 + o.0) % Q)
    }
}
impl<const Q: u64> Sub for El<Q> {
    type Output = Self;
    fn sub(self, o: Self) -> Self {
        El((self.0 + Q - o.0) % Q)
    }
}
impl<const Q: u64> Mul<Sc<Q>> for El<Q> {
    type Output = Self;
    fn mul(self, o: Sc<Q>) -> Self {
        El((self.0 * o.0) % Q)
    }
}

#[derive(Clone, Copy, PartialEq, Eq, Debug)]
pub struct TinyField<const Q: u64>;
#[derive(Clone, Copy, PartialEq, Eq, Debug)]
pub struct TinyGroup<const Q: u64>;
#[derive(Clone, Copy, PartialEq, Eq, Debug)]
pub struct Tiny<const Q: u64>;

pub fn modpow(mut b: u64, mut e: u64, q: u64) -> u64 {
    let mut r = 1u64;
    b %= q;
    while e > 0 {
        if e & 1 == 1 {
            r = r * b % q;
        }
        b = b * b % q;
        e >>= 1;
    }
    r
}

impl<const Q: u64> Field for TinyField<Q> {
    type Scalar = Sc<Q>;
    type Serialization = [u8; 2];
    fn zero() -> Sc<Q> {
        Sc(0)
    }
    fn one() -> Sc<Q> {
        Sc(1)
    }
    fn invert(s: &Sc<Q>) -> Result<Sc<Q>, FieldError> {
        if s.0 == 0 {
            Err(FieldError::InvalidZeroScalar)
        } else {
            Ok(Sc(modpow(s.0, Q - 2, Q)))
        }
    }
    /// One `u32` draw per scalar, reduced mod Q: a script *is* a vector of
    /// field elements.
    fn random<R: CryptoRng>(rng: &mut R) -> Sc<Q> {
        Sc(rng.next_u32() as u64 % Q)
    }
    fn serialize(s: &Sc<Q>) -> [u8; 2] {
        (s.0 as u16).to_be_bytes()
    }
    fn little_endian_serialize(s: &Sc<Q>) -> [u8; 2] {
        (s.0 as u16).to_le_bytes()
    }
    fn deserialize(b: &[u8; 2]) -> Result<Sc<Q>, FieldError> {
        let v = u16::from_be_bytes(*b) as u64;
        if v >= Q {
            Err(FieldError::MalformedScalar)
        } else {
            Ok(Sc(v))
        }
    }
}

impl<const Q: u64> Group for TinyGroup<Q> {
    type Field = TinyField<Q>;
    type Element = El<Q>;
    type Serialization = [u8; 2];
    fn cofactor() -> Sc<Q> {
        Sc(1)
    }
    fn identity() -> El<Q> {
        El(0)
    }
    fn generator() -> El<Q> {
        El(1)
    }
    fn serialize(e: &El<Q>) -> Result<[u8; 2], GroupError> {
        if e.0 == 0 {
            Err(GroupError::InvalidIdentityElement)
        } else {
            Ok((e.0 as u16).to_be_bytes())
        }
    }
    fn deserialize(b: &[u8; 2]) -> Result<El<Q>, GroupError> {
        let v = u16::from_be_bytes(*b) as u64;
        if v == 0 {
            Err(GroupError::InvalidIdentityElement)
        } else if v >= Q {
            Err(GroupError::MalformedElement)
        } else {
            Ok(El(v))
        }
    }
}

pub fn tiny_hash(q: u64, tag: &str, m: &[u8]) -> u64 {
    let mut h = Sha256::new();
    h.update(b"tiny");
    h.update(q.to_be_bytes());
    h.update(tag.as_bytes());
    h.update(m);
    let d = h.finalize();
    let mut x = [0u8; 8];
    x.copy_from_slice(&d[..8]);
    u64::from_be_bytes(x) % q
}
fn tiny_hash32(q: u64, tag: &str, m: &[u8]) -> [u8; 32] {
    let mut h = Sha256::new();
    h.update(b"tiny");
    h.update(q.to_be_bytes());
    h.update(tag.as_bytes());
    h.update(m);
    h.finalize().into()
}

impl<const Q: u64> Ciphersuite for Tiny<Q> {
    const ID: &'static str = "FROST-TINY-v1";
    type Group = TinyGroup<Q>;
    type HashOutput = [u8; 32];
    type SignatureSerialization = [u8; 4];
    fn H1(m: &[u8]) -> Sc<Q> {
        Sc(tiny_hash(Q, "rho", m))
    }
    fn H2(m: &[u8]) -> Sc<Q> {
        Sc(tiny_hash(Q, "chal", m))
    }
    fn H3(m: &[u8]) -> Sc<Q> {
        Sc(tiny_hash(Q, "nonce", m))
    }
    fn H4(m: &[u8]) -> [u8; 32] {
        tiny_hash32(Q, "msg", m)
    }
    fn H5(m: &[u8]) -> [u8; 32] {
        tiny_hash32(Q, "com", m)
    }
    fn HDKG(m: &[u8]) -> Option<Sc<Q>> {
        Some(Sc(tiny_hash(Q, "dkg", m)))
    }
    fn HID(m: &[u8]) -> Option<Sc<Q>> {
        Some(Sc(1 + tiny_hash(Q - 1, "id", m)))
    }
}

impl<const Q: u64> RandomizedCiphersuite for Tiny<Q> {
    fn hash_randomizer(m: &[u8]) -> Option<Sc<Q>> {
        Some(Sc(tiny_hash(Q, "randomizer", m)))
    }
}

impl<const Q: u64> Suite for Tiny<Q> {
    const NAME: &'static str = "tiny";
    const TINY: bool = true;
    const EXT: &'static str = "plain-u64 Schnorr check in Z_Q";
    fn name() -> String {
        format!("tiny{Q}")
    }
    fn ext_h3(m: &[u8]) -> Vec<u8> {
        (tiny_hash(Q, "nonce", m) as u16).to_be_bytes().to_vec()
    }
    fn ext_hrandomizer(m: &[u8]) -> Vec<u8> {
        (tiny_hash(Q, "randomizer", m) as u16).to_be_bytes().to_vec()
    }
    /// z*1 == R + c*PK in Z_Q with c recomputed from bytes.
    fn ext_verify(vk: &[u8], msg: &[u8], sig: &[u8]) -> bool {
        if vk.len() != 2 || sig.len() != 4 {
            return false;
        }
        let pk = u16::from_be_bytes([vk[0], vk[1]]) as u64;
        let r = u16::from_be_bytes([sig[0], sig[1]]) as u64;
        let z = u16::from_be_bytes([sig[2], sig[3]]) as u64;
        if pk == 0 || pk >= Q || r == 0 || r >= Q || z >= Q {
            return false;
        }
        let mut pre = sig[..2].to_vec();
        pre.extend_from_slice(vk);
        pre.extend_from_slice(msg);
        let c = tiny_hash(Q, "chal", &pre);
        z % Q == (r + c * pk) % Q
    }
}

/// Exhaustive check of the field/group axioms of Tiny<Q> (machinery self-test).
pub fn self_test<const Q: u64>() -> Result<u64, String> {
    let mut n = 0u64;
    for a in 0..Q {
        for b in 0..Q {
            let (sa, sb) = (Sc::<Q>(a), Sc::<Q>(b));
            if (sa + sb) - sb != sa {
                return Err(format!("add/sub Q={Q} {a} {b}"));
            }
            if sa * sb != sb * sa {
                return Err("mul comm".into());
            }
            if El::<Q>(a) * sb != El::<Q>((a * b) % Q) {
                return Err("el mul".into());
            }
            for c in 0..Q {
                let sc = Sc::<Q>(c);
                if sa * (sb + sc) != sa * sb + sa * sc {
                    return Err("distrib".into());
                }
                if (El::<Q>(1) * sa) * sb + El::<Q>(1) * sc != El::<Q>(1) * (sa * sb + sc) {
                    return Err("el distrib".into());
                }
                n += 1;
            }
        }
        if a != 0 {
            let inv = TinyField::<Q>::invert(&Sc(a)).map_err(|_| "inv")?;
            if inv * Sc(a) != Sc(1) {
                return Err("inverse".into());
            }
        }
        let s = TinyField::<Q>::serialize(&Sc(a));
        if TinyField::<Q>::deserialize(&s) != Ok(Sc(a)) {
            return Err("ser".into());
        }
    }
    if TinyField::<Q>::invert(&Sc(0)).is_ok() {
        return Err("inv0".into());
    }
    Ok(n)
}
