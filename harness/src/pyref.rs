//! Bridge to the from-scratch Python reference (/verif/ref): a list of JSON requests is written
//! to a temporary file, `python3 ref/check.py <file>` answers with a list of responses.

use crate::runner::verif_dir;
use serde_json::Value;
use std::io::Write;

/// Run the reference on a list of requests.
pub fn ask_reference(reqs: &[Value]) -> Result<Vec<Value>, String> {
    let dir = std::env::temp_dir();
    static CTR: std::sync::atomic::AtomicU64 = std::sync::atomic::AtomicU64::new(0);
    let k = CTR.fetch_add(1, std::sync::atomic::Ordering::Relaxed);
    let path = dir.join(format!("frostmc-ref-{}-{k}.json", std::process::id()));
    {
        let mut f = std::fs::File::create(&path).map_err(|e| format!("tmp file: {e}"))?;
        f.write_all(serde_json::to_string(reqs).unwrap().as_bytes()).map_err(|e| format!("tmp write: {e}"))?;
    }
    let script = verif_dir().join("ref").join("check.py");
    let out = std::process::Command::new("python3").arg(&script).arg(&path).output();
    let _ = std::fs::remove_file(&path);
    let out = out.map_err(|e| format!("cannot run python3: {e}"))?;
    if !out.status.success() {
        return Err(format!("reference exited with {:?}: {}", out.status.code(), String::from_utf8_lossy(&out.stderr).chars().take(400).collect::<String>()));
    }
    let v: Vec<Value> = serde_json::from_slice(&out.stdout).map_err(|e| format!("reference output: {e}"))?;
    if v.len() != reqs.len() {
        return Err(format!("reference answered {} of {} requests", v.len(), reqs.len()));
    }
    Ok(v)
}

