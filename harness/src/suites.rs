//! The `Suite` trait: a ciphersuite plus (a) an *independent* single-signer
//! verifier working on bytes and (b) the ciphersuite crate's own wrapper
//! functions, so that the generated pass-through modules are inside the
//! explored code.

use crate::rng::ScriptedRng;
use frost_core as fc;
use frost_core::keys::dkg::{round1 as d1, round2 as d2};
use frost_core::keys::repairable::{Delta, Sigma};
use frost_core::keys::{IdentifierList, KeyPackage, PublicKeyPackage, SecretShare, SigningShare};
use frost_core::round1::{SigningCommitments, SigningNonces};
use frost_core::round2::SignatureShare;
use frost_core::{CheaterDetection, Error, Identifier, Signature, SigningKey, SigningPackage};
use frost_rerandomized::{RandomizedCiphersuite, RandomizedParams};
use sha2::{Digest, Sha256, Sha512};
use std::collections::BTreeMap;

pub type Id<C> = Identifier<C>;
pub type DealerOut<C> = (BTreeMap<Id<C>, SecretShare<C>>, PublicKeyPackage<C>);

#[allow(clippy::type_complexity)]
pub trait Suite: RandomizedCiphersuite + Sized {
    const NAME: &'static str;
    const TINY: bool = false;
    const TAPROOT: bool = false;
    /// name of the independent verifier
    const EXT: &'static str;
    fn name() -> String {
        Self::NAME.to_string()
    }
    /// Independent single-signer verification of `sig` (wire bytes) on `msg`
    /// under `vk` (wire bytes of the verifying key).
    fn ext_verify(vk: &[u8], msg: &[u8], sig: &[u8]) -> bool;
    /// Independent H3 (nonce hash) of RFC 9591 for this suite: returns the serialized scalar.
    fn ext_h3(m: &[u8]) -> Vec<u8>;
    /// Independent randomizer hash (frost-rerandomized): serialized scalar.
    fn ext_hrandomizer(m: &[u8]) -> Vec<u8>;

    // ---- crate wrappers (default: frost-core directly) ----
    fn w_generate_with_dealer(
        n: u16,
        t: u16,
        ids: IdentifierList<Self>,
        rng: &mut ScriptedRng,
    ) -> Result<DealerOut<Self>, Error<Self>> {
        fc::keys::generate_with_dealer(n, t, ids, rng)
    }
    fn w_split(
        key: &SigningKey<Self>,
        n: u16,
        t: u16,
        ids: IdentifierList<Self>,
        rng: &mut ScriptedRng,
    ) -> Result<DealerOut<Self>, Error<Self>> {
        fc::keys::split(key, n, t, ids, rng)
    }
    fn w_reconstruct(kps: &[KeyPackage<Self>]) -> Result<SigningKey<Self>, Error<Self>> {
        fc::keys::reconstruct(kps)
    }
    fn w_commit(
        share: &SigningShare<Self>,
        rng: &mut ScriptedRng,
    ) -> (SigningNonces<Self>, SigningCommitments<Self>) {
        fc::round1::commit(share, rng)
    }
    fn w_sign(
        pkg: &SigningPackage<Self>,
        nonces: &SigningNonces<Self>,
        kp: &KeyPackage<Self>,
    ) -> Result<SignatureShare<Self>, Error<Self>> {
        fc::round2::sign(pkg, nonces, kp)
    }
    fn w_aggregate(
        pkg: &SigningPackage<Self>,
        shares: &BTreeMap<Id<Self>, SignatureShare<Self>>,
        pkp: &PublicKeyPackage<Self>,
    ) -> Result<Signature<Self>, Error<Self>> {
        fc::aggregate(pkg, shares, pkp)
    }
    fn w_aggregate_custom(
        pkg: &SigningPackage<Self>,
        shares: &BTreeMap<Id<Self>, SignatureShare<Self>>,
        pkp: &PublicKeyPackage<Self>,
        cd: CheaterDetection,
    ) -> Result<Signature<Self>, Error<Self>> {
        fc::aggregate_custom(pkg, shares, pkp, cd)
    }
    fn w_part1(
        id: Id<Self>,
        n: u16,
        t: u16,
        rng: &mut ScriptedRng,
    ) -> Result<(d1::SecretPackage<Self>, d1::Package<Self>), Error<Self>> {
        fc::keys::dkg::part1(id, n, t, rng)
    }
    fn w_part2(
        sp: d1::SecretPackage<Self>,
        r1: &BTreeMap<Id<Self>, d1::Package<Self>>,
    ) -> Result<(d2::SecretPackage<Self>, BTreeMap<Id<Self>, d2::Package<Self>>), Error<Self>> {
        fc::keys::dkg::part2(sp, r1)
    }
    fn w_part3(
        sp: &d2::SecretPackage<Self>,
        r1: &BTreeMap<Id<Self>, d1::Package<Self>>,
        r2: &BTreeMap<Id<Self>, d2::Package<Self>>,
    ) -> Result<(KeyPackage<Self>, PublicKeyPackage<Self>), Error<Self>> {
        fc::keys::dkg::part3(sp, r1, r2)
    }
    fn w_compute_refreshing_shares(
        pkp: PublicKeyPackage<Self>,
        ids: &[Id<Self>],
        rng: &mut ScriptedRng,
    ) -> Result<(Vec<SecretShare<Self>>, PublicKeyPackage<Self>), Error<Self>> {
        fc::keys::refresh::compute_refreshing_shares(pkp, ids, rng)
    }
    fn w_refresh_share(
        share: SecretShare<Self>,
        kp: &KeyPackage<Self>,
    ) -> Result<KeyPackage<Self>, Error<Self>> {
        fc::keys::refresh::refresh_share(share, kp)
    }
    fn w_refresh_dkg_part1(
        id: Id<Self>,
        n: u16,
        t: u16,
        rng: &mut ScriptedRng,
    ) -> Result<(d1::SecretPackage<Self>, d1::Package<Self>), Error<Self>> {
        fc::keys::refresh::refresh_dkg_part1(id, n, t, rng)
    }
    fn w_refresh_dkg_part2(
        sp: d1::SecretPackage<Self>,
        r1: &BTreeMap<Id<Self>, d1::Package<Self>>,
    ) -> Result<(d2::SecretPackage<Self>, BTreeMap<Id<Self>, d2::Package<Self>>), Error<Self>> {
        fc::keys::refresh::refresh_dkg_part2(sp, r1)
    }
    fn w_refresh_dkg_shares(
        sp: &d2::SecretPackage<Self>,
        r1: &BTreeMap<Id<Self>, d1::Package<Self>>,
        r2: &BTreeMap<Id<Self>, d2::Package<Self>>,
        old_pkp: PublicKeyPackage<Self>,
        old_kp: KeyPackage<Self>,
    ) -> Result<(KeyPackage<Self>, PublicKeyPackage<Self>), Error<Self>> {
        fc::keys::refresh::refresh_dkg_shares(sp, r1, r2, old_pkp, old_kp)
    }
    fn w_repair1(
        helpers: &[Id<Self>],
        kp: &KeyPackage<Self>,
        rng: &mut ScriptedRng,
        participant: Id<Self>,
    ) -> Result<BTreeMap<Id<Self>, Delta<Self>>, Error<Self>> {
        fc::keys::repairable::repair_share_part1(helpers, kp, rng, participant)
    }
    fn w_repair2(deltas: &[Delta<Self>]) -> Sigma<Self> {
        fc::keys::repairable::repair_share_part2(deltas)
    }
    fn w_repair3(
        sigmas: &[Sigma<Self>],
        id: Id<Self>,
        pkp: &PublicKeyPackage<Self>,
    ) -> Result<KeyPackage<Self>, Error<Self>> {
        fc::keys::repairable::repair_share_part3(sigmas, id, pkp)
    }
    /// Taproot only: the crate's tweak entry points (None elsewhere)
    fn w_sign_with_tweak(
        _pkg: &SigningPackage<Self>,
        _nonces: &SigningNonces<Self>,
        _kp: &KeyPackage<Self>,
        _root: Option<&[u8]>,
    ) -> Option<Result<SignatureShare<Self>, Error<Self>>> {
        None
    }
    fn w_aggregate_with_tweak(
        _pkg: &SigningPackage<Self>,
        _shares: &BTreeMap<Id<Self>, SignatureShare<Self>>,
        _pkp: &PublicKeyPackage<Self>,
        _root: Option<&[u8]>,
    ) -> Option<Result<Signature<Self>, Error<Self>>> {
        None
    }
    fn w_tweaked_pkp(_pkp: &PublicKeyPackage<Self>, _root: Option<&[u8]>) -> Option<PublicKeyPackage<Self>> {
        None
    }
    fn w_rr_sign(
        pkg: &SigningPackage<Self>,
        nonces: &SigningNonces<Self>,
        kp: &KeyPackage<Self>,
        seed: &[u8],
    ) -> Result<SignatureShare<Self>, Error<Self>> {
        frost_rerandomized::sign_with_randomizer_seed(pkg, nonces, kp, seed)
    }
    fn w_rr_aggregate(
        pkg: &SigningPackage<Self>,
        shares: &BTreeMap<Id<Self>, SignatureShare<Self>>,
        pkp: &PublicKeyPackage<Self>,
        params: &RandomizedParams<Self>,
    ) -> Result<Signature<Self>, Error<Self>> {
        frost_rerandomized::aggregate(pkg, shares, pkp, params)
    }
    fn w_rr_aggregate_custom(
        pkg: &SigningPackage<Self>,
        shares: &BTreeMap<Id<Self>, SignatureShare<Self>>,
        pkp: &PublicKeyPackage<Self>,
        cd: CheaterDetection,
        params: &RandomizedParams<Self>,
    ) -> Result<Signature<Self>, Error<Self>> {
        frost_rerandomized::aggregate_custom(pkg, shares, pkp, cd, params)
    }
}

macro_rules! tweak_wrappers {
    ($krate:ident, true) => {
        fn w_sign_with_tweak(
            pkg: &SigningPackage<Self>,
            nonces: &SigningNonces<Self>,
            kp: &KeyPackage<Self>,
            root: Option<&[u8]>,
        ) -> Option<Result<SignatureShare<Self>, Error<Self>>> {
            Some($krate::round2::sign_with_tweak(pkg, nonces, kp, root))
        }
        fn w_aggregate_with_tweak(
            pkg: &SigningPackage<Self>,
            shares: &BTreeMap<Id<Self>, SignatureShare<Self>>,
            pkp: &PublicKeyPackage<Self>,
            root: Option<&[u8]>,
        ) -> Option<Result<Signature<Self>, Error<Self>>> {
            Some($krate::aggregate_with_tweak(pkg, shares, pkp, root))
        }
        fn w_tweaked_pkp(pkp: &PublicKeyPackage<Self>, root: Option<&[u8]>) -> Option<PublicKeyPackage<Self>> {
            use $krate::keys::Tweak;
            Some(pkp.clone().tweak(root))
        }
    };
    ($krate:ident, false) => {};
}

macro_rules! agg_custom {
    ($krate:ident, false) => {
        fn w_aggregate_custom(
            pkg: &SigningPackage<Self>,
            shares: &BTreeMap<Id<Self>, SignatureShare<Self>>,
            pkp: &PublicKeyPackage<Self>,
            cd: CheaterDetection,
        ) -> Result<Signature<Self>, Error<Self>> {
            $krate::aggregate_custom(pkg, shares, pkp, cd)
        }
    };
    // frost-secp256k1-tr has no aggregate_custom wrapper: frost-core's is used
    ($krate:ident, true) => {};
}

macro_rules! rr_wrappers {
    // crates that export a `rerandomized` wrapper module
    ($krate:ident, true) => {
        fn w_rr_sign(
            pkg: &SigningPackage<Self>,
            nonces: &SigningNonces<Self>,
            kp: &KeyPackage<Self>,
            seed: &[u8],
        ) -> Result<SignatureShare<Self>, Error<Self>> {
            $krate::rerandomized::sign_with_randomizer_seed(pkg, nonces, kp, seed)
        }
        fn w_rr_aggregate(
            pkg: &SigningPackage<Self>,
            shares: &BTreeMap<Id<Self>, SignatureShare<Self>>,
            pkp: &PublicKeyPackage<Self>,
            params: &RandomizedParams<Self>,
        ) -> Result<Signature<Self>, Error<Self>> {
            $krate::rerandomized::aggregate(pkg, shares, pkp, params)
        }
        fn w_rr_aggregate_custom(
            pkg: &SigningPackage<Self>,
            shares: &BTreeMap<Id<Self>, SignatureShare<Self>>,
            pkp: &PublicKeyPackage<Self>,
            cd: CheaterDetection,
            params: &RandomizedParams<Self>,
        ) -> Result<Signature<Self>, Error<Self>> {
            $krate::rerandomized::aggregate_custom(pkg, shares, pkp, cd, params)
        }
    };
    ($krate:ident, false) => {};
}

macro_rules! impl_suite {
    ($ty:ty, $krate:ident, $name:expr, $ext:expr, $verify:path, $tr:tt, $rr:tt) => {
        impl Suite for $ty {
            const NAME: &'static str = $name;
            const TAPROOT: bool = $tr;
            const EXT: &'static str = $ext;
            fn ext_verify(vk: &[u8], msg: &[u8], sig: &[u8]) -> bool {
                $verify(vk, msg, sig)
            }
            fn ext_h3(m: &[u8]) -> Vec<u8> {
                ext_hash_to_scalar($name, "nonce", m)
            }
            fn ext_hrandomizer(m: &[u8]) -> Vec<u8> {
                ext_hash_to_scalar($name, "randomizer", m)
            }
            fn w_generate_with_dealer(
                n: u16,
                t: u16,
                ids: IdentifierList<Self>,
                rng: &mut ScriptedRng,
            ) -> Result<DealerOut<Self>, Error<Self>> {
                $krate::keys::generate_with_dealer(n, t, ids, rng)
            }
            fn w_split(
                key: &SigningKey<Self>,
                n: u16,
                t: u16,
                ids: IdentifierList<Self>,
                rng: &mut ScriptedRng,
            ) -> Result<DealerOut<Self>, Error<Self>> {
                $krate::keys::split(key, n, t, ids, rng)
            }
            fn w_reconstruct(kps: &[KeyPackage<Self>]) -> Result<SigningKey<Self>, Error<Self>> {
                $krate::keys::reconstruct(kps)
            }
            fn w_commit(
                share: &SigningShare<Self>,
                rng: &mut ScriptedRng,
            ) -> (SigningNonces<Self>, SigningCommitments<Self>) {
                $krate::round1::commit(share, rng)
            }
            fn w_sign(
                pkg: &SigningPackage<Self>,
                nonces: &SigningNonces<Self>,
                kp: &KeyPackage<Self>,
            ) -> Result<SignatureShare<Self>, Error<Self>> {
                $krate::round2::sign(pkg, nonces, kp)
            }
            fn w_aggregate(
                pkg: &SigningPackage<Self>,
                shares: &BTreeMap<Id<Self>, SignatureShare<Self>>,
                pkp: &PublicKeyPackage<Self>,
            ) -> Result<Signature<Self>, Error<Self>> {
                $krate::aggregate(pkg, shares, pkp)
            }
            agg_custom!($krate, $tr);
            tweak_wrappers!($krate, $tr);
            rr_wrappers!($krate, $rr);
            fn w_part1(
                id: Id<Self>,
                n: u16,
                t: u16,
                rng: &mut ScriptedRng,
            ) -> Result<(d1::SecretPackage<Self>, d1::Package<Self>), Error<Self>> {
                $krate::keys::dkg::part1(id, n, t, rng)
            }
            fn w_part2(
                sp: d1::SecretPackage<Self>,
                r1: &BTreeMap<Id<Self>, d1::Package<Self>>,
            ) -> Result<
                (d2::SecretPackage<Self>, BTreeMap<Id<Self>, d2::Package<Self>>),
                Error<Self>,
            > {
                $krate::keys::dkg::part2(sp, r1)
            }
            fn w_part3(
                sp: &d2::SecretPackage<Self>,
                r1: &BTreeMap<Id<Self>, d1::Package<Self>>,
                r2: &BTreeMap<Id<Self>, d2::Package<Self>>,
            ) -> Result<(KeyPackage<Self>, PublicKeyPackage<Self>), Error<Self>> {
                $krate::keys::dkg::part3(sp, r1, r2)
            }
            fn w_compute_refreshing_shares(
                pkp: PublicKeyPackage<Self>,
                ids: &[Id<Self>],
                rng: &mut ScriptedRng,
            ) -> Result<(Vec<SecretShare<Self>>, PublicKeyPackage<Self>), Error<Self>> {
                $krate::keys::refresh::compute_refreshing_shares(pkp, ids, rng)
            }
            fn w_refresh_share(
                share: SecretShare<Self>,
                kp: &KeyPackage<Self>,
            ) -> Result<KeyPackage<Self>, Error<Self>> {
                $krate::keys::refresh::refresh_share(share, kp)
            }
            fn w_refresh_dkg_part1(
                id: Id<Self>,
                n: u16,
                t: u16,
                rng: &mut ScriptedRng,
            ) -> Result<(d1::SecretPackage<Self>, d1::Package<Self>), Error<Self>> {
                $krate::keys::refresh::refresh_dkg_part1(id, n, t, rng)
            }
            fn w_refresh_dkg_part2(
                sp: d1::SecretPackage<Self>,
                r1: &BTreeMap<Id<Self>, d1::Package<Self>>,
            ) -> Result<
                (d2::SecretPackage<Self>, BTreeMap<Id<Self>, d2::Package<Self>>),
                Error<Self>,
            > {
                $krate::keys::refresh::refresh_dkg_part2(sp, r1)
            }
            fn w_refresh_dkg_shares(
                sp: &d2::SecretPackage<Self>,
                r1: &BTreeMap<Id<Self>, d1::Package<Self>>,
                r2: &BTreeMap<Id<Self>, d2::Package<Self>>,
                old_pkp: PublicKeyPackage<Self>,
                old_kp: KeyPackage<Self>,
            ) -> Result<(KeyPackage<Self>, PublicKeyPackage<Self>), Error<Self>> {
                $krate::keys::refresh::refresh_dkg_shares(sp, r1, r2, old_pkp, old_kp)
            }
            fn w_repair1(
                helpers: &[Id<Self>],
                kp: &KeyPackage<Self>,
                rng: &mut ScriptedRng,
                participant: Id<Self>,
            ) -> Result<BTreeMap<Id<Self>, Delta<Self>>, Error<Self>> {
                $krate::keys::repairable::repair_share_part1::<Self, _>(
                    helpers,
                    kp,
                    rng,
                    participant,
                )
            }
            fn w_repair2(deltas: &[Delta<Self>]) -> Sigma<Self> {
                $krate::keys::repairable::repair_share_part2(deltas)
            }
            fn w_repair3(
                sigmas: &[Sigma<Self>],
                id: Id<Self>,
                pkp: &PublicKeyPackage<Self>,
            ) -> Result<KeyPackage<Self>, Error<Self>> {
                $krate::keys::repairable::repair_share_part3(sigmas, id, pkp)
            }
        }
    };
}

pub type Ed25519 = frost_ed25519::Ed25519Sha512;
pub type Ristretto = frost_ristretto255::Ristretto255Sha512;
pub type Ed448 = frost_ed448::Ed448Shake256;
pub type P256 = frost_p256::P256Sha256;
pub type Secp = frost_secp256k1::Secp256K1Sha256;
pub type SecpTr = frost_secp256k1_tr::Secp256K1Sha256TR;

impl_suite!(Ed25519, frost_ed25519, "ed25519", "ed25519-dalek verify_strict", ext_ed25519, false, false);
impl_suite!(
    Ristretto,
    frost_ristretto255,
    "ristretto255",
    "from-scratch Schnorr on curve25519-dalek ristretto + sha2",
    ext_ristretto,
    false,
    true
);
impl_suite!(
    Ed448,
    frost_ed448,
    "ed448",
    "from-scratch RFC 8032 Ed448 verify on ed448-goldilocks + sha3",
    ext_ed448,
    false,
    false
);
impl_suite!(
    P256,
    frost_p256,
    "p256",
    "from-scratch Schnorr on p256 + own expand_message_xmd",
    ext_p256,
    false,
    false
);
impl_suite!(
    Secp,
    frost_secp256k1,
    "secp256k1",
    "from-scratch Schnorr on k256 + own expand_message_xmd",
    ext_secp,
    false,
    false
);
impl_suite!(
    SecpTr,
    frost_secp256k1_tr,
    "secp256k1-tr",
    "libsecp256k1 verify_schnorr (BIP-340)",
    ext_secp_tr,
    true,
    false
);

pub const REAL_SUITES: [&str; 6] = [
    "ed25519",
    "ristretto255",
    "secp256k1-tr",
    "secp256k1",
    "p256",
    "ed448",
];

/// Dispatch a generic function over a suite name.
#[macro_export]
macro_rules! with_suite {
    ($name:expr, $f:ident $(, $arg:expr)*) => {
        match $name {
            "ed25519" => $f::<$crate::suites::Ed25519>($($arg),*),
            "ristretto255" => $f::<$crate::suites::Ristretto>($($arg),*),
            "ed448" => $f::<$crate::suites::Ed448>($($arg),*),
            "p256" => $f::<$crate::suites::P256>($($arg),*),
            "secp256k1" => $f::<$crate::suites::Secp>($($arg),*),
            "secp256k1-tr" => $f::<$crate::suites::SecpTr>($($arg),*),
            "tiny5" => $f::<$crate::tiny::Tiny<5>>($($arg),*),
            "tiny7" => $f::<$crate::tiny::Tiny<7>>($($arg),*),
            "tiny11" => $f::<$crate::tiny::Tiny<11>>($($arg),*),
            "tiny13" => $f::<$crate::tiny::Tiny<13>>($($arg),*),
            "tiny251" => $f::<$crate::tiny::Tiny<251>>($($arg),*),
            other => panic!("unknown suite {other}"),
        }
    };
}

// ---------------------------------------------------------------------
// Independent verifiers (O1 / O1')
// ---------------------------------------------------------------------

fn ext_ed25519(vk: &[u8], msg: &[u8], sig: &[u8]) -> bool {
    let Ok(vkb): Result<[u8; 32], _> = vk.try_into() else {
        return false;
    };
    let Ok(sb): Result<[u8; 64], _> = sig.try_into() else {
        return false;
    };
    let Ok(k) = ed25519_dalek::VerifyingKey::from_bytes(&vkb) else {
        return false;
    };
    let s = ed25519_dalek::Signature::from_bytes(&sb);
    k.verify_strict(msg, &s).is_ok()
}

fn ext_ristretto(vk: &[u8], msg: &[u8], sig: &[u8]) -> bool {
    use curve25519_dalek::{
        constants::RISTRETTO_BASEPOINT_POINT, ristretto::CompressedRistretto, scalar::Scalar,
        traits::Identity,
    };
    if vk.len() != 32 || sig.len() != 64 {
        return false;
    }
    let Ok(rc) = CompressedRistretto::from_slice(&sig[..32]) else {
        return false;
    };
    let Some(r) = rc.decompress() else {
        return false;
    };
    let Ok(pc) = CompressedRistretto::from_slice(vk) else {
        return false;
    };
    let Some(pk) = pc.decompress() else {
        return false;
    };
    if r == curve25519_dalek::ristretto::RistrettoPoint::identity()
        || pk == curve25519_dalek::ristretto::RistrettoPoint::identity()
    {
        return false;
    }
    let zb: [u8; 32] = sig[32..].try_into().unwrap();
    let Some(z) = Option::<Scalar>::from(Scalar::from_canonical_bytes(zb)) else {
        return false;
    };
    let mut h = Sha512::new();
    h.update(b"FROST-RISTRETTO255-SHA512-v1");
    h.update(b"chal");
    h.update(&sig[..32]);
    h.update(vk);
    h.update(msg);
    let mut wide = [0u8; 64];
    wide.copy_from_slice(&h.finalize());
    let c = Scalar::from_bytes_mod_order_wide(&wide);
    RISTRETTO_BASEPOINT_POINT * z == r + pk * c
}

fn ext_ed448(vk: &[u8], msg: &[u8], sig: &[u8]) -> bool {
    use ed448_goldilocks::{CompressedEdwardsY, EdwardsPoint, EdwardsScalar};
    use shake::digest::{ExtendableOutput, Update, XofReader};
    if vk.len() != 57 || sig.len() != 114 {
        return false;
    }
    let rb: [u8; 57] = sig[..57].try_into().unwrap();
    let pb: [u8; 57] = vk.try_into().unwrap();
    let dec = |b: [u8; 57]| -> Option<EdwardsPoint> {
        let c = CompressedEdwardsY(b);
        let p = c.decompress_unchecked().into_option()?;
        if p.compress().0 != b {
            return None;
        }
        let e = p.to_edwards();
        if e == EdwardsPoint::IDENTITY || !bool::from(e.is_torsion_free()) {
            return None;
        }
        Some(e)
    };
    let (Some(r), Some(pk)) = (dec(rb), dec(pb)) else {
        return false;
    };
    // scalar: 57 bytes little endian, last byte must be zero and value < L
    if sig[113] != 0 {
        return false;
    }
    let zb: [u8; 57] = sig[57..].try_into().unwrap();
    let Some(z) = EdwardsScalar::from_canonical_bytes(&zb.into()).into_option() else {
        return false;
    };
    let mut h = shake::Shake256::default();
    h.update(b"SigEd448");
    h.update(&[0u8, 0u8]);
    h.update(&sig[..57]);
    h.update(vk);
    h.update(msg);
    let mut rd = h.finalize_xof();
    let mut wide = [0u8; 114];
    rd.read(&mut wide);
    let c = EdwardsScalar::from_bytes_mod_order_wide(&wide.into());
    EdwardsPoint::GENERATOR * z == r + pk * c
}

/// RFC 9380 expand_message_xmd with SHA-256, written from the RFC text.
pub fn xmd_sha256(msg: &[u8], dst: &[u8], len: usize) -> Vec<u8> {
    let ell = len.div_ceil(32);
    assert!(ell <= 255 && dst.len() <= 255);
    let mut dst_prime = dst.to_vec();
    dst_prime.push(dst.len() as u8);
    let mut h = Sha256::new();
    h.update([0u8; 64]);
    h.update(msg);
    h.update((len as u16).to_be_bytes());
    h.update([0u8]);
    h.update(&dst_prime);
    let b0 = h.finalize();
    let mut h = Sha256::new();
    h.update(b0);
    h.update([1u8]);
    h.update(&dst_prime);
    let mut bi = h.finalize();
    let mut out = bi.to_vec();
    for i in 2..=ell {
        let mut x = [0u8; 32];
        for k in 0..32 {
            x[k] = b0[k] ^ bi[k];
        }
        let mut h = Sha256::new();
        h.update(x);
        h.update([i as u8]);
        h.update(&dst_prime);
        bi = h.finalize();
        out.extend_from_slice(&bi);
    }
    out.truncate(len);
    out
}

fn ext_p256(vk: &[u8], msg: &[u8], sig: &[u8]) -> bool {
    use p256::elliptic_curve::PrimeField;
    use p256::elliptic_curve::sec1::FromSec1Point;
    use p256::{AffinePoint, ProjectivePoint, Scalar};
    if vk.len() != 33 || sig.len() != 65 {
        return false;
    }
    let dec = |b: &[u8]| -> Option<ProjectivePoint> {
        if b[0] != 2 && b[0] != 3 {
            return None;
        }
        let ep = p256::Sec1Point::from_bytes(b).ok()?;
        let a = Option::<AffinePoint>::from(AffinePoint::from_sec1_point(&ep))?;
        Some(ProjectivePoint::from(a))
    };
    let (Some(r), Some(pk)) = (dec(&sig[..33]), dec(vk)) else {
        return false;
    };
    let zb: [u8; 32] = sig[33..].try_into().unwrap();
    let Some(z) = Option::<Scalar>::from(Scalar::from_repr(zb.into())) else {
        return false;
    };
    let mut pre = sig[..33].to_vec();
    pre.extend_from_slice(vk);
    pre.extend_from_slice(msg);
    let u = xmd_sha256(&pre, b"FROST-P256-SHA256-v1chal", 48);
    let mut c = Scalar::ZERO;
    let b256 = Scalar::from(256u64);
    for byte in u {
        c = c * b256 + Scalar::from(byte as u64);
    }
    ProjectivePoint::GENERATOR * z == r + pk * c
}

fn ext_secp(vk: &[u8], msg: &[u8], sig: &[u8]) -> bool {
    use k256::elliptic_curve::PrimeField;
    use k256::elliptic_curve::sec1::FromSec1Point;
    use k256::{AffinePoint, ProjectivePoint, Scalar};
    if vk.len() != 33 || sig.len() != 65 {
        return false;
    }
    let dec = |b: &[u8]| -> Option<ProjectivePoint> {
        if b[0] != 2 && b[0] != 3 {
            return None;
        }
        let ep = k256::Sec1Point::from_bytes(b).ok()?;
        let a = Option::<AffinePoint>::from(AffinePoint::from_sec1_point(&ep))?;
        Some(ProjectivePoint::from(a))
    };
    let (Some(r), Some(pk)) = (dec(&sig[..33]), dec(vk)) else {
        return false;
    };
    let zb: [u8; 32] = sig[33..].try_into().unwrap();
    let Some(z) = Option::<Scalar>::from(Scalar::from_repr(zb.into())) else {
        return false;
    };
    let mut pre = sig[..33].to_vec();
    pre.extend_from_slice(vk);
    pre.extend_from_slice(msg);
    let u = xmd_sha256(&pre, b"FROST-secp256k1-SHA256-v1chal", 48);
    let mut c = Scalar::ZERO;
    let b256 = Scalar::from(256u64);
    for byte in u {
        c = c * b256 + Scalar::from(byte as u64);
    }
    ProjectivePoint::GENERATOR * z == r + pk * c
}

/// BIP-340 verification by libsecp256k1 under the x-only form of `vk`.
fn ext_secp_tr(vk: &[u8], msg: &[u8], sig: &[u8]) -> bool {
    if vk.len() != 33 || sig.len() != 64 {
        return false;
    }
    bip340_verify_xonly(&vk[1..], msg, sig)
}

pub fn bip340_verify_xonly(xonly: &[u8], msg: &[u8], sig: &[u8]) -> bool {
    use secp256k1::{Secp256k1, XOnlyPublicKey, schnorr};
    let secp = Secp256k1::verification_only();
    let Ok(pk) = XOnlyPublicKey::from_byte_array(xonly.try_into().unwrap_or([0u8; 32])) else {
        return false;
    };
    let Ok(sb): Result<[u8; 64], _> = sig.try_into() else {
        return false;
    };
    let s = schnorr::Signature::from_byte_array(sb);
    secp.verify_schnorr(&s, msg, &pk).is_ok()
}


/// Independent hash-to-scalar of every suite (context string || tag || m), written from
/// RFC 9591 section 6 on the curve crates' scalar types; returns the serialized scalar.
pub fn ext_hash_to_scalar(suite: &str, tag: &str, m: &[u8]) -> Vec<u8> {
    match suite {
        "ed25519" | "ristretto255" => {
            let ctx = if suite == "ed25519" { "FROST-ED25519-SHA512-v1" } else { "FROST-RISTRETTO255-SHA512-v1" };
            let mut h = Sha512::new();
            h.update(ctx.as_bytes());
            h.update(tag.as_bytes());
            h.update(m);
            let mut wide = [0u8; 64];
            wide.copy_from_slice(&h.finalize());
            curve25519_dalek::scalar::Scalar::from_bytes_mod_order_wide(&wide).to_bytes().to_vec()
        }
        "ed448" => {
            use shake::digest::{ExtendableOutput, Update, XofReader};
            let mut h = shake::Shake256::default();
            h.update(b"FROST-ED448-SHAKE256-v1");
            h.update(tag.as_bytes());
            h.update(m);
            let mut rd = h.finalize_xof();
            let mut wide = [0u8; 114];
            rd.read(&mut wide);
            let s = ed448_goldilocks::EdwardsScalar::from_bytes_mod_order_wide(&wide.into());
            let b: [u8; 57] = s.to_bytes_rfc_8032().into();
            b.to_vec()
        }
        "p256" => {
            use p256::elliptic_curve::PrimeField;
            let dst = format!("FROST-P256-SHA256-v1{tag}");
            let u = xmd_sha256(m, dst.as_bytes(), 48);
            let mut c = p256::Scalar::ZERO;
            let b256 = p256::Scalar::from(256u64);
            for byte in u {
                c = c * b256 + p256::Scalar::from(byte as u64);
            }
            c.to_repr().to_vec()
        }
        "secp256k1" | "secp256k1-tr" => {
            use k256::elliptic_curve::PrimeField;
            let ctx = if suite == "secp256k1" { "FROST-secp256k1-SHA256-v1" } else { "FROST-secp256k1-SHA256-TR-v1" };
            let dst = format!("{ctx}{tag}");
            let u = xmd_sha256(m, dst.as_bytes(), 48);
            let mut c = k256::Scalar::ZERO;
            let b256 = k256::Scalar::from(256u64);
            for byte in u {
                c = c * b256 + k256::Scalar::from(byte as u64);
            }
            c.to_repr().to_vec()
        }
        other => panic!("no independent hash for {other}"),
    }
}
